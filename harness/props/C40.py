"""C40 -- resources and finally-actions are released exactly once.

Machines: Ops/Using.v on the runner Ops/Multi.v.  Tie: K2 multi-source port-level
replay (harness/k2m.py): the operator is mounted on a hand-driven source that may
ALSO deliver a prefix of notifications inside its own subscribe() (cold prefix),
with spy resources / spy callbacks that log through env.effect(n); seeded input
interleavings incl. non-conforming tails, a dispose instant (also the instant of
the terminal notification), raising resource factory / observable factory / inner
source errors / raising do-callbacks.  Oracle (never consults the model): effect
counts per subscription read off the boundary log.

A second, oracle-only family covers RAISING finally actions (which escape into the
emitter and therefore have no machine counterpart): the action must still have
been invoked exactly once.

Oracle-only "per subscription" family (run_plan): ONE built observable is subscribed once or twice --
sequentially (the second subscription after the first one's timeline) or overlapping (timelines interleaved) --
every upstream subscription is driven by its own timeline, each subscriber may dispose between inputs or from
INSIDE its k-th on_next, and the upstream may be deaf (keeps pushing after it was disposed).  Effects are
attributed per subscription: using's resources are numbered (resource j is the one created during the j-th
subscribe() call and must be released exactly once, at that subscription's stop); the shared finally actions
must run once at the stopping input of EACH stopped subscription (after its terminal notification), never
elsewhere; every subscriber must see its own upstream's notifications unchanged.  The faulty-upstream family
likewise runs its whole procedure twice on one observable (sequentially / overlapping).

Oracle-only RE-ENTRANT family (harness/c40_reent.py): the finalizer / callback is not a passive spy but ACTS on
the pipeline it belongs to when it is invoked -- it feeds a notification or a terminal back into the source
(Subject, Subject under take_until whose stop it may push, raw unguarded source), disposes the subscription it
belongs to, or subscribes once more to the same observable; for using (the resource's dispose()),
finally_action, do_finally, do_on_dispose, do_on_terminate, do_after_terminate and each of do_action's three
callbacks.  After EVERY top-level step: finalizer runs so far == subscriptions stopped so far (exactly once per
subscription however the finalizer is re-entered), each numbered resource's dispose() called exactly once;
do_action callbacks observe exactly what is delivered (an observed notification stays undelivered only if the
callback itself stopped the subscription); nothing may escape into the driver."""
import json

import c40_reent
import k2
import k2m
import lib
from k2 import UserError, err_id
from lib import gz

IMPORTS = "Base.Prelude Base.CaseLib Ops.Machine Ops.Multi Ops.MultiCase Ops.Using"
CREATED, RELEASED, FINALLY, SUBSCRIBE, ON_DISPOSE, TERMINATE, AFTER_TERMINATE, DO_DONE = 1, 2, 3, 4, 5, 6, 7, 8
NAMES = ["using", "finally_action", "do_finally", "do_on_dispose", "do_action", "do", "do_after_next",
         "do_on_subscribe", "do_on_terminate", "do_after_terminate"]
FINALIZER = {"finally_action": FINALLY, "do_finally": FINALLY, "do_on_dispose": ON_DISPOSE}


class _FalsyDisposable:
    """a disposable whose truth value is False (like an empty CompositeDisposable); disposes once"""

    def __init__(self, action):
        self._action, self._done = action, False

    def __len__(self):
        return 0

    def dispose(self):
        if not self._done:
            self._done = True
            self._action()


class ColdSource:
    """source k: logs subscribe/unsubscribe like k2m.MSource, and delivers `pre`
    synchronously inside subscribe() (Observable.create style)."""

    def __init__(self, env, pre):
        import reactivex
        from reactivex.disposable import Disposable
        self.env, self.k = env, len(env.sources)
        env.sources.append(self)
        self.observers = []
        k = self.k

        def subscribe(observer, scheduler=None):
            rec = [observer, True]
            self.observers.append(rec)
            env.log.append((env.tag, "sub", k, None))
            for ev in pre:
                deliver(observer, ev)

            def dispose():
                if rec[1]:
                    rec[1] = False
                    env.log.append((env.tag, "unsub", k, None))
            return Disposable(dispose)
        self.observable = reactivex.Observable(subscribe)

    def push(self, ev):
        for rec in list(self.observers):
            if rec[1]:
                deliver(rec[0], ev)


def deliver(o, ev):
    if ev[0] == "N":
        o.on_next(ev[1])
    elif ev[0] == "E":
        o.on_error(ev[1])
    else:
        o.on_completed()


# ---- instances (parameters are plain JSON so that a replay file can rebuild them) ----

def g_tbl(t):
    """{value: code} -> Gallina callback raising `code` on `value`, Ok tt elsewhere"""
    es = "; ".join(f"({gz(int(v))}, Raise {gz(c)})" for v, c in sorted((int(v), c) for v, c in t.items()))
    return f"(tbl [{es}] (Ok tt))"


def g_unit(r):
    return "(Ok tt)" if r == "ok" else f"(Raise {gz(r)})"


def gen_params(rng, name):
    def tbl(keys, p=0.35):
        if rng.random() < p:
            return {str(rng.choice(keys)): rng.choice([61, 62])}
        return {}
    vals, errs = list(range(10)), [11, 12, 13]
    unit = lambda p=0.3: (rng.choice([63, 64]) if rng.random() < p else "ok")
    if name == "using":
        return {"rf": rng.choice(["res", "res", "res", "none", 41]), "obf": rng.choice(["ok", "ok", "ok", 42]),
                "sched": rng.random() < 0.5}
    if name in ("do_action", "do"):
        opt = (lambda v: v) if name == "do" else (lambda v: v if rng.random() < 0.75 else None)
        return {"fn": opt(tbl(vals)), "fe": opt(tbl(errs)), "fd": opt(unit())}
    if name == "do_after_next":
        return {"f": tbl(vals, 0.5)}
    if name in ("do_on_subscribe", "do_on_terminate", "do_after_terminate"):
        return {"f": unit(0.4)}
    return {}


def make_instance(name, p, raised, ColdSource=ColdSource):
    """-> (build(env, pre) -> observable, coq machine text); ColdSource: the upstream class to mount on"""
    import reactivex as rx
    from reactivex import operators as ops
    from reactivex.disposable import Disposable
    from reactivex.observer import Observer
    from reactivex.operators import _do

    def spy1(env, code_of, table):
        def cb(x):
            c = code_of(x)
            env.effect(c[0])
            r = table.get(str(c[1]))
            if r is not None:
                raised.append((env.tag, r))
                raise UserError(r)
        return cb

    def spy0(env, code, r):
        def cb():
            env.effect(code)
            if r != "ok":
                raised.append((env.tag, r))
                raise UserError(r)
        return cb

    if name == "using":
        rf, obf, sched = p["rf"], p["obf"], p["sched"]

        def build(env, pre):
            def resource_factory():
                if rf == "none":
                    return None
                if rf != "res":
                    raise UserError(rf)
                # half of the resources are FALSY disposables (an empty "disposable bag" defines __len__ == 0):
                # using() must adopt them all the same
                rc = getattr(env, "_res_made", 0)      # per run: the first resource is falsy, then alternating
                env._res_made = rc + 1
                made = Disposable if (rc % 2) else _FalsyDisposable
                if hasattr(env, "res_effect"):          # run_plan: resources are numbered in creation order
                    rid = env.new_resource()
                    return made(lambda: env.res_effect(RELEASED, rid))
                env.effect(CREATED)
                return made(lambda: env.effect(RELEASED))

            def observable_factory(resource):
                if obf != "ok":
                    raise UserError(obf)
                return ColdSource(env, pre).observable
            return rx.using(resource_factory, observable_factory)
        g_rf = {"res": "(Ok true)", "none": "(Ok false)"}.get(rf, f"(Raise {rf})")
        return build, f"x_using {g_rf} {g_unit(obf)} {lib.gbool(sched)}"

    def on_source(wrap, coq):
        return (lambda env, pre: wrap(env, ColdSource(env, pre).observable)), coq

    if name == "finally_action":
        return on_source(lambda env, s: s.pipe(ops.finally_action(spy0(env, FINALLY, "ok"))), "x_finally_action")
    if name == "do_finally":
        return on_source(lambda env, s: _do.do_finally(spy0(env, FINALLY, "ok"))(s), "x_do_finally")
    if name == "do_on_dispose":
        return on_source(lambda env, s: _do.do_on_dispose(s, spy0(env, ON_DISPOSE, "ok")), "x_do_on_dispose")
    if name in ("do_action", "do"):
        fn, fe, fd = p["fn"], p["fe"], p["fd"]

        def wrap(env, s):
            a = spy1(env, lambda x: (100 + x, x), fn) if fn is not None else None
            b = spy1(env, lambda e: (200 + err_id(e), err_id(e)), fe) if fe is not None else None
            c = spy0(env, DO_DONE, fd) if fd is not None else None
            if name == "do":
                return s.pipe(ops.do(Observer(a, b, c)))
            return s.pipe(ops.do_action(a, b, c))
        o1 = lambda t: "None" if t is None else f"(Some {g_tbl(t)})"
        o0 = lambda r: "None" if r is None else f"(Some {g_unit(r)})"
        return on_source(wrap, f"x_do_action {o1(fn)} {o1(fe)} {o0(fd)}")
    if name == "do_after_next":
        return on_source(lambda env, s: _do.do_after_next(s, spy1(env, lambda x: (300 + x, x), p["f"])),
                         f"x_do_after_next {g_tbl(p['f'])}")
    code = {"do_on_subscribe": SUBSCRIBE, "do_on_terminate": TERMINATE, "do_after_terminate": AFTER_TERMINATE}[name]
    fnc = getattr(_do, name)
    return on_source(lambda env, s: fnc(s, spy0(env, code, p["f"])), f"x_{name} {g_unit(p['f'])}")


# ---- one case ------------------------------------------------------------------

def ev_json(ev):
    return [ev[0], ev[1].code] if ev[0] == "E" else list(ev)


def ev_py(j):
    return ("E", UserError(j[1])) if j[0] == "E" else tuple(j)


def g_pre(pre):
    def one(ev):
        return f"Next {gz(ev[1])}" if ev[0] == "N" else (f"Err {gz(err_id(ev[1]))}" if ev[0] == "E" else "Done")
    return "[" + "; ".join(one(e) for e in pre) + "]"


def run_case(case):
    """case: JSON dict(name, params, pre, events [(t, ev)], dispose_at) -> result dict"""
    raised = []
    build, coq = make_instance(case["name"], case["params"], raised)
    pre = [ev_py(j) for j in case["pre"]]
    evs = [(t, 0, ev_py(j)) for t, j in case["events"]]
    res = k2m.run_multi(lambda env, ss: build(env, pre), 0, evs,
                        use_scheduler=bool(case["params"].get("sched")), dispose_at=case["dispose_at"])
    if res["build_error"] is not None:
        raise RuntimeError(f"{case['name']}: build error {res['build_error']!r}")
    res["raised"] = raised
    res["pre"] = pre
    res["coq"] = f"with_pre ({coq}) {g_pre(pre)}" if pre else coq
    return res


def gen_case(rng, name):
    params = gen_params(rng, name)
    pre = []
    if rng.random() < 0.3:
        pre = [["N", rng.randrange(10)] for _ in range(rng.choice([0, 1, 2]))]
        r = rng.random()
        if r < 0.45:
            pre.append(["C"])
        elif r < 0.7:
            pre.append(["E", rng.choice([11, 12])])
        if rng.random() < 0.2:
            pre.append(rng.choice([["N", 9], ["C"]]))
    evs = k2m.gen_events(rng, 1, maxlen=4)
    events = [[t, ev_json(ev)] for (t, _, ev) in evs]
    disp = None
    if rng.random() < 0.4:
        times = [t for t, _ in events] or [0]
        disp = rng.choice(times + [0, max(times) + 10])
    return {"name": name, "params": params, "pre": pre, "events": events, "dispose_at": disp}


# ---- the oracle: a direct reading of the property on the boundary log ------------

def stop_point(res):
    """(tag, index in log or None) of the first terminal notification received by the subscriber, or of
    the dispose call, whichever comes first"""
    term = next(((tag, i) for i, (tag, kind, a, b) in enumerate(res["log"]) if kind == "emit" and a in "EC"), None)
    disp = next((k + 1 for k, (now, i) in enumerate(res["inputs"]) if i[0] == "dispose"), None)
    if term is not None and (disp is None or term[0] <= disp):
        return term
    if disp is not None:
        return (disp, None)
    return None


def effects(res, n):
    return [(tag, i) for i, (tag, kind, a, b) in enumerate(res["log"]) if kind == "effect" and a == n]


def once_after_stop(res, n, what):
    st = stop_point(res)
    eff = effects(res, n)
    if st is None:
        return f"{what} ran {len(eff)} time(s) although the subscription neither terminated nor was disposed" if eff else None
    if len(eff) != 1:
        return f"{what} ran {len(eff)} times (subscription stopped at input {st[0]})"
    if eff[0][0] != st[0]:
        return f"{what} ran at input {eff[0][0]}, the subscription stopped at input {st[0]}"
    if st[1] is not None and eff[0][1] < st[1]:
        return f"{what} ran before the terminal notification was delivered"
    return None


def expected_identity(res):
    """what the subscriber must receive when nothing is changed: the source's notifications (prefix inside
    subscribe, then the delivered ones) up to the first terminal one or the dispose"""
    out = []
    seq = [(0, ev) for ev in res["pre"]] + [(k + 1, i[2] if i[0] == "src" else i) for k, (now, i) in enumerate(res["inputs"])]
    for tag, ev in seq:
        if ev[0] == "dispose":
            break
        if ev[0] == "tick":
            continue
        out.append((tag, ev[0], ev[1] if ev[0] == "N" else (err_id(ev[1]) if ev[0] == "E" else None)))
        if ev[0] in "EC":
            break
    return out


def received(res):
    return [(tag, a, b if a == "N" else (err_id(b) if a == "E" else None))
            for (tag, kind, a, b) in res["log"] if kind == "emit"]


def oracle(case, res):
    name, p = case["name"], case["params"]
    if name == "using":
        created = effects(res, CREATED)
        if p["rf"] == "res":
            if len(created) != 1:
                return f"resource factory ran {len(created)} times"
            v = once_after_stop(res, RELEASED, "resource.dispose()")
            if v:
                return v
        elif effects(res, RELEASED):
            return "a resource was disposed although none was created"
        if p["rf"] in ("res", "none") and p["obf"] == "ok" and received(res) != expected_identity(res):
            return f"using changed the sequence: {received(res)} vs source {expected_identity(res)}"
        return None
    if name in FINALIZER:
        v = once_after_stop(res, FINALIZER[name], f"the {name} action")
        if v:
            return v
    if not res["raised"] and received(res) != expected_identity(res):
        return f"{name} changed the sequence although no callback raised: {received(res)} vs source {expected_identity(res)}"
    if name in ("do_action", "do") and not res["raised"]:
        # every notification passing through is observed by the corresponding callback, in order
        want = []
        for (tag, a, b) in received(res):
            if a == "N" and p["fn"] is not None:
                want.append((tag, 100 + b))
            elif a == "E" and p["fe"] is not None:
                want.append((tag, 200 + b))
            elif a == "C" and p["fd"] is not None:
                want.append((tag, DO_DONE))
        got = [(tag, a) for (tag, kind, a, b) in res["log"] if kind == "effect"]
        if want != got:
            return f"do callbacks observed {got}, notifications delivered {want}"
    return None


# ---- one observable, several subscriptions, re-entrant dispose (oracle only) ---------------

class PlanEnv(k2m.Env):
    """log entries are (tag, kind, a, b, who): who = subscriber index for emissions, resource number for
    CREATED / RELEASED, None otherwise"""

    def __init__(self, subs, deaf):
        super().__init__()
        self.subs, self.deaf = subs, deaf
        self.up = []                # upstream subscription records [observer, live], in creation order
        self.n_res = 0

    def effect(self, n):
        self.log.append((self.tag, "effect", n, None, None))

    def new_resource(self):
        rid = self.n_res
        self.n_res += 1
        self.log.append((self.tag, "effect", CREATED, None, rid))
        return rid

    def res_effect(self, n, rid):
        self.log.append((self.tag, "effect", n, None, rid))


class PlanSource:
    """the j-th upstream subscription made in the whole run belongs to downstream subscription j (every operator
    here subscribes upstream at most once per subscribe(), synchronously): it delivers subs[j]['pre'] inside
    subscribe() and is then driven by the plan's ('ev', j, ...) steps"""

    def __init__(self, env, pre=None):
        import reactivex
        from reactivex.disposable import Disposable

        def subscribe(observer, scheduler=None):
            j = len(env.up)
            rec = [observer, True]
            env.up.append(rec)
            env.log.append((env.tag, "sub", j, None, None))
            for ev in (env.subs[j]["pre"] if j < len(env.subs) else []):
                deliver(observer, ev_py(ev))

            def dispose():
                if rec[1]:
                    rec[1] = False
                    env.log.append((env.tag, "unsub", j, None, None))
            return Disposable(dispose)
        self.observable = reactivex.Observable(subscribe)


def run_plan(case):
    """case: dict(name, params, subs=[{pre, budget}], steps=[['sub', i] | ['ev', i, ev] | ['disp', i]], deaf)"""
    raised = []
    build, _ = make_instance(case["name"], case["params"], raised, ColdSource=PlanSource)
    env = PlanEnv(case["subs"], case["deaf"])
    obs = build(env, None)
    n = len(case["subs"])
    handles, seen, self_disposed, escapes = [None] * n, [0] * n, [None] * n, []

    def subscriber(i):
        budget = case["subs"][i].get("budget")

        def on_next(v):
            env.log.append((env.tag, "emit", "N", v, i))
            seen[i] += 1
            if budget is not None and seen[i] >= budget and handles[i] is not None and self_disposed[i] is None:
                self_disposed[i] = (env.tag, len(env.log) - 1)
                handles[i].dispose()
        return (on_next, lambda e: env.log.append((env.tag, "emit", "E", e, i)),
                lambda: env.log.append((env.tag, "emit", "C", None, i)))

    for k, st in enumerate(case["steps"]):
        env.tag = k + 1
        try:
            if st[0] == "sub":
                handles[st[1]] = obs.subscribe(*subscriber(st[1]))
            elif st[0] == "disp":
                if handles[st[1]] is not None:
                    handles[st[1]].dispose()
            elif st[1] < len(env.up):
                rec = env.up[st[1]]
                if rec[1] or env.deaf:
                    deliver(rec[0], ev_py(st[2]))
        except Exception as e:
            escapes.append((env.tag, repr(e)))
    return {"log": env.log, "raised": raised, "escapes": escapes, "self_disposed": self_disposed}


def plan_stop(case, res, i):
    """(tag, log index or None) at which subscription i stopped: its first terminal notification, its re-entrant
    dispose (inside the k-th on_next), or its dispose step -- whichever comes first; None: still running"""
    c = []
    term = next(((tag, idx) for idx, (tag, kind, a, b, who) in enumerate(res["log"])
                 if kind == "emit" and who == i and a in "EC"), None)
    if term:
        c.append(term)
    if res["self_disposed"][i]:
        c.append(res["self_disposed"][i])
    subbed = False
    for k, st in enumerate(case["steps"]):
        subbed = subbed or (st[0] == "sub" and st[1] == i)
        if st[0] == "disp" and st[1] == i and subbed:
            c.append((k + 1, None))
            break
    return min(c, key=lambda x: (x[0], x[1] if x[1] is not None else 10**9)) if c else None


def plan_expected(case, res, i):
    """what subscriber i must receive if the operator changes nothing: its upstream's notifications (prefix inside
    subscribe(), then its 'ev' steps) up to the first terminal one / its dispose step / its k-th element"""
    out, budget, nn = [], case["subs"][i].get("budget"), 0
    sub_tag = next((k + 1 for k, st in enumerate(case["steps"]) if st[0] == "sub" and st[1] == i), None)
    if sub_tag is None:
        return out
    seq = [(sub_tag, ev) for ev in case["subs"][i]["pre"]]
    for k, st in enumerate(case["steps"]):
        if k + 1 > sub_tag and st[1] == i:
            seq.append((k + 1, st[2] if st[0] == "ev" else ["disp"]))
    for tag, ev in seq:
        if ev[0] == "disp":
            break
        out.append((tag, ev[0], ev[1] if ev[0] in "NE" else None))
        if ev[0] in "EC":
            break
        nn += 1
        # a re-entrant dispose needs the subscription handle: elements delivered inside subscribe() cannot trigger it
        if budget is not None and nn >= budget and tag > sub_tag:
            break
    return out


def plan_received(res, i):
    return [(tag, a, b if a == "N" else (err_id(b) if a == "E" else None))
            for (tag, kind, a, b, who) in res["log"] if kind == "emit" and who == i]


def oracle_plan(case, res):
    name, p, n = case["name"], case["params"], len(case["subs"])
    if res["escapes"] and not res["raised"]:
        return f"exception escaped: {res['escapes'][:2]}"
    stops = [plan_stop(case, res, i) for i in range(n)]
    sub_tags = [next((k + 1 for k, st in enumerate(case["steps"]) if st[0] == "sub" and st[1] == i), None) for i in range(n)]
    log = res["log"]

    def matched(effs, what):
        """effs [(tag, idx)] must be: exactly one per stopped subscription, at its stopping input, after its
        terminal notification / re-entrant dispose point"""
        left = list(effs)
        for i, st in enumerate(stops):
            if st is None:
                continue
            hit = next((e for e in left if e[0] == st[0] and (st[1] is None or e[1] > st[1])), None)
            if hit is None:
                at = [e[0] for e in effs]
                return (f"subscription {i + 1} of {n} stopped at step {st[0]} but {what} did not run then"
                        f"{' (after its terminal notification)' if st[1] is not None else ''}: it ran at steps {at}")
            left.remove(hit)
        if left:
            return (f"{what} ran {len(effs)} times (steps {[e[0] for e in effs]}) for {sum(s is not None for s in stops)} "
                    f"stopped subscription(s) (stops at steps {[s[0] for s in stops if s]})")
        return None

    if name == "using":
        created = [(tag, who) for (tag, kind, a, b, who) in log if kind == "effect" and a == CREATED]
        if p["rf"] == "res":
            if sorted(t for t, _ in created) != sorted(t for t in sub_tags if t is not None):
                return (f"resource factory ran at steps {[t for t, _ in created]}, subscribe() was called at steps "
                        f"{sub_tags}: one resource per subscription")
            for i, st in enumerate(stops):
                rid = next(who for t, who in created if t == sub_tags[i])
                rel = [(tag, idx) for idx, (tag, kind, a, b, who) in enumerate(log)
                       if kind == "effect" and a == RELEASED and who == rid]
                if st is None:
                    if rel:
                        return f"the resource of subscription {i + 1} was disposed although that subscription is still running"
                elif len(rel) != 1:
                    return f"the resource of subscription {i + 1} of {n} was disposed {len(rel)} times (it stopped at step {st[0]})"
                elif rel[0][0] != st[0] or (st[1] is not None and rel[0][1] < st[1]):
                    return (f"the resource of subscription {i + 1} of {n} was disposed at step {rel[0][0]}, the subscription "
                            f"stopped at step {st[0]}")
        elif any(a == RELEASED for (_, kind, a, _, _) in log if kind == "effect"):
            return "a resource was disposed although none was created"
        if p["obf"] != "ok" or p["rf"] not in ("res", "none"):
            return None
    if name in FINALIZER:
        effs = [(tag, idx) for idx, (tag, kind, a, b, who) in enumerate(log) if kind == "effect" and a == FINALIZER[name]]
        v = matched(effs, f"the {name} action")
        if v:
            return v
    if not res["raised"]:
        for i in range(n):
            if plan_received(res, i) != plan_expected(case, res, i):
                return (f"{name}: subscriber {i + 1} of {n} received {plan_received(res, i)}, its own upstream delivered "
                        f"{plan_expected(case, res, i)}")
    return None


def gen_plan(rng, name, mode):
    """mode: 'sequential' | 'overlapping' (two subscriptions) | 'reentrant' (one, disposing inside on_next)"""
    def timeline(i, budget_ok):
        pre = []
        if rng.random() < 0.3:
            pre = [["N", rng.randrange(10)] for _ in range(rng.choice([0, 1, 2]))]
            r = rng.random()
            if r < 0.4:
                pre.append(["C"])
            elif r < 0.6:
                pre.append(["E", rng.choice([11, 12])])
        evs = [["ev", i, ev_json(ev)] for (_, _, ev) in k2m.gen_events(rng, 1, maxlen=4)]
        sub = {"pre": pre}
        n_el = sum(1 for e in evs if e[2][0] == "N")
        if budget_ok and n_el:
            sub["budget"] = rng.randint(1, n_el)
        if rng.random() < (0.25 if budget_ok else 0.45):
            evs.insert(rng.randrange(len(evs) + 1), ["disp", i])
        return sub, evs
    params = gen_params(rng, name)
    params["sched"] = False
    if mode == "reentrant":
        s0, t0 = timeline(0, True)
        return {"name": name, "params": params, "subs": [s0], "steps": [["sub", 0]] + t0, "deaf": rng.random() < 0.4,
                "mode": mode}
    s0, t0 = timeline(0, rng.random() < 0.2)
    s1, t1 = timeline(1, rng.random() < 0.2)
    if mode == "sequential":
        if rng.random() < 0.7 and ["disp", 0] not in t0:
            t0.append(["disp", 0])
        steps = [["sub", 0]] + t0 + [["sub", 1]] + t1
    else:
        a, b, steps = list(t0), [["sub", 1]] + t1, [["sub", 0]]
        while a or b:
            steps.append((a if (a and (not b or rng.random() < 0.5)) else b).pop(0))
    return {"name": name, "params": params, "subs": [s0, s1], "steps": steps, "deaf": rng.random() < 0.3, "mode": mode}


# ---- raising finally actions (oracle only) ----------------------------------------

def run_raising_finalizer(rng, which, sync):
    import reactivex as rx
    from reactivex import operators as ops
    from reactivex.operators import _do
    calls = []

    def action():
        calls.append(1)
        raise UserError(65)
    term = rng.choice(["C", "E", "dispose"])
    if sync:
        src = rx.empty() if term == "C" else (rx.throw(UserError(11)) if term == "E" else rx.never())
        subj = None
    else:
        from reactivex.subject import Subject
        subj = Subject()
        src = subj
    o = src.pipe(ops.finally_action(action)) if which == "finally_action" else _do.do_finally(action)(src)
    d = None
    try:
        d = o.subscribe(lambda v: None, lambda e: None, lambda: None)
    except UserError:
        pass
    for step in ([] if sync else [("N", 1)]) + [(term,)]:
        try:
            if step[0] == "N":
                subj.on_next(1)
            elif step[0] == "dispose":
                if d is not None:
                    d.dispose()
            elif subj is not None:
                subj.on_completed() if step[0] == "C" else subj.on_error(UserError(11))
        except UserError:
            pass
    try:
        if d is not None:
            d.dispose()
    except UserError:
        pass
    return {"operator": which, "source": "terminates inside subscribe()" if sync else "hot", "stop": term,
            "action_calls": len(calls)}


# ---- faulty upstream / subscriber without error handler (oracle only) ---------------------

def run_faulty_upstream(rng, which, spec=None):
    """The upstream source may raise out of its subscribe function (after delivering a prefix), hand back a
    disposable whose dispose() raises, and the subscriber may have no on_error handler (the default one raises).
    However the subscription stops -- terminal notification, disposal, or an exception escaping subscribe() --
    the finalizer (finally_action / do_finally action / using's resource disposal) must have run exactly once
    when everything is over, and never more than once."""
    import reactivex as rx
    from reactivex import operators as ops
    from reactivex.disposable import Disposable
    from reactivex.operators import _do
    if spec is None:
        spec = {"pre": rng.choice([[], [1], [1, "C"], ["E"], [0, None, "C"], [2, "E"]]),
                "sub_raises": rng.random() < 0.4, "disp_raises": rng.random() < 0.3,
                "handler": rng.random() < 0.6, "later": rng.choice([None, None, "C", "E", "N"]),
                "dispose": rng.choice([0, 1, 2]), "twice": rng.choice([None, None, "sequential", "overlapping"])}
    twice = spec.get("twice")
    n_sub = 2 if twice else 1
    calls, holder, escaped, resources = [], [], [], []

    def subscribe(o, s=None):
        holder.append(o)
        for ev in spec["pre"]:
            if ev == "C":
                o.on_completed()
            elif ev == "E":
                o.on_error(UserError(11))
            else:
                o.on_next(ev)
        if spec["sub_raises"]:
            raise UserError(66)

        def d():
            if spec["disp_raises"]:
                raise UserError(67)
        return Disposable(d)
    src = rx.create(subscribe)
    action = lambda: calls.append(1)

    def resource_factory():
        resources.append([])
        mine = resources[-1]
        return Disposable(lambda: (mine.append(1), action()))
    if which == "finally_action":
        o = src.pipe(ops.finally_action(action))
    elif which == "do_finally":
        o = _do.do_finally(action)(src)
    else:
        o = rx.using(resource_factory, lambda r: src)
    ds, ups = [None] * n_sub, [None] * n_sub

    def phase_subscribe(i):
        before = len(holder)
        try:
            if spec["handler"]:
                ds[i] = o.subscribe(lambda v: None, lambda e: None, lambda: None)
            else:
                ds[i] = o.subscribe(lambda v: None)
        except UserError as e:
            escaped.append(("subscribe", e.code if hasattr(e, "code") else repr(e)))
        ups[i] = holder[before] if len(holder) > before else None

    def phase_later(i):
        if spec["later"] and ups[i] is not None:
            try:
                if spec["later"] == "C":
                    ups[i].on_completed()
                elif spec["later"] == "E":
                    ups[i].on_error(UserError(12))
                else:
                    ups[i].on_next(5)
            except UserError as e:
                escaped.append(("later", repr(e)))

    def phase_dispose(i):
        for _ in range(spec["dispose"]):
            if ds[i] is not None:
                try:
                    ds[i].dispose()
                except UserError as e:
                    escaped.append(("dispose", repr(e)))

    def stopped(i):
        return bool("C" in spec["pre"] or "E" in spec["pre"] or spec["later"] in ("C", "E")
                    or (spec["dispose"] and ds[i] is not None) or ds[i] is None or spec["sub_raises"])
    after_first = None
    if twice == "overlapping":
        for ph in (phase_subscribe, phase_later, phase_dispose):
            for i in range(n_sub):
                ph(i)
    else:
        for i in range(n_sub):
            phase_subscribe(i)
            phase_later(i)
            phase_dispose(i)
            if i == 0 and twice:
                after_first = len(calls)
    expected = sum(1 for i in range(n_sub) if stopped(i))
    out = {"operator": which, "spec": spec, "finalizer_calls": len(calls), "expected": expected,
           "escaped": [list(map(str, e)) for e in escaped]}
    if after_first is not None and after_first != (1 if stopped(0) else 0):
        out["per_subscription"] = (f"after the first subscription's life the finalizer had run {after_first} times, expected "
                                   f"{1 if stopped(0) else 0}")
    if which == "using":
        per = [len(r) for r in resources]
        want = [1 if stopped(i) else 0 for i in range(n_sub)]
        if per != want:
            out["per_subscription"] = (f"resources created per subscribe(): {len(resources)}, disposals per resource {per}; "
                                       f"expected one resource per subscription with disposals {want}")
    return out


# ---- the check ---------------------------------------------------------------------

def run(chk):
    chk.build_and_prove()
    ncase = 70 if chk.tier == "quick" else 900
    if chk.broken:
        ncase = max(ncase, 900)
    cases, per_op, nontrivial = [], {}, set()
    hist = {"cold_prefix": 0, "with_dispose": 0, "dispose_at_terminal_instant": 0, "callback_raised": 0,
            "factory_failure": 0, "terminated_inside_subscribe": 0, "with_scheduler": 0}
    for name in NAMES:
        for _ in range(ncase):
            case = gen_case(chk.rng, name)
            res = run_case(case)
            chk.cov["evaluations"] += 1
            per_op[name] = per_op.get(name, 0) + 1
            hist["cold_prefix"] += bool(case["pre"])
            hist["with_dispose"] += case["dispose_at"] is not None
            hist["callback_raised"] += bool(res["raised"])
            hist["factory_failure"] += name == "using" and (case["params"]["rf"] not in ("res", "none") or case["params"]["obf"] != "ok")
            hist["with_scheduler"] += bool(case["params"].get("sched"))
            st = stop_point(res)
            hist["terminated_inside_subscribe"] += bool(st and st[0] == 0)
            if st and st[1] is not None and any(i[0] == "dispose" and k + 1 > st[0] and now == res["inputs"][st[0] - 1][0]
                                                for k, (now, i) in enumerate(res["inputs"]) if st[0] > 0):
                hist["dispose_at_terminal_instant"] += 1
            gi = k2m.g_inputs(res["inputs"])
            gt = k2m.g_trace(res, gz)
            v = oracle(case, res)
            if v:
                chk.violation(f"C40|{name}|{v[:60]}", {"case": case, "machine": res["coq"], "inputs (now, event)": gi,
                                                       "observed trace": gt, "what": v},
                              size=len(res["inputs"]) + len(case["pre"]))
            elif st is not None and any(kind == "effect" for (_, kind, _, _) in res["log"]):
                nontrivial.add(f"{res['coq']}|{gi}")
            cases.append((f"({res['coq']}, {gi})", gt))
    prelude = "Definition model (c : machine Z Z * list (Z * inp Z)) := run_canon (fst c) (snd c).\n"
    bad, logs = lib.correspondence("C40", "m", IMPORTS, "(machine Z Z * list (Z * inp Z)) * list (nat * obs Z)",
                                   "model", "(trace_eqb Z.eqb)", cases, prelude=prelude)
    chk.cov["traces_validated_against_impl"] += len(cases)
    chk.cov["disagreements_checked"] += len(cases)
    if bad:
        firsts = [cases[i] for i in bad if i >= 0][:3]
        d = {"n": len(bad), "first (machine+inputs, implementation trace)": firsts, "logs": logs[:1]}
        if firsts:
            d["model_says"] = lib.coq_show("C40", IMPORTS, f"model {firsts[0][0]}", prelude)
        chk.tie_broken("correspondence K2 (effects, emissions, subscribe/unsubscribe/timer instants): machine vs implementation", d)
    # one observable, several subscriptions / re-entrant dispose: effects attributed per subscription (oracle only)
    plan_hist = {}
    for name in NAMES:
        for mode in ("sequential", "overlapping", "reentrant"):
            for _ in range(max(10, ncase // 2)):
                case = gen_plan(chk.rng, name, mode)
                res = run_plan(case)
                chk.cov["evaluations"] += 1
                plan_hist[mode] = plan_hist.get(mode, 0) + 1
                plan_hist["deaf_upstream"] = plan_hist.get("deaf_upstream", 0) + bool(case["deaf"])
                plan_hist["disposed_inside_on_next"] = plan_hist.get("disposed_inside_on_next", 0) + any(res["self_disposed"])
                v = oracle_plan(case, res)
                if v:
                    what = v.split(":")[0][:70]
                    what = "".join(ch for ch in what if not ch.isdigit())
                    chk.violation(f"C40|{name}|plan {mode}|{what}", {"plan": case, "what": v}, size=len(case["steps"]) +
                                  sum(len(x["pre"]) for x in case["subs"]))
                elif any(plan_stop(case, res, i) for i in range(len(case["subs"]))) and \
                        any(kind == "effect" for (_, kind, _, _, _) in res["log"]):
                    nontrivial.add("plan|" + json.dumps(case, sort_keys=True))
    # raising finally actions: exactly one invocation
    nr = 0
    for which in ("finally_action", "do_finally"):
        for sync in (False, True):
            for _ in range(6 if chk.tier == "quick" else 40):
                r = run_raising_finalizer(chk.rng, which, sync)
                chk.cov["evaluations"] += 1
                nr += 1
                if r["action_calls"] != 1:
                    chk.violation(f"C40|{which}|raising action invoked {r['action_calls']} times",
                                  {"raising_finalizer": r, "what": f"a raising {which} action was invoked "
                                   f"{r['action_calls']} times for one subscription"}, size=1)
    nf, fkinds = 0, {}
    for which in ("finally_action", "do_finally", "using"):
        for _ in range(120 if chk.tier == "quick" else 2500):
            r = run_faulty_upstream(chk.rng, which)
            chk.cov["evaluations"] += 1
            nf += 1
            sp = r["spec"]
            kind = ("subscribe-raises" if sp["sub_raises"] else "") + ("|dispose-raises" if sp["disp_raises"] else "") \
                + ("" if sp["handler"] else "|no-error-handler")
            fkinds[kind or "plain"] = fkinds.get(kind or "plain", 0) + 1
            fkinds["twice:" + str(sp.get("twice"))] = fkinds.get("twice:" + str(sp.get("twice")), 0) + 1
            if r["finalizer_calls"] != r["expected"] or r.get("per_subscription"):
                chk.violation(f"C40|{which}|faulty upstream|{kind}|{sp.get('twice') or 'once'}|finalizer ran "
                              f"{r['finalizer_calls']}x of {r['expected']}",
                              {"faulty_upstream": r, "what": f"{which}: the finalizer ran {r['finalizer_calls']} times, "
                               f"expected {r['expected']} (upstream may raise from subscribe / dispose; subscriber "
                               f"may lack an error handler; subscriptions of the one observable: {2 if sp.get('twice') else 1}) "
                               + r.get("per_subscription", "")},
                              size=len(sp["pre"]) + sp["dispose"] + (1 if sp["later"] else 0))
            elif r["expected"] == 1 and r["escaped"]:
                nontrivial.add("faulty|" + json.dumps(r, sort_keys=True, default=str))
    # re-entrant finalizers / callbacks (oracle only): the spy itself terminates / feeds / disposes / re-subscribes
    reent_hist, reent_nontrivial = c40_reent.run_family(chk)
    nontrivial |= {"reentrant|" + x for x in reent_nontrivial}
    chk.cov["distinct_nontrivial"] = len(nontrivial)
    chk.cov["rule"] = ("per operator (using, finally_action, do_finally, do_on_dispose, do_action, do, do_after_next, "
                       "do_on_subscribe, do_on_terminate, do_after_terminate): seeded parameters (resource factory: "
                       "resource/None/raises; observable factory: ok/raises; with/without scheduler; callback tables "
                       "raising on chosen values) x cold prefix delivered inside subscribe() (30%) x seeded hot "
                       "notifications (0-4 elements, completion/error/none, 15% non-conforming tails) x dispose "
                       "instant (40%, incl. the terminal instant and instant 0); non-trivial = distinct (machine, "
                       "delivered inputs) in which the subscription stopped, a side effect was observed and the "
                       "oracle held; plus raising finally actions (oracle only); plus faulty upstreams (oracle only): "
                       "prefix delivered inside subscribe() x subscribe function raising x returned disposable "
                       "raising x subscriber with/without an error handler x a later notification x 0-2 disposals "
                       "-- finalizer count must be exactly 1 once the subscription stopped; half of them with the whole "
                       "procedure run TWICE on the one observable (sequentially / overlapping; using: disposals counted "
                       "per resource).  Per-subscription plans (oracle only), per operator x {sequential, overlapping, "
                       "reentrant}: one built observable, 1-2 subscriptions each with its own upstream timeline "
                       "(cold prefix, 0-4 elements, terminal or none, non-conforming tails), a dispose step (25-45%), "
                       "a dispose from inside the k-th on_next (reentrant: always; else 20%), upstream deaf to "
                       "dispose (30-40%); effects attributed per subscription (numbered resources; finally actions "
                       "matched to each subscription's stopping step).  Re-entrant family (oracle only, "
                       "harness/c40_reent.py), per operator (using, finally_action, do_finally, do_on_dispose, "
                       "do_on_terminate, do_after_terminate, do_action with the hook in its on_next / on_error / "
                       "on_completed callback) x re-entrance shape {terminate, feed, dispose, resubscribe} x source "
                       "{Subject, Subject under take_until, raw unguarded source with cold prefix / deaf to dispose}: "
                       "the k-th invocation of the finalizer / callback executes the k-th op list of the scenario "
                       "(1-2 lists of 1-2 ops: push N/C/E into the source, push take_until's stop, dispose "
                       "subscription i, subscribe again to the same observable); top-level steps: subscribe, 0-3 "
                       "elements, an end (dispose / C / E / stop / none), 0-3 further steps (pushes, second dispose, "
                       "late terminal, second subscription); after every top-level step finalizer runs == stopped "
                       "subscriptions, k-th run after the k-th stop, one resource per subscribe() with dispose() "
                       "called exactly once, terminate callbacks between delivered and pushed terminals, do_action "
                       "observed >= delivered (single subscription: exactly once, undelivered only if the callback "
                       "stopped the subscription), quiet steps are the identity, nothing escapes (exception / "
                       "recursion / hang = violation); failing scenarios are shrunk greedily; non-trivial = a hook "
                       "op ran, a subscription stopped and the oracle held")
    chk.cov["input_distribution"] = {"per_operator": per_op, "raising_finalizer_runs": nr, "reentrant": reent_hist,
                                     "faulty_upstream_runs": nf, "faulty_upstream_kinds": fkinds,
                                     "per_subscription_plans": plan_hist, **hist}
    chk.add_samples([{"case": c[0], "trace": c[1]} for c in cases[:: max(1, len(cases) // 5)]][:5])
    return chk.finish(
        trusted_extra=["re-entrant family driver harness/c40_reent.py (hook programs, raw source, stop/finalizer "
                       "bookkeeping, greedy shrinker)",
                       "multi-source K2 driver harness/k2m.py (boundary log, proxy scheduler, canonical per-instant "
                       "ordering) and the cold-prefix source / spy callbacks of harness/props/C40.py",
                       "runner assumption (Ops/Multi.v): the disposable an operator returns holds every subscription "
                       "and timer it opened -- checked here by comparing unsubscribe/cancel instants"],
        assumptions=["within one input instant the trace is compared as: emissions in order, then the SET of "
                     "subscribe/unsubscribe/timer/effect events; that the finalizer runs AFTER the terminal "
                     "notification inside that instant is checked by the oracle on the raw log only",
                     "raising finally actions escape into the emitter and are outside the machine model: covered by "
                     "the oracle only (exactly one invocation)",
                     "per-subscription plans: a finally action is one shared callable, so its runs are attributed to "
                     "subscriptions by the step at which they happen (each step concerns exactly one subscription); "
                     "every operator here subscribes upstream at most once per subscribe(), synchronously",
                     "re-entrant family: finalizer runs are counted against stopped subscriptions after every "
                     "top-level step (a shared callable cannot be attributed inside a step; using's resources are "
                     "numbered and counted individually); a subscription counts as stopped from its subscriber's "
                     "terminal notification or the first dispose() call on its handle; the order of deliveries "
                     "inside a step in which a hook ran is not judged"])


def replay(chk, path):
    d = json.load(open(path))
    lib.import_repo()
    if "reentrant" in d:
        bad, out = c40_reent.replay(d)
        print(json.dumps(out, indent=1))
        if bad:
            print(f"VIOLATION property=C40 replay={path}")
            return 1
        return 0
    if "raising_finalizer" in d:
        print(json.dumps(d, indent=1))
        return 1
    if "faulty_upstream" in d:
        f = d["faulty_upstream"]
        r = run_faulty_upstream(None, f["operator"], f["spec"])
        print(json.dumps(r, indent=1))
        if r["finalizer_calls"] != r["expected"] or r.get("per_subscription"):
            print(f"VIOLATION property=C40 replay={path}")
            return 1
        return 0
    if "plan" in d:
        case = d["plan"]
        res = run_plan(case)
        v = oracle_plan(case, res)
        print(json.dumps({"plan": case, "log (step, kind, a, b, subscriber/resource)": [list(map(str, x)) for x in res["log"]],
                          "oracle": v or "holds"}, indent=1))
        if v:
            print(f"VIOLATION property=C40 replay={path}")
            return 1
        return 0
    case = d["case"]
    res = run_case(case)
    v = oracle(case, res)
    print(json.dumps({"case": case, "machine": res["coq"], "observed trace": k2m.g_trace(res, gz),
                      "oracle": v or "holds"}, indent=1))
    if v:
        print(f"VIOLATION property=C40 replay={path}")
        return 1
    return 0
