"""C40 -- resources and finally-actions are released exactly once.

Machines: Ops/Using.v on the runner Ops/Multi.v.  Tie: K2 multi-source port-level
replay (harness/k2m.py): the operator is mounted on a hand-driven source that may
ALSO deliver a prefix of notifications inside its own subscribe() (cold prefix),
with spy resources / spy callbacks that log through env.effect(n); seeded input
interleavings incl. non-conforming tails, a dispose instant (also the instant of
the terminal notification), raising resource factory / observable factory / inner
source errors / raising do-callbacks.  Oracle (never consults the model): effect
counts per subscription read off the boundary log.

A second, oracle-only family covers RAISING finally actions (which escape into the
emitter and therefore have no machine counterpart): the action must still have
been invoked exactly once."""
import json

import k2
import k2m
import lib
from k2 import UserError, err_id
from lib import gz

IMPORTS = "Base.Prelude Base.CaseLib Ops.Machine Ops.Multi Ops.MultiCase Ops.Using"
CREATED, RELEASED, FINALLY, SUBSCRIBE, ON_DISPOSE, TERMINATE, AFTER_TERMINATE, DO_DONE = 1, 2, 3, 4, 5, 6, 7, 8
NAMES = ["using", "finally_action", "do_finally", "do_on_dispose", "do_action", "do", "do_after_next",
         "do_on_subscribe", "do_on_terminate", "do_after_terminate"]
FINALIZER = {"finally_action": FINALLY, "do_finally": FINALLY, "do_on_dispose": ON_DISPOSE}


class ColdSource:
    """source k: logs subscribe/unsubscribe like k2m.MSource, and delivers `pre`
    synchronously inside subscribe() (Observable.create style)."""

    def __init__(self, env, pre):
        import reactivex
        from reactivex.disposable import Disposable
        self.env, self.k = env, len(env.sources)
        env.sources.append(self)
        self.observers = []
        k = self.k

        def subscribe(observer, scheduler=None):
            rec = [observer, True]
            self.observers.append(rec)
            env.log.append((env.tag, "sub", k, None))
            for ev in pre:
                deliver(observer, ev)

            def dispose():
                if rec[1]:
                    rec[1] = False
                    env.log.append((env.tag, "unsub", k, None))
            return Disposable(dispose)
        self.observable = reactivex.Observable(subscribe)

    def push(self, ev):
        for rec in list(self.observers):
            if rec[1]:
                deliver(rec[0], ev)


def deliver(o, ev):
    if ev[0] == "N":
        o.on_next(ev[1])
    elif ev[0] == "E":
        o.on_error(ev[1])
    else:
        o.on_completed()


# ---- instances (parameters are plain JSON so that a replay file can rebuild them) ----

def g_tbl(t):
    """{value: code} -> Gallina callback raising `code` on `value`, Ok tt elsewhere"""
    es = "; ".join(f"({gz(int(v))}, Raise {gz(c)})" for v, c in sorted((int(v), c) for v, c in t.items()))
    return f"(tbl [{es}] (Ok tt))"


def g_unit(r):
    return "(Ok tt)" if r == "ok" else f"(Raise {gz(r)})"


def gen_params(rng, name):
    def tbl(keys, p=0.35):
        if rng.random() < p:
            return {str(rng.choice(keys)): rng.choice([61, 62])}
        return {}
    vals, errs = list(range(10)), [11, 12, 13]
    unit = lambda p=0.3: (rng.choice([63, 64]) if rng.random() < p else "ok")
    if name == "using":
        return {"rf": rng.choice(["res", "res", "res", "none", 41]), "obf": rng.choice(["ok", "ok", "ok", 42]),
                "sched": rng.random() < 0.5}
    if name in ("do_action", "do"):
        opt = (lambda v: v) if name == "do" else (lambda v: v if rng.random() < 0.75 else None)
        return {"fn": opt(tbl(vals)), "fe": opt(tbl(errs)), "fd": opt(unit())}
    if name == "do_after_next":
        return {"f": tbl(vals, 0.5)}
    if name in ("do_on_subscribe", "do_on_terminate", "do_after_terminate"):
        return {"f": unit(0.4)}
    return {}


def make_instance(name, p, raised):
    """-> (build(env, statics, pre) -> observable, coq machine text)"""
    import reactivex as rx
    from reactivex import operators as ops
    from reactivex.disposable import Disposable
    from reactivex.observer import Observer
    from reactivex.operators import _do

    def spy1(env, code_of, table):
        def cb(x):
            c = code_of(x)
            env.effect(c[0])
            r = table.get(str(c[1]))
            if r is not None:
                raised.append((env.tag, r))
                raise UserError(r)
        return cb

    def spy0(env, code, r):
        def cb():
            env.effect(code)
            if r != "ok":
                raised.append((env.tag, r))
                raise UserError(r)
        return cb

    if name == "using":
        rf, obf, sched = p["rf"], p["obf"], p["sched"]

        def build(env, pre):
            def resource_factory():
                if rf == "none":
                    return None
                if rf != "res":
                    raise UserError(rf)
                env.effect(CREATED)
                return Disposable(lambda: env.effect(RELEASED))

            def observable_factory(resource):
                if obf != "ok":
                    raise UserError(obf)
                return ColdSource(env, pre).observable
            return rx.using(resource_factory, observable_factory)
        g_rf = {"res": "(Ok true)", "none": "(Ok false)"}.get(rf, f"(Raise {rf})")
        return build, f"x_using {g_rf} {g_unit(obf)} {lib.gbool(sched)}"

    def on_source(wrap, coq):
        return (lambda env, pre: wrap(env, ColdSource(env, pre).observable)), coq

    if name == "finally_action":
        return on_source(lambda env, s: s.pipe(ops.finally_action(spy0(env, FINALLY, "ok"))), "x_finally_action")
    if name == "do_finally":
        return on_source(lambda env, s: _do.do_finally(spy0(env, FINALLY, "ok"))(s), "x_do_finally")
    if name == "do_on_dispose":
        return on_source(lambda env, s: _do.do_on_dispose(s, spy0(env, ON_DISPOSE, "ok")), "x_do_on_dispose")
    if name in ("do_action", "do"):
        fn, fe, fd = p["fn"], p["fe"], p["fd"]

        def wrap(env, s):
            a = spy1(env, lambda x: (100 + x, x), fn) if fn is not None else None
            b = spy1(env, lambda e: (200 + err_id(e), err_id(e)), fe) if fe is not None else None
            c = spy0(env, DO_DONE, fd) if fd is not None else None
            if name == "do":
                return s.pipe(ops.do(Observer(a, b, c)))
            return s.pipe(ops.do_action(a, b, c))
        o1 = lambda t: "None" if t is None else f"(Some {g_tbl(t)})"
        o0 = lambda r: "None" if r is None else f"(Some {g_unit(r)})"
        return on_source(wrap, f"x_do_action {o1(fn)} {o1(fe)} {o0(fd)}")
    if name == "do_after_next":
        return on_source(lambda env, s: _do.do_after_next(s, spy1(env, lambda x: (300 + x, x), p["f"])),
                         f"x_do_after_next {g_tbl(p['f'])}")
    code = {"do_on_subscribe": SUBSCRIBE, "do_on_terminate": TERMINATE, "do_after_terminate": AFTER_TERMINATE}[name]
    fnc = getattr(_do, name)
    return on_source(lambda env, s: fnc(s, spy0(env, code, p["f"])), f"x_{name} {g_unit(p['f'])}")


# ---- one case ------------------------------------------------------------------

def ev_json(ev):
    return [ev[0], ev[1].code] if ev[0] == "E" else list(ev)


def ev_py(j):
    return ("E", UserError(j[1])) if j[0] == "E" else tuple(j)


def g_pre(pre):
    def one(ev):
        return f"Next {gz(ev[1])}" if ev[0] == "N" else (f"Err {gz(err_id(ev[1]))}" if ev[0] == "E" else "Done")
    return "[" + "; ".join(one(e) for e in pre) + "]"


def run_case(case):
    """case: JSON dict(name, params, pre, events [(t, ev)], dispose_at) -> result dict"""
    raised = []
    build, coq = make_instance(case["name"], case["params"], raised)
    pre = [ev_py(j) for j in case["pre"]]
    evs = [(t, 0, ev_py(j)) for t, j in case["events"]]
    res = k2m.run_multi(lambda env, ss: build(env, pre), 0, evs,
                        use_scheduler=bool(case["params"].get("sched")), dispose_at=case["dispose_at"])
    if res["build_error"] is not None:
        raise RuntimeError(f"{case['name']}: build error {res['build_error']!r}")
    res["raised"] = raised
    res["pre"] = pre
    res["coq"] = f"with_pre ({coq}) {g_pre(pre)}" if pre else coq
    return res


def gen_case(rng, name):
    params = gen_params(rng, name)
    pre = []
    if rng.random() < 0.3:
        pre = [["N", rng.randrange(10)] for _ in range(rng.choice([0, 1, 2]))]
        r = rng.random()
        if r < 0.45:
            pre.append(["C"])
        elif r < 0.7:
            pre.append(["E", rng.choice([11, 12])])
        if rng.random() < 0.2:
            pre.append(rng.choice([["N", 9], ["C"]]))
    evs = k2m.gen_events(rng, 1, maxlen=4)
    events = [[t, ev_json(ev)] for (t, _, ev) in evs]
    disp = None
    if rng.random() < 0.4:
        times = [t for t, _ in events] or [0]
        disp = rng.choice(times + [0, max(times) + 10])
    return {"name": name, "params": params, "pre": pre, "events": events, "dispose_at": disp}


# ---- the oracle: a direct reading of the property on the boundary log ------------

def stop_point(res):
    """(tag, index in log or None) of the first terminal notification received by the subscriber, or of
    the dispose call, whichever comes first"""
    term = next(((tag, i) for i, (tag, kind, a, b) in enumerate(res["log"]) if kind == "emit" and a in "EC"), None)
    disp = next((k + 1 for k, (now, i) in enumerate(res["inputs"]) if i[0] == "dispose"), None)
    if term is not None and (disp is None or term[0] <= disp):
        return term
    if disp is not None:
        return (disp, None)
    return None


def effects(res, n):
    return [(tag, i) for i, (tag, kind, a, b) in enumerate(res["log"]) if kind == "effect" and a == n]


def once_after_stop(res, n, what):
    st = stop_point(res)
    eff = effects(res, n)
    if st is None:
        return f"{what} ran {len(eff)} time(s) although the subscription neither terminated nor was disposed" if eff else None
    if len(eff) != 1:
        return f"{what} ran {len(eff)} times (subscription stopped at input {st[0]})"
    if eff[0][0] != st[0]:
        return f"{what} ran at input {eff[0][0]}, the subscription stopped at input {st[0]}"
    if st[1] is not None and eff[0][1] < st[1]:
        return f"{what} ran before the terminal notification was delivered"
    return None


def expected_identity(res):
    """what the subscriber must receive when nothing is changed: the source's notifications (prefix inside
    subscribe, then the delivered ones) up to the first terminal one or the dispose"""
    out = []
    seq = [(0, ev) for ev in res["pre"]] + [(k + 1, i[2] if i[0] == "src" else i) for k, (now, i) in enumerate(res["inputs"])]
    for tag, ev in seq:
        if ev[0] == "dispose":
            break
        if ev[0] == "tick":
            continue
        out.append((tag, ev[0], ev[1] if ev[0] == "N" else (err_id(ev[1]) if ev[0] == "E" else None)))
        if ev[0] in "EC":
            break
    return out


def received(res):
    return [(tag, a, b if a == "N" else (err_id(b) if a == "E" else None))
            for (tag, kind, a, b) in res["log"] if kind == "emit"]


def oracle(case, res):
    name, p = case["name"], case["params"]
    if name == "using":
        created = effects(res, CREATED)
        if p["rf"] == "res":
            if len(created) != 1:
                return f"resource factory ran {len(created)} times"
            v = once_after_stop(res, RELEASED, "resource.dispose()")
            if v:
                return v
        elif effects(res, RELEASED):
            return "a resource was disposed although none was created"
        if p["rf"] in ("res", "none") and p["obf"] == "ok" and received(res) != expected_identity(res):
            return f"using changed the sequence: {received(res)} vs source {expected_identity(res)}"
        return None
    if name in FINALIZER:
        v = once_after_stop(res, FINALIZER[name], f"the {name} action")
        if v:
            return v
    if not res["raised"] and received(res) != expected_identity(res):
        return f"{name} changed the sequence although no callback raised: {received(res)} vs source {expected_identity(res)}"
    if name in ("do_action", "do") and not res["raised"]:
        # every notification passing through is observed by the corresponding callback, in order
        want = []
        for (tag, a, b) in received(res):
            if a == "N" and p["fn"] is not None:
                want.append((tag, 100 + b))
            elif a == "E" and p["fe"] is not None:
                want.append((tag, 200 + b))
            elif a == "C" and p["fd"] is not None:
                want.append((tag, DO_DONE))
        got = [(tag, a) for (tag, kind, a, b) in res["log"] if kind == "effect"]
        if want != got:
            return f"do callbacks observed {got}, notifications delivered {want}"
    return None


# ---- raising finally actions (oracle only) ----------------------------------------

def run_raising_finalizer(rng, which, sync):
    import reactivex as rx
    from reactivex import operators as ops
    from reactivex.operators import _do
    calls = []

    def action():
        calls.append(1)
        raise UserError(65)
    term = rng.choice(["C", "E", "dispose"])
    if sync:
        src = rx.empty() if term == "C" else (rx.throw(UserError(11)) if term == "E" else rx.never())
        subj = None
    else:
        from reactivex.subject import Subject
        subj = Subject()
        src = subj
    o = src.pipe(ops.finally_action(action)) if which == "finally_action" else _do.do_finally(action)(src)
    d = None
    try:
        d = o.subscribe(lambda v: None, lambda e: None, lambda: None)
    except UserError:
        pass
    for step in ([] if sync else [("N", 1)]) + [(term,)]:
        try:
            if step[0] == "N":
                subj.on_next(1)
            elif step[0] == "dispose":
                if d is not None:
                    d.dispose()
            elif subj is not None:
                subj.on_completed() if step[0] == "C" else subj.on_error(UserError(11))
        except UserError:
            pass
    try:
        if d is not None:
            d.dispose()
    except UserError:
        pass
    return {"operator": which, "source": "terminates inside subscribe()" if sync else "hot", "stop": term,
            "action_calls": len(calls)}


# ---- faulty upstream / subscriber without error handler (oracle only) ---------------------

def run_faulty_upstream(rng, which, spec=None):
    """The upstream source may raise out of its subscribe function (after delivering a prefix), hand back a
    disposable whose dispose() raises, and the subscriber may have no on_error handler (the default one raises).
    However the subscription stops -- terminal notification, disposal, or an exception escaping subscribe() --
    the finalizer (finally_action / do_finally action / using's resource disposal) must have run exactly once
    when everything is over, and never more than once."""
    import reactivex as rx
    from reactivex import operators as ops
    from reactivex.disposable import Disposable
    from reactivex.operators import _do
    if spec is None:
        spec = {"pre": rng.choice([[], [1], [1, "C"], ["E"], [0, None, "C"], [2, "E"]]),
                "sub_raises": rng.random() < 0.4, "disp_raises": rng.random() < 0.3,
                "handler": rng.random() < 0.6, "later": rng.choice([None, None, "C", "E", "N"]),
                "dispose": rng.choice([0, 1, 2])}
    calls, holder, escaped = [], [], []

    def subscribe(o, s=None):
        holder.append(o)
        for ev in spec["pre"]:
            if ev == "C":
                o.on_completed()
            elif ev == "E":
                o.on_error(UserError(11))
            else:
                o.on_next(ev)
        if spec["sub_raises"]:
            raise UserError(66)

        def d():
            if spec["disp_raises"]:
                raise UserError(67)
        return Disposable(d)
    src = rx.create(subscribe)
    action = lambda: calls.append(1)
    if which == "finally_action":
        o = src.pipe(ops.finally_action(action))
    elif which == "do_finally":
        o = _do.do_finally(action)(src)
    else:
        o = rx.using(lambda: Disposable(action), lambda r: src)
    d = None
    try:
        if spec["handler"]:
            d = o.subscribe(lambda v: None, lambda e: None, lambda: None)
        else:
            d = o.subscribe(lambda v: None)
    except UserError as e:
        escaped.append(("subscribe", e.code if hasattr(e, "code") else repr(e)))
    if spec["later"] and holder:
        try:
            if spec["later"] == "C":
                holder[0].on_completed()
            elif spec["later"] == "E":
                holder[0].on_error(UserError(12))
            else:
                holder[0].on_next(5)
        except UserError as e:
            escaped.append(("later", repr(e)))
    for _ in range(spec["dispose"]):
        if d is not None:
            try:
                d.dispose()
            except UserError as e:
                escaped.append(("dispose", repr(e)))
    stopped = bool("C" in spec["pre"] or "E" in spec["pre"] or spec["later"] in ("C", "E")
                   or (spec["dispose"] and d is not None) or d is None or spec["sub_raises"])
    return {"operator": which, "spec": spec, "finalizer_calls": len(calls), "expected": 1 if stopped else 0,
            "escaped": [list(map(str, e)) for e in escaped]}


# ---- the check ---------------------------------------------------------------------

def run(chk):
    chk.build_and_prove()
    ncase = 70 if chk.tier == "quick" else 900
    if chk.broken:
        ncase = max(ncase, 900)
    cases, per_op, nontrivial = [], {}, set()
    hist = {"cold_prefix": 0, "with_dispose": 0, "dispose_at_terminal_instant": 0, "callback_raised": 0,
            "factory_failure": 0, "terminated_inside_subscribe": 0, "with_scheduler": 0}
    for name in NAMES:
        for _ in range(ncase):
            case = gen_case(chk.rng, name)
            res = run_case(case)
            chk.cov["evaluations"] += 1
            per_op[name] = per_op.get(name, 0) + 1
            hist["cold_prefix"] += bool(case["pre"])
            hist["with_dispose"] += case["dispose_at"] is not None
            hist["callback_raised"] += bool(res["raised"])
            hist["factory_failure"] += name == "using" and (case["params"]["rf"] not in ("res", "none") or case["params"]["obf"] != "ok")
            hist["with_scheduler"] += bool(case["params"].get("sched"))
            st = stop_point(res)
            hist["terminated_inside_subscribe"] += bool(st and st[0] == 0)
            if st and st[1] is not None and any(i[0] == "dispose" and k + 1 > st[0] and now == res["inputs"][st[0] - 1][0]
                                                for k, (now, i) in enumerate(res["inputs"]) if st[0] > 0):
                hist["dispose_at_terminal_instant"] += 1
            gi = k2m.g_inputs(res["inputs"])
            gt = k2m.g_trace(res, gz)
            v = oracle(case, res)
            if v:
                chk.violation(f"C40|{name}|{v[:60]}", {"case": case, "machine": res["coq"], "inputs (now, event)": gi,
                                                       "observed trace": gt, "what": v},
                              size=len(res["inputs"]) + len(case["pre"]))
            elif st is not None and any(kind == "effect" for (_, kind, _, _) in res["log"]):
                nontrivial.add(f"{res['coq']}|{gi}")
            cases.append((f"({res['coq']}, {gi})", gt))
    prelude = "Definition model (c : machine Z Z * list (Z * inp Z)) := run_canon (fst c) (snd c).\n"
    bad, logs = lib.correspondence("C40", "m", IMPORTS, "(machine Z Z * list (Z * inp Z)) * list (nat * obs Z)",
                                   "model", "(trace_eqb Z.eqb)", cases, prelude=prelude)
    chk.cov["traces_validated_against_impl"] += len(cases)
    chk.cov["disagreements_checked"] += len(cases)
    if bad:
        firsts = [cases[i] for i in bad if i >= 0][:3]
        d = {"n": len(bad), "first (machine+inputs, implementation trace)": firsts, "logs": logs[:1]}
        if firsts:
            d["model_says"] = lib.coq_show("C40", IMPORTS, f"model {firsts[0][0]}", prelude)
        chk.tie_broken("correspondence K2 (effects, emissions, subscribe/unsubscribe/timer instants): machine vs implementation", d)
    # raising finally actions: exactly one invocation
    nr = 0
    for which in ("finally_action", "do_finally"):
        for sync in (False, True):
            for _ in range(6 if chk.tier == "quick" else 40):
                r = run_raising_finalizer(chk.rng, which, sync)
                chk.cov["evaluations"] += 1
                nr += 1
                if r["action_calls"] != 1:
                    chk.violation(f"C40|{which}|raising action invoked {r['action_calls']} times",
                                  {"raising_finalizer": r, "what": f"a raising {which} action was invoked "
                                   f"{r['action_calls']} times for one subscription"}, size=1)
    nf, fkinds = 0, {}
    for which in ("finally_action", "do_finally", "using"):
        for _ in range(120 if chk.tier == "quick" else 2500):
            r = run_faulty_upstream(chk.rng, which)
            chk.cov["evaluations"] += 1
            nf += 1
            sp = r["spec"]
            kind = ("subscribe-raises" if sp["sub_raises"] else "") + ("|dispose-raises" if sp["disp_raises"] else "") \
                + ("" if sp["handler"] else "|no-error-handler")
            fkinds[kind or "plain"] = fkinds.get(kind or "plain", 0) + 1
            if r["finalizer_calls"] != r["expected"]:
                chk.violation(f"C40|{which}|faulty upstream|{kind}|finalizer ran {r['finalizer_calls']}x",
                              {"faulty_upstream": r, "what": f"{which}: the finalizer ran {r['finalizer_calls']} times, "
                               f"expected {r['expected']} (upstream may raise from subscribe / dispose; subscriber "
                               "may lack an error handler)"},
                              size=len(sp["pre"]) + sp["dispose"] + (1 if sp["later"] else 0))
            elif r["expected"] == 1 and r["escaped"]:
                nontrivial.add("faulty|" + json.dumps(r, sort_keys=True, default=str))
    chk.cov["distinct_nontrivial"] = len(nontrivial)
    chk.cov["rule"] = ("per operator (using, finally_action, do_finally, do_on_dispose, do_action, do, do_after_next, "
                       "do_on_subscribe, do_on_terminate, do_after_terminate): seeded parameters (resource factory: "
                       "resource/None/raises; observable factory: ok/raises; with/without scheduler; callback tables "
                       "raising on chosen values) x cold prefix delivered inside subscribe() (30%) x seeded hot "
                       "notifications (0-4 elements, completion/error/none, 15% non-conforming tails) x dispose "
                       "instant (40%, incl. the terminal instant and instant 0); non-trivial = distinct (machine, "
                       "delivered inputs) in which the subscription stopped, a side effect was observed and the "
                       "oracle held; plus raising finally actions (oracle only); plus faulty upstreams (oracle only): "
                       "prefix delivered inside subscribe() x subscribe function raising x returned disposable "
                       "raising x subscriber with/without an error handler x a later notification x 0-2 disposals "
                       "-- finalizer count must be exactly 1 once the subscription stopped")
    chk.cov["input_distribution"] = {"per_operator": per_op, "raising_finalizer_runs": nr,
                                     "faulty_upstream_runs": nf, "faulty_upstream_kinds": fkinds, **hist}
    chk.add_samples([{"case": c[0], "trace": c[1]} for c in cases[:: max(1, len(cases) // 5)]][:5])
    return chk.finish(
        trusted_extra=["multi-source K2 driver harness/k2m.py (boundary log, proxy scheduler, canonical per-instant "
                       "ordering) and the cold-prefix source / spy callbacks of harness/props/C40.py",
                       "runner assumption (Ops/Multi.v): the disposable an operator returns holds every subscription "
                       "and timer it opened -- checked here by comparing unsubscribe/cancel instants"],
        assumptions=["within one input instant the trace is compared as: emissions in order, then the SET of "
                     "subscribe/unsubscribe/timer/effect events; that the finalizer runs AFTER the terminal "
                     "notification inside that instant is checked by the oracle on the raw log only",
                     "raising finally actions escape into the emitter and are outside the machine model: covered by "
                     "the oracle only (exactly one invocation)"])


def replay(chk, path):
    d = json.load(open(path))
    lib.import_repo()
    if "raising_finalizer" in d:
        print(json.dumps(d, indent=1))
        return 1
    if "faulty_upstream" in d:
        f = d["faulty_upstream"]
        r = run_faulty_upstream(None, f["operator"], f["spec"])
        print(json.dumps(r, indent=1))
        if r["finalizer_calls"] != r["expected"]:
            print(f"VIOLATION property=C40 replay={path}")
            return 1
        return 0
    case = d["case"]
    res = run_case(case)
    v = oracle(case, res)
    print(json.dumps({"case": case, "machine": res["coq"], "observed trace": k2m.g_trace(res, gz),
                      "oracle": v or "holds"}, indent=1))
    if v:
        print(f"VIOLATION property=C40 replay={path}")
        return 1
    return 0
