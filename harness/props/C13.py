"""C13 -- see DESIGN.md section 7/C13.  Machines: Ops/Combinators.v on the runner
Ops/Multi.v; tie: K2 multi-source port-level replay (harness/k2m.py); oracle:
harness/comb_oracle.py (direct reading of the property statement)."""
import comb_oracle
import comb_table
import lib

NAMES = {"C10": ["concat", "catch", "catch_handler", "on_error_resume_next", "repeat", "retry", "while_do", "do_while"],
         "C11": ["merge", "flat_map", "flat_map_indexed", "merge_all", "concat_map", "merge_mc"],
         "C12": ["switch_map", "switch_map_indexed", "flat_map_latest", "switch_latest"],
         "C13": ["zip", "combine_latest", "with_latest_from", "fork_join", "amb"]}["C13"]
ORACLE = getattr(comb_oracle, "oracle_" + "C13".lower())


def run(chk):
    chk.build_and_prove()
    comb_table.run_ops(chk, "C13", NAMES, ORACLE)
    chk.cov["rule"] = ("per operator: seeded instances (source counts 1-3, callback tables indexed by invocation, "
                       "20% raising) x seeded interleavings of hand-driven hot sources (0-4 elements each, "
                       "completion/error/none, 15% non-conforming tails, 15% with a dispose instant, same-instant "
                       "events); non-trivial = distinct (machine, delivered input sequence) with >= 2 emissions and "
                       "the oracle satisfied")
    chk.cov["operators_modelled"] = NAMES
    return chk.finish(trusted_extra=["multi-source K2 driver harness/k2m.py (hot sources, boundary log, canonical "
                                     "per-instant ordering of subscribe/unsubscribe events)",
                                     "runner assumption (Ops/Multi.v): the disposable an operator returns holds every "
                                     "subscription it opened -- checked here by comparing unsubscribe instants"])


def replay(chk, path):
    import json
    rep = json.load(open(path))
    if rep.get("family") == "sync_scenarios":       # re-run the case on the current tree
        import c13_sync
        case, bad = c13_sync.replay_case(rep)
        if bad:
            print(json.dumps(dict(case, mismatch=bad[0], what=bad[1], got=bad[2], expected=bad[3]), indent=1,
                             default=repr))
            print(f"VIOLATION property=C13 replay={path}")
            return 1
        print(f"[C13] replay {path}: implementation agrees with the property text on this case")
        return 0
    print(open(path).read())
    return 1


_run_machines = run


def run(chk):
    """the machine-based check above, then the oracle-only family of harness/c13_sync.py (cold / synchronous /
    future sources and re-entrant feedback)"""
    import c13_sync
    chk_finish = chk.finish
    holder = {}

    def deferred_finish(*a, **kw):
        holder["args"] = (a, kw)
        return 0
    chk.finish = deferred_finish
    _run_machines(chk)
    chk.finish = chk_finish
    nt, hist, fact_hist = c13_sync.scenarios(chk)
    chk.cov["distinct_nontrivial"] += len(nt)
    chk.cov["input_distribution"]["sync_scenarios"] = hist
    chk.cov["sync_scenarios"] = {"cases": sum(hist.values()), "distinct_nontrivial": len(nt),
                                 "cases_with": dict(sorted(fact_hist.items()))}
    chk.cov["rule"] += ("; plus oracle-only scenarios (sync_scenarios, harness/c13_sync.py): rx.<op>(*sources) and "
                        "source.pipe(ops.<op>(*others)) over 1-4 sources that are logged cold observables (a prefix incl. "
                        "falsy values delivered synchronously inside subscribe(), then completed / error / open), hot "
                        "Subjects and finished concurrent.futures.Future objects (zip, ops.amb), seeded scripts of "
                        "push / complete / error / dispose, and a feedback map (the subscriber pushes into / completes / "
                        "errors a source or disposes from inside on_next of its i-th element); the notifications (with "
                        "the script step) are compared with the five pairing rules of the statement executed directly "
                        "(subscription order during subscribe() taken from the run, combine_latest's completion after a "
                        "source completed empty accepted at any moment), and after every step nothing may be subscribed "
                        "once the output ended / was disposed and amb's losers may not be subscribed once a winner "
                        "notified; non-trivial = agrees, >= 1 element emitted, and a synchronous element / end or a "
                        "re-entrant feedback step occurred")
    a, kw = holder["args"]
    kw = dict(kw)
    kw["assumptions"] = list(kw.get("assumptions", ())) + [
        "sync_scenarios: where the statement is silent the reference follows the universal operator contract (the first "
        "error of a source that is listened to ends the output; combine_latest completes when all sources have, "
        "with_latest_from when the primary has); errors of amb's winner are 'mirrored' by the statement itself"]
    return chk.finish(*a, **kw)
