"""C32 -- observe_on / ScheduledObserver delivers every notification once, in order, serially.

Theorems (Props/C32.v over Core/SchedObs.v): for ALL schedules of any number of producer and scheduler
worker threads and every set of raising deliveries: at most one `run` alive (is_acquired handshake), the
delivered sequence is a prefix of the received one, never two deliveries at once, no lost wake-up, at
quiescence of a non-faulted observer everything received has been delivered, silence after a raise.

Tie (K3, harness/k3.py + k3x.py): the REAL ObserveOnObserver / ScheduledObserver / observe_on pipeline with a
harness scheduler whose `schedule` hands the action to logical worker threads of the controller; a producer
thread races the worker(s) under all schedules with at most `bound` preemptions plus seeded random schedules;
yield points = the unlocked queue.append | each `with self.lock:` | scheduler.schedule | the scheduler starting a
pending action | entering the downstream observer | a point inside the downstream callback.  One scheduled step
is one action of the Coq transition system, which is run under the SAME schedule (log equality).
Oracle (never consults the model): delivered ids against the producer's program (exactly once, in order,
complete at quiescence unless a delivery raised, nothing after a raise), enter/exit overlap, delivering thread.
Sanity: observe_on on the virtual-time TestScheduler preserves the notification sequence.

"On the target scheduler": in pipeline mode the subscription is made with a SECOND scheduler
(`subscribe(..., scheduler=other)`, what `_observeon.py` receives as subscribe_scheduler); it must never be asked
to schedule anything, and every delivery must run on a worker thread of the observe_on scheduler.
Inline target schedulers (oracle only, one thread, no controller): observe_on(ImmediateScheduler()) and an idle
CurrentThreadScheduler run `run` INSIDE ensure_active (Immediate: recursively, from run's own re-schedule); the
subscriber feeds a value back into the source from inside a delivery.  Reference: the deliveries are the
notifications in the order they were handed to the observer, each one finished before the next begins.
Real target schedulers (oracle only, no controller): EventLoopScheduler and ThreadPoolScheduler with real threads,
a producer pushing a few hundred notifications through observe_on; the run is judged at quiescence (terminal
delivered / a delivery raised, with a generous deadline) by the same statements."""
import json
import os
import sys
import time

import k3
import k3x
import lib
from lib import glist, gnat

_REPLAY_CACHE = {}
if "--replay" in sys.argv[:-1]:
    _p = sys.argv[sys.argv.index("--replay") + 1]
    try:
        _REPLAY_CACHE[_p] = open(_p).read()
    except OSError:
        pass

SO_FILE = "reactivex/observer/scheduledobserver.py"
OO_FILE = "reactivex/observer/observeonobserver.py"
SHARED = {SO_FILE: {"queue", "is_acquired", "has_faulted"}, OO_FILE: {"queue", "is_acquired", "has_faulted"}}
MODULES = ["reactivex.observer.scheduledobserver", "reactivex.subject.subject"]

# the lock structure the transition system Core/SchedObs.v assumes (one entry per modelled method)
EXPECTED = {
    (SO_FILE, "ScheduledObserver._on_next_core"): ["W:queue"],
    (SO_FILE, "ScheduledObserver._on_error_core"): ["W:queue"],
    (SO_FILE, "ScheduledObserver._on_completed_core"): ["W:queue"],
    (SO_FILE, "ScheduledObserver.ensure_active"):
        ["LOCK{", "R:has_faulted", "R:queue", "R:is_acquired", "W:is_acquired", "}", "CALL:self.scheduler.schedule"],
    (SO_FILE, "ScheduledObserver.run"):
        ["LOCK{", "R:queue", "W:queue", "W:is_acquired", "}", "CALL:work", "LOCK{", "W:queue", "W:has_faulted", "}",
         "RAISE", "CALL:self.scheduler.schedule"],
    (OO_FILE, "ObserveOnObserver._on_next_core"): ["CALL:super", "CALL:super()._on_next_core", "CALL:self.ensure_active"],
    (OO_FILE, "ObserveOnObserver._on_error_core"):
        ["CALL:super", "CALL:super()._on_error_core", "CALL:self.ensure_active"],
    (OO_FILE, "ObserveOnObserver._on_completed_core"):
        ["CALL:super", "CALL:super()._on_completed_core", "CALL:self.ensure_active"],
}


class DeliveryError(Exception):
    def __init__(self, ident):
        super().__init__(f"delivery {ident}")
        self.ident = ident


class NoteError(Exception):
    """the payload of an on_error notification"""

    def __init__(self, ident):
        super().__init__(f"note {ident}")
        self.ident = ident


# --------------------------------------------------------------------------
# the world of one run
# --------------------------------------------------------------------------

class World:
    def __init__(self, sc):
        import reactivex
        from reactivex import operators as ops
        from reactivex.disposable import Disposable
        from reactivex.observer import ObserveOnObserver
        from reactivex.observer.scheduledobserver import ScheduledObserver
        self.sc = sc
        self.ctl = None
        self.flags = []
        self.open = 0
        self.producers_left = len(sc["progs"])
        self.done_ident = None
        self.escaped = []                       # exceptions that reached the scheduler
        self.sched = k3x.CtlScheduler(self)
        self.sub_sched = None
        self.raises = set(sc["raises"])
        for p in sc["progs"]:
            for op in gated(p):
                # on_completed carries no payload: the spy reports it under the identity of the completion that
                # can actually reach the observer -- the FIRST terminal of the (gated) program; later ones are
                # dropped by the Observer base class (is_stopped)
                if op[0] in ("note", "enq") and op[1] == "completed" and self.done_ident is None:
                    self.done_ident = op[2]
                if op[0] == "scompleted" and self.done_ident is None:
                    self.done_ident = op[1]
        mode = sc["mode"]
        spy = Spy(self)
        if mode == "observer":
            self.target = ObserveOnObserver(self.sched, spy)
        elif mode == "scheduled":
            self.target = ScheduledObserver(self.sched, spy)
        elif mode == "pipeline":
            box = {}

            def subscribe(observer, scheduler=None):
                box["o"] = observer
                return Disposable()
            src = reactivex.Observable(subscribe)
            # the subscription is made with ANOTHER scheduler: observe_on must deliver on ITS scheduler, never on the
            # one passed at subscribe time (which nobody runs: anything scheduled there is also never delivered)
            self.sub_sched = SubscribeScheduler()
            src.pipe(ops.observe_on(self.sched)).subscribe(
                lambda v: spy.deliver(v), lambda e: spy.deliver(e.ident), lambda: spy.deliver(self.done_ident),
                scheduler=self.sub_sched)
            self.target = box["o"]
        elif mode == "replay":
            # the REAL ReplaySubject on the harness scheduler: thread 0 feeds the subject, thread 1 subscribes
            from reactivex.subject import ReplaySubject
            self.subject = ReplaySubject(scheduler=self.sched)
            self.spy = spy
            self.target = None
        else:
            raise ValueError(mode)

    def emit(self, *ev):
        if self.ctl is not None:
            self.ctl.emit(*ev)

    def call(self, op):
        t = self.target
        if op[0] in ("note", "enq"):
            kind, ident = op[1], op[2]
            if kind == "next":
                t.on_next(ident)
            elif kind == "error":
                t.on_error(NoteError(ident))
            else:
                t.on_completed()
        elif op[0] == "ensure":
            t.ensure_active()
        elif op[0] == "snext":
            self.subject.on_next(op[1])
        elif op[0] == "scompleted":
            self.subject.on_completed()
        elif op[0] == "subscribe":
            spy = self.spy
            self.subject.subscribe(lambda v: spy.deliver(v), lambda e: spy.deliver(e.ident),
                                   lambda: spy.deliver(self.done_ident))
        else:
            raise ValueError(op)


class SubscribeScheduler:
    """the scheduler handed to subscribe() in pipeline mode.  It is NOT the target of observe_on: every call of
    schedule* is recorded (and judged by the oracle); nothing scheduled here ever runs."""

    def __init__(self):
        from datetime import datetime, timezone
        self.calls = []
        self.t0 = datetime(2026, 1, 1, tzinfo=timezone.utc)

    @property
    def now(self):
        return self.t0

    def _rec(self, what, action):
        from reactivex.disposable import Disposable
        self.calls.append((what, getattr(action, "__qualname__", repr(action))))
        return Disposable()

    def schedule(self, action, state=None):
        return self._rec("schedule", action)

    def schedule_relative(self, duetime, action, state=None):
        return self._rec("schedule_relative", action)

    def schedule_absolute(self, duetime, action, state=None):
        return self._rec("schedule_absolute", action)


class Spy:
    """the downstream observer: logs entering and leaving, with a yield point inside"""

    def __init__(self, world):
        self.w = world

    def deliver(self, ident):
        w = self.w
        ctl = w.ctl
        ctl.yield_point("call")
        w.open += 1
        if w.open > 1:
            w.flags.append(("overlap", f"delivery {ident} entered while another one is open"))
        ctl.emit("enter", ident)
        try:
            ctl.yield_point("call")
        finally:
            w.open -= 1
        if ident in w.raises:
            ctl.emit("raise", ident)
            raise DeliveryError(ident)
        ctl.emit("exit", ident)

    def on_next(self, v):
        self.deliver(v)

    def on_error(self, e):
        self.deliver(e.ident)

    def on_completed(self):
        self.deliver(self.w.done_ident)


_TARGETS = None


def shapes():
    return k3x.check_shapes(EXPECTED, SHARED, lib.REPO)


def targets():
    global _TARGETS
    if _TARGETS is None:
        _TARGETS = shapes()[0]
    return _TARGETS


def run_once(sc, chooser):
    """must be called with the locks rebound.  -> (controller, world)"""
    w = World(sc)
    c = k3.Controller(targets(), fine=False, max_steps=3000)
    w.ctl = c

    def producer(prog):
        def body():
            try:
                for op in prog:
                    w.call(op)
            finally:
                w.producers_left -= 1
        return body

    def on_escape(e):
        w.escaped.append(e)
    for p in sc["progs"]:
        c.spawn(producer(p))
    for _ in range(sc["workers"]):
        c.spawn(lambda: k3x.worker_loop(w, w.sched, on_escape))
    c.run(chooser)
    w.ctl = None
    return c, w


# --------------------------------------------------------------------------
# model side
# --------------------------------------------------------------------------

def gated(prog):
    """what reaches the observer's _on_*_core: the Observer base class drops everything after the first
    terminal notification (is_stopped); ensure_active() is not gated"""
    out, stopped = [], False
    for op in prog:
        if op[0] in ("note", "enq"):
            if stopped:
                continue
            if op[1] != "next":
                stopped = True
        out.append(op)
    return out


def gal_prog(prog):
    def f(op):
        if op[0] == "note":
            return f"ONote {gnat(op[2])}"
        if op[0] == "enq":
            return f"OEnq {gnat(op[2])}"
        return "OEnsure"
    return glist(gated(prog), f)


def gal_obs(e):
    k = e[0]
    if k == "sched":
        return "OSched"
    if k == "pop":
        return "OPop"
    return {"enter": "OEnter", "exit": "OExit", "raise": "ORaise"}[k] + " " + gnat(e[1])


def gal_case(sc, sched, log):
    progs = "[" + "; ".join([gal_prog(p) for p in sc["progs"]] + ["[OWork]"] * sc["workers"]) + "]"
    inp = f"({glist(sc['raises'], gnat)}, {progs}, {glist(sched, gnat)})"
    out = glist(log, lambda e: f"({gnat(e[0])}, {gal_obs(e[1:])})")
    return inp, out


CASE_TY = "(list nat * list (list so_op) * list nat) * list (nat * so_obs)"
MODEL = "(fun c : list nat * list (list so_op) * list nat => " \
        "c_log (so_run (mem_nat (fst (fst c))) (snd (fst c)) (snd c)))"
IMPORTS = "Base.Prelude Core.Lts Core.SchedObs"


# --------------------------------------------------------------------------
# oracle
# --------------------------------------------------------------------------

def oracle(sc, log, w):
    """all threads have finished (quiescence).  -> list of (tag, message)"""
    bad = list(w.flags)
    nprod = len(sc["progs"])
    entered = [e[2] for e in log if e[1] == "enter"]
    # never two deliveries at once
    open_ = None
    for e in log:
        if e[1] == "enter":
            if open_ is not None:
                bad.append(("overlap", f"delivery {e[2]} (thread {e[0]}) entered while {open_} is open"))
            open_ = e[2]
        elif e[1] in ("exit", "raise"):
            if open_ != e[2]:
                bad.append(("overlap", f"delivery {e[2]} left while {open_} is the open one"))
            open_ = None
    if open_ is not None:
        bad.append(("never-returned", f"delivery {open_} never returned"))
    # on the target scheduler: on one of ITS threads, and nothing handed to the subscribe-time scheduler
    for e in log:
        if e[1] == "enter" and e[0] < nprod:
            bad.append(("delivered-on-producer-thread", f"delivery {e[2]} ran on producer thread {e[0]}"))
    if w.sub_sched is not None and w.sub_sched.calls:
        bad.append(("scheduled-on-the-subscribe-scheduler",
                    f"observe_on(target) asked the scheduler passed to subscribe() to run {w.sub_sched.calls}"))
    # exactly once
    for i in set(entered):
        if entered.count(i) > 1:
            bad.append(("delivered-twice", f"notification {i} delivered {entered.count(i)} times: {entered}"))
    received = [[op[2] for op in gated(p) if op[0] in ("note", "enq")] for p in sc["progs"]]
    if sc["mode"] == "replay":
        # one subscriber of a ReplaySubject: everything the subject was fed, before or after the subscription
        received = [[op[1] for op in p if op[0] in ("snext", "scompleted")] for p in sc["progs"]]
    allrecv = [i for r in received for i in r]
    for i in entered:
        if i not in allrecv:
            bad.append(("delivered-not-received", f"{i}"))
    # in the order received (per producer; one producer: the order received)
    for r in received:
        sub = [i for i in entered if i in r]
        if sub != r[:len(sub)]:
            bad.append(("out-of-order", f"delivered {entered}, producer sent {r}"))
    # silence after a raising delivery / nothing left undelivered at quiescence
    raised = [e[2] for e in log if e[1] == "raise"]
    if raised:
        k = max(i for i, e in enumerate(log) if e[1] == "raise")
        first = min(i for i, e in enumerate(log) if e[1] == "raise")
        later = [e for e in log[first + 1:] if e[1] == "enter"]
        if later:
            bad.append(("delivered-after-raise", f"{later} after delivery {raised[0]} raised"))
        del k
    else:
        covered = all(_covered(p) for p in sc["progs"])
        if covered and sorted(entered) != sorted(allrecv):
            missing = [i for i in allrecv if i not in entered]
            bad.append(("undelivered-at-quiescence",
                        f"scheduler idle, producer finished, never delivered: {missing} (delivered {entered})"))
    exp_escaped = len(raised)
    if len(w.escaped) != exp_escaped or any(not isinstance(e, DeliveryError) for e in w.escaped):
        bad.append(("unexpected-exception", f"escaped into the scheduler: {w.escaped!r}"))
    return bad


def _covered(prog):
    """every plain enqueue is followed by an ensure_active / an observe_on notification"""
    need = False
    for op in gated(prog):
        if op[0] == "enq":
            need = True
        elif op[0] in ("ensure", "note"):
            need = False
    return not need


# --------------------------------------------------------------------------
# scenarios
# --------------------------------------------------------------------------

def N(i):
    return ("note", "next", i)


FIXED = [
    {"mode": "observer", "progs": [[N(1), N(2), N(3)]], "workers": 1, "raises": []},
    {"mode": "observer", "progs": [[N(1), N(2), ("note", "completed", 3), N(4)]], "workers": 1, "raises": []},
    {"mode": "observer", "progs": [[N(1), N(2), N(3)]], "workers": 2, "raises": []},
    {"mode": "observer", "progs": [[N(1), N(2), N(3)]], "workers": 1, "raises": [2]},
    {"mode": "observer", "progs": [[N(1), ("note", "error", 2), N(3)]], "workers": 2, "raises": [1]},
    {"mode": "pipeline", "progs": [[N(1), N(2), ("note", "completed", 3)]], "workers": 1, "raises": []},
    {"mode": "pipeline", "progs": [[N(1), N(2), ("note", "error", 3)]], "workers": 2, "raises": [2]},
    {"mode": "scheduled", "progs": [[("enq", "next", 1), ("enq", "next", 2), ("ensure",), ("enq", "next", 3), ("ensure",)]],
     "workers": 1, "raises": []},
    {"mode": "scheduled", "progs": [[("enq", "next", 1), ("ensure",)], [("enq", "next", 2), ("ensure",)]],
     "workers": 2, "raises": []},
    {"mode": "observer", "progs": [[N(1), N(2)], [N(3), N(4)]], "workers": 1, "raises": []},
    {"mode": "replay", "progs": [[("snext", 1), ("snext", 2), ("scompleted", 3)], [("subscribe",)]], "workers": 1,
     "raises": []},
    {"mode": "replay", "progs": [[("snext", 1), ("snext", 2)], [("subscribe",)]], "workers": 2, "raises": [1]},
]


def gen_scenarios(tier, rng):
    scs = [dict(s) for s in FIXED]
    n = 3 if tier == "quick" else 25
    for _ in range(n):
        mode = rng.choice(["observer", "observer", "pipeline", "scheduled"])
        ln = rng.choice([2, 3, 3, 4])
        prog, ident = [], 1
        for k in range(ln):
            kind = rng.choice(["next"] * 5 + ["error", "completed"])
            if mode == "scheduled":
                prog.append(("enq", kind, ident))
                if rng.random() < 0.5 or k == ln - 1:
                    prog.append(("ensure",))
            else:
                prog.append(("note", kind, ident))
            ident += 1
        ids = [op[2] for op in prog if op[0] != "ensure"]
        raises = [rng.choice(ids)] if rng.random() < 0.3 else []
        scs.append({"mode": mode, "progs": [prog], "workers": rng.choice([1, 1, 2]), "raises": raises})
    return scs


# --------------------------------------------------------------------------
# virtual-time sanity
# --------------------------------------------------------------------------

def virtual_time_sanity(chk, n):
    """observe_on on the TestScheduler (one thread, virtual time): same notifications, same order, not earlier"""
    from reactivex import operators as ops
    from reactivex.testing import ReactiveTest, TestScheduler
    bad = 0
    for _ in range(n):
        rng = chk.rng
        sch = TestScheduler()
        t, msgs = 200, []
        for _k in range(rng.randrange(0, 7)):
            t += rng.randrange(0, 30)
            msgs.append(ReactiveTest.on_next(t, rng.randrange(0, 5)))
        end = rng.choice(["completed", "error", "none"])
        t += rng.randrange(0, 30)
        if end == "completed":
            msgs.append(ReactiveTest.on_completed(t))
        elif end == "error":
            msgs.append(ReactiveTest.on_error(t, NoteError(99)))
        xs = sch.create_hot_observable(*msgs)
        res = sch.start(lambda: xs.pipe(ops.observe_on(sch)))
        got = [(m.value.kind, getattr(m.value, "value", None)) for m in res.messages]
        want = [(m.value.kind, getattr(m.value, "value", None)) for m in msgs if m.time > 200]
        times_ok = all(a.time >= b.time for a, b in zip(res.messages, [m for m in msgs if m.time > 200]))
        chk.cov["evaluations"] += 1
        if got != want or not times_ok:
            bad += 1
            chk.violation("virtual-time|sequence-changed",
                          {"mode": "virtual-time", "input": [str(m) for m in msgs], "output": [str(m) for m in res.messages],
                           "what": "observe_on on a TestScheduler changed the notification sequence"}, size=len(msgs))
    return bad


# --------------------------------------------------------------------------
# inline target schedulers (one thread, no controller; oracle only)
# --------------------------------------------------------------------------

def inline_run(sc):
    """sc = {"mode": "inline", "via": "pipeline" | "observer", "scheduler": "immediate" | "current_thread",
             "prog": [[kind, ident]...], "feedback": {ident: ident2}, "raises": [ident...]}
    The producer (this thread) hands `prog` to the source one by one; while delivery `ident` is in progress the
    subscriber hands on_next(ident2) to the same source (once).  -> log of
    ("recv", i) the notification is handed to observe_on's observer | ("enter", i) | ("exit", i) | ("raise", i) |
    ("escaped", i) an exception came back to the caller of on_xxx"""
    from reactivex import operators as ops
    from reactivex.observer import ObserveOnObserver
    from reactivex.scheduler import CurrentThreadScheduler, ImmediateScheduler
    from reactivex.subject import Subject
    sch = ImmediateScheduler() if sc["scheduler"] == "immediate" else CurrentThreadScheduler()
    feedback = {int(k): v for k, v in sc.get("feedback", {}).items()}
    raises = set(sc.get("raises", []))
    done = [i for k, i in sc["prog"] if k != "next"]
    done_ident = done[0] if done else None
    log, fed = [], set()
    box = {}

    def send(kind, ident):
        log.append(("recv", ident))
        t = box["t"]
        try:
            if kind == "next":
                t.on_next(ident)
            elif kind == "error":
                t.on_error(NoteError(ident))
            else:
                t.on_completed()
        except DeliveryError as e:
            log.append(("escaped", e.ident))

    def deliver(ident):
        log.append(("enter", ident))
        if ident in feedback and ident not in fed:
            fed.add(ident)
            send("next", feedback[ident])
        if ident in raises:
            log.append(("raise", ident))
            raise DeliveryError(ident)
        log.append(("exit", ident))

    class Down:
        def on_next(self, v):
            deliver(v)

        def on_error(self, e):
            deliver(e.ident)

        def on_completed(self):
            deliver(done_ident)

    if sc["via"] == "observer":
        box["t"] = ObserveOnObserver(sch, Down())
    else:
        src = Subject()
        src.pipe(ops.observe_on(sch)).subscribe(deliver, lambda e: deliver(e.ident), lambda: deliver(done_ident))
        box["t"] = src
    for kind, ident in sc["prog"]:
        send(kind, ident)
    return log


def inline_oracle(sc, log):
    """reference from the property text.  One thread and a scheduler that runs what it is given at once: when the
    producer's call returns the scheduler is idle, so everything handed over so far must have been delivered --
    in the order handed over, one delivery finished before the next begins; after a delivery raised: nothing."""
    bad = []
    received, entered, open_ = [], [], None
    raised = None
    for k, i in log:
        if k == "recv":
            received.append(i)
        elif k == "enter":
            if raised is not None:
                bad.append(("delivered-after-raise", f"delivery {i} after delivery {raised} raised"))
            if open_ is not None:
                bad.append(("nested", f"delivery {i} began inside delivery {open_}"))
            if i in entered:
                bad.append(("delivered-twice", f"notification {i}"))
            entered.append(i)
            open_ = i
        elif k in ("exit", "raise"):
            if open_ == i:
                open_ = None
            if k == "raise" and raised is None:
                raised = i
    if open_ is not None and raised is None:
        bad.append(("never-returned", f"delivery {open_}"))
    if entered != received[:len(entered)]:
        bad.append(("out-of-order", f"handed over {received}, delivered {entered}"))
    elif raised is None and len(entered) < len(received):
        bad.append(("undelivered-at-quiescence", f"handed over {received}, delivered {entered}, scheduler idle"))
    return bad


INLINE_FIXED = [
    {"prog": [["next", 1], ["next", 2], ["completed", 3]], "feedback": {}, "raises": []},
    # the subscriber feeds one value back from inside a delivery
    {"prog": [["next", 1], ["next", 2], ["completed", 3]], "feedback": {"1": 10}, "raises": []},
    # a chain: the fed-back value feeds another one back
    {"prog": [["next", 1], ["next", 2]], "feedback": {"1": 10, "10": 11, "2": 20}, "raises": []},
    # the fed-back delivery raises: nothing further
    {"prog": [["next", 1], ["next", 2], ["error", 3]], "feedback": {"1": 10}, "raises": [10]},
    # the feeding delivery itself raises after feeding: the fed value must not be delivered
    {"prog": [["next", 1], ["next", 2]], "feedback": {"1": 10}, "raises": [1]},
    {"prog": [["next", 1], ["error", 2]], "feedback": {"1": 10}, "raises": []},
]


def gen_inline(tier, rng):
    scs = []
    for base in INLINE_FIXED:
        for via in ("pipeline", "observer"):
            for sch in ("immediate", "current_thread"):
                scs.append(dict(base, mode="inline", via=via, scheduler=sch))
    for _ in range(40 if tier == "quick" else 600):
        n = rng.randrange(1, 6)
        prog = [["next", i + 1] for i in range(n)]
        if rng.random() < 0.5:
            prog.append([rng.choice(["completed", "error"]), n + 1])
        fb, nxt = {}, 10
        for i in range(1, n + 1):
            if rng.random() < 0.4:
                fb[str(i)] = nxt
                if rng.random() < 0.3:
                    fb[str(nxt)] = nxt + 1
                nxt += 2
        ids = [i for _, i in prog] + list(fb.values())
        raises = [rng.choice(ids)] if rng.random() < 0.3 else []
        scs.append({"mode": "inline", "via": rng.choice(["pipeline", "observer"]),
                    "scheduler": rng.choice(["immediate", "current_thread"]), "prog": prog, "feedback": fb,
                    "raises": raises})
    return scs


# --------------------------------------------------------------------------
# real target schedulers (real threads, no controller; oracle only)
# --------------------------------------------------------------------------

SMOKE_DEADLINE = 25.0      # seconds without ANY progress before a run is declared stuck


def smoke_run(sc):
    """sc = {"mode": "smoke", "scheduler": "eventloop" | "threadpool", "n": int, "raise_at": int | None,
             "terminal": "completed" | "error" | None}
    -> (log [(kind, ident, thread id)], facts)"""
    import threading
    from reactivex import operators as ops
    from reactivex.scheduler import EventLoopScheduler, ThreadPoolScheduler
    from reactivex.subject import Subject
    kind = sc["scheduler"]
    sch = EventLoopScheduler() if kind == "eventloop" else ThreadPoolScheduler(max_workers=4)
    n, raise_at, terminal = sc["n"], sc.get("raise_at"), sc.get("terminal")
    last = n + 1 if terminal else n
    lk = threading.Lock()          # the harness's own lock: log order = real order of enter / leave
    log, state = [], {"open": 0, "overlap": []}
    finished = threading.Event()

    def deliver(ident):
        me = threading.get_ident()
        with lk:
            state["open"] += 1
            if state["open"] > 1:
                state["overlap"].append(ident)
            log.append(("enter", ident, me))
        if ident % 7 == 0:
            time.sleep(0)          # give up the GIL inside the delivery now and then
        with lk:
            state["open"] -= 1
            if ident == raise_at:
                log.append(("raise", ident, me))
            else:
                log.append(("exit", ident, me))
        if ident == raise_at:
            finished.set()
            raise DeliveryError(ident)
        if ident == last:
            finished.set()

    old_hook = threading.excepthook

    def hook(args):
        if not isinstance(args.exc_value, DeliveryError):
            old_hook(args)
    threading.excepthook = hook
    producer = threading.get_ident()
    src = Subject()
    facts = {"producer": producer, "stuck": False}
    try:
        src.pipe(ops.observe_on(sch)).subscribe(deliver, lambda e: deliver(e.ident), lambda: deliver(n + 1))
        for i in range(1, n + 1):
            src.on_next(i)
        if terminal == "completed":
            src.on_completed()
        elif terminal == "error":
            src.on_error(NoteError(n + 1))
        # quiescence: the last notification was delivered / a delivery raised; give up only after a long time
        # without any progress at all
        seen, t_last = -1, time.time()
        while not finished.wait(0.02):
            with lk:
                cur = len(log)
            if cur != seen:
                seen, t_last = cur, time.time()
            elif time.time() - t_last > SMOKE_DEADLINE:
                facts["stuck"] = True
                break
        if raise_at is not None:
            time.sleep(0.15)       # anything delivered after the raise would show up here
    finally:
        threading.excepthook = old_hook
        try:
            if kind == "eventloop":
                sch.dispose()
            else:
                sch.executor.shutdown(wait=False)
        except Exception:  # noqa
            pass
    with lk:
        return list(log), dict(facts, overlap=list(state["overlap"]))


def smoke_oracle(sc, log, facts):
    bad = []
    n, raise_at, terminal = sc["n"], sc.get("raise_at"), sc.get("terminal")
    received = list(range(1, n + 1)) + ([n + 1] if terminal else [])
    entered = [e[1] for e in log if e[0] == "enter"]
    if facts["overlap"]:
        bad.append(("overlap", f"deliveries {facts['overlap'][:5]} began while another one was open"))
    open_ = None
    for k, i, _t in log:
        if k == "enter":
            if open_ is not None:
                bad.append(("overlap", f"delivery {i} entered while {open_} is open"))
            open_ = i
        else:
            open_ = None
    if len(set(entered)) != len(entered):
        bad.append(("delivered-twice", f"{[i for i in set(entered) if entered.count(i) > 1][:5]}"))
    if entered != received[:len(entered)]:
        bad.append(("out-of-order", f"delivered {entered[:40]}..., sent 1..{len(received)}"))
    threads = {t for k, _i, t in log if k == "enter"}
    if facts["producer"] in threads:
        bad.append(("delivered-on-producer-thread", "a delivery ran on the thread that called on_next"))
    if sc["scheduler"] == "eventloop" and len(threads) > 1:
        bad.append(("delivered-off-the-loop-thread", f"deliveries ran on {len(threads)} threads of an EventLoopScheduler"))
    if raise_at is not None and raise_at in entered:
        after = entered[entered.index(raise_at) + 1:]
        if after:
            bad.append(("delivered-after-raise", f"{after[:5]} after delivery {raise_at} raised"))
    elif len(entered) < len(received):
        bad.append(("undelivered-at-quiescence",
                    f"{len(entered)} of {len(received)} delivered, no progress for {SMOKE_DEADLINE} s"))
    return bad


def gen_smoke(tier, rng):
    scs = []
    for kind in ("eventloop", "threadpool"):
        for k in range(6 if tier == "quick" else 40):
            n = rng.choice([50, 200, 400])
            scs.append({"mode": "smoke", "scheduler": kind, "n": n,
                        "raise_at": (rng.randrange(1, n + 1) if k % 3 == 2 else None),
                        "terminal": rng.choice(["completed", "completed", "error", None])})
    return scs


# --------------------------------------------------------------------------
# the check
# --------------------------------------------------------------------------

def run(chk):
    proved = chk.build_and_prove()
    tier = chk.tier if proved and not chk.broken else "thorough"
    if tier != chk.tier:
        chk.cov["search"] = "a theorem no longer checks: scenarios, preemption bound and random schedules enlarged to thorough"
    bound = 2 if tier == "quick" else 3
    nrandom = 30 if tier == "quick" else 300
    ok, st = k3.self_test(2)
    if not ok:
        chk.tie_broken("k3 self-test: the controller did not expose the toy race / reported one on the locked toy", st)
    tg, badshape = shapes()
    if badshape:
        chk.tie_broken("lock structure of scheduledobserver.py / observeonobserver.py differs from the modelled one "
                       "(AST pass)", badshape)
    stats = {"runs": 0, "steps": 0, "nontrivial": set(), "modes": {}, "workers": {}, "raising": 0}
    cases, samples = [], []
    t0 = time.time()
    scs = gen_scenarios(tier, chk.rng)
    with k3x.Rebound(MODULES):
        for sc in scs:
            def once(chooser, sc=sc):
                c, w = run_once(sc, chooser)
                return c.trace, (c, w)
            results = list(k3.explore(once, bound, limit=(None if tier == "quick" else 6000)))
            for _ in range(nrandom):
                tr, cw = once(k3.random_chooser(chk.rng))
                results.append(([x for x, _ in tr], cw))
            key = json.dumps(sc, sort_keys=True)
            for sched, (c, w) in results:
                log = list(c.log)
                chk.cov["evaluations"] += 1
                stats["runs"] += 1
                stats["steps"] += len(sched)
                if k3.preemptions(c.trace) >= 1:
                    stats["nontrivial"].add((key, tuple(sched)))
                for tag, msg in oracle(sc, log, w):
                    chk.violation(f"C32|{sc['mode']}|{tag}",
                                  {"mode": "concurrent", "scenario": sc, "schedule": sched, "implementation_log": log,
                                   "oracle": tag, "what": msg}, size=len(sched))
                if sc["mode"] != "replay":
                    cases.append((sc, sched, log))
            stats["modes"][sc["mode"]] = stats["modes"].get(sc["mode"], 0) + len(results)
            stats["workers"][str(sc["workers"])] = stats["workers"].get(str(sc["workers"]), 0) + len(results)
            stats["raising"] += len(results) if sc["raises"] else 0
            samples.append({"scenario": sc, "schedule": results[len(results) // 2][0],
                            "observed_log": list(results[len(results) // 2][1][0].log)})
    stats["impl_s"] = round(time.time() - t0, 2)
    # correspondence: the transition system under the same schedules
    seen, uniq = set(), []
    for (sc, sched, log) in cases:
        k = (json.dumps(sc, sort_keys=True), tuple(sched))
        if k not in seen:
            seen.add(k)
            uniq.append((sc, sched, log))
    gal = [gal_case(sc, sched, log) for (sc, sched, log) in uniq]
    badidx, logs = lib.correspondence(chk.pid, "so_", IMPORTS, CASE_TY, MODEL, "so_log_eqb", gal, shard=400)
    chk.cov["traces_validated_against_impl"] += len(uniq)
    chk.cov["disagreements_checked"] += len(uniq)
    if badidx:
        firsts = [uniq[i] for i in badidx if i >= 0][:3]
        detail = {"n_disagreements": len(badidx), "logs": logs[:1],
                  "first (scenario, schedule, implementation log)": firsts}
        if firsts:
            inp, _ = gal_case(*firsts[0])
            detail["model_says"] = lib.coq_show(chk.pid, IMPORTS, f"{MODEL} {inp}")
        chk.tie_broken("correspondence K3: transition system Core/SchedObs.v vs implementation under the same schedule",
                       detail)
    # inline target schedulers: one thread, the subscriber feeds values back (oracle only)
    inl = {"runs": 0, "with_feedback": 0, "with_raise": 0, "by_scheduler": {}, "by_via": {}, "distinct": set(),
           "fed_back_deliveries": 0}
    for sc in gen_inline(tier, chk.rng):
        try:
            st_, log = lib.with_timeout(20, inline_run, sc)
        except RecursionError:
            st_, log = "recursion", None
        if st_ != "ok":
            chk.violation(f"C32|inline-{sc['scheduler']}|did-not-terminate",
                          {"mode": "inline", "scenario": sc, "oracle": "did-not-terminate", "what": st_}, size=len(sc["prog"]))
            continue
        chk.cov["evaluations"] += 1
        inl["runs"] += 1
        inl["with_feedback"] += 1 if sc["feedback"] else 0
        inl["with_raise"] += 1 if sc["raises"] else 0
        inl["by_scheduler"][sc["scheduler"]] = inl["by_scheduler"].get(sc["scheduler"], 0) + 1
        inl["by_via"][sc["via"]] = inl["by_via"].get(sc["via"], 0) + 1
        inl["distinct"].add(json.dumps([sc["scheduler"], sc["via"], log]))
        fedvals = set(sc["feedback"].values())
        inl["fed_back_deliveries"] += sum(1 for k, i in log if k == "enter" and i in fedvals)
        for tag, msg in inline_oracle(sc, log):
            chk.violation(f"C32|inline-{sc['scheduler']}|{tag}",
                          {"mode": "inline", "scenario": sc, "implementation_log": log, "oracle": tag, "what": msg},
                          size=len(sc["prog"]) + len(sc["feedback"]))
        if inl["runs"] in (2, 30):
            samples.append({"scenario": sc, "observed_log": log})
    inl["distinct"] = len(inl["distinct"])
    # real target schedulers: real threads, judged at quiescence (oracle only)
    smk = {"runs": 0, "by_scheduler": {}, "deliveries": 0, "with_raise": 0, "stuck": 0, "seconds": 0.0,
           "delivering_threads_max": 0}
    t_s = time.time()
    for sc in gen_smoke(tier, chk.rng):
        if smk["stuck"]:
            break                  # one stuck run is a violation already; do not wait for more deadlines
        log, facts = smoke_run(sc)
        chk.cov["evaluations"] += 1
        smk["runs"] += 1
        smk["by_scheduler"][sc["scheduler"]] = smk["by_scheduler"].get(sc["scheduler"], 0) + 1
        smk["deliveries"] += sum(1 for e in log if e[0] == "enter")
        smk["with_raise"] += 1 if sc.get("raise_at") is not None else 0
        smk["stuck"] += 1 if facts["stuck"] else 0
        smk["delivering_threads_max"] = max(smk["delivering_threads_max"], len({e[2] for e in log if e[0] == "enter"}))
        for tag, msg in smoke_oracle(sc, log, facts):
            chk.violation(f"C32|real-{sc['scheduler']}|{tag}",
                          {"mode": "smoke", "scenario": sc, "oracle": tag, "what": msg,
                           "implementation_log_head": [list(e[:2]) for e in log[:60]]}, size=sc["n"])
    smk["seconds"] = round(time.time() - t_s, 2)
    vt_bad = virtual_time_sanity(chk, 60 if tier == "quick" else 600)
    chk.add_samples(samples[:6], limit=6)
    chk.cov["distinct_nontrivial"] = len(stats["nontrivial"])
    chk.cov["rule"] = (
        "K3: the real ObserveOnObserver (direct and through the observe_on pipeline, downstream = AutoDetachObserver) "
        "and the real ScheduledObserver driven ReplaySubject-style (on_xxx ... ensure_active), plus the REAL ReplaySubject "
        "(one thread feeding it, one subscribing; oracle only), with a harness scheduler "
        "whose queued `run` actions are started by 1 or 2 logical worker threads; 1-2 producer threads sending 2-4 "
        f"notifications (next/error/completed, optional raising delivery); ALL schedules with at most {bound} preemptions "
        "(thorough tier: stateless enumeration capped at 6000 per scenario) "
        f"plus {nrandom} seeded random schedules per scenario; every run compared step-for-step with the Coq transition "
        "system under the same schedule and judged by the direct oracle at quiescence.  non-trivial = a schedule with "
        "at least one preemption, counted as distinct (scenario, schedule).  Plus observe_on on the virtual-time "
        "TestScheduler (sequence preserved).  In pipeline mode the subscription is made with a second scheduler that "
        "must receive no schedule call.  INLINE (oracle only, one thread): observe_on(ImmediateScheduler()) and an idle "
        "CurrentThreadScheduler, directly and through the pipeline, 1-5 next + optional terminal, the subscriber feeding "
        "a value (or a chain of two) back into the source from inside a delivery, optional raising delivery; reference: "
        "deliveries = the notifications in hand-over order, never nested, complete when the producer's call has returned, "
        "nothing after a raise.  REAL SCHEDULERS (oracle only, real threads): EventLoopScheduler and ThreadPoolScheduler(4) "
        "as observe_on targets, 50-400 notifications pushed by the checking thread, judged at quiescence (terminal or "
        f"raising delivery seen; stuck = no progress for {SMOKE_DEADLINE:.0f} s): once, in order, no overlap, not on the "
        "producer thread, one thread for the event loop, silence after a raise.")
    chk.cov["input_distribution"] = {
        "scenarios": len(scs), "runs_by_mode": stats["modes"], "runs_by_workers": stats["workers"],
        "runs_with_a_raising_delivery": stats["raising"], "k3_runs": stats["runs"],
        "k3_scheduled_steps_total": stats["steps"], "k3_preemption_bound": bound, "random_schedules_per_scenario": nrandom,
        "virtual_time_cases": 60 if tier == "quick" else 600, "virtual_time_failures": vt_bad,
        "k3_impl_seconds": stats["impl_s"],
        "pipeline_runs_subscribed_with_a_second_scheduler": stats["modes"].get("pipeline", 0),
        "inline_scheduler_runs": inl, "real_scheduler_runs": smk,
        "k3_self_test": {k: {"schedules": v["schedules"], "runs_seen": v["runs_seen"]} for k, v in st.items()},
    }
    return chk.finish(
        trusted_extra=[
            "harness/k3.py thread controller + harness/k3x.py (gates for idle scheduler workers, harness scheduler, AST "
            "pass lock_shape): the lock structure (locked regions / unlocked accesses to queue, is_acquired, has_faulted / "
            "calls out) of every modelled method is recomputed from the source on each run and compared with the one the "
            "transition system assumes; controller self-tested on a racy and a locked toy class on each run",
            "model Core/SchedObs.v is hand-written from the code and tied to it by the K3 correspondence of this run "
            "(not extracted)",
        ],
        assumptions=[
            "CPython executes the bytecodes of different threads as an interleaving (GIL); list.append / list.pop(0) and "
            "attribute loads/stores are atomic; a `with self.lock:` block is atomic with respect to every other access "
            "made under the same lock.  The one unlocked access (queue.append) is its own step of the model",
            "granularity: the model (and K3) interleave at locked blocks, the unlocked append, calls out of the object and "
            "the downstream callback; CPython can also preempt between the bytecodes of one such step -> partial.  Real "
            "scheduler threads (EventLoopScheduler, ThreadPoolScheduler) are exercised only by uncontrolled runs whose "
            "interleavings are left to the OS (a smoke test, not an exploration); asyncio targets are not exercised",
            "producer calls on one observer are serial (Rx contract), so the Observer base class's is_stopped gate is "
            "thread-local; the model starts at _on_*_core.  dispose() of the observer during delivery is not modelled",
            "the target scheduler runs every scheduled action eventually and any number of its threads may run actions "
            "concurrently (workers of the model); an exception escaping `run` is swallowed by the harness scheduler",
        ])


def replay(chk, path):
    if not os.path.exists(path) and path in _REPLAY_CACHE:
        with open(path, "w") as f:
            f.write(_REPLAY_CACHE[path])
    d = json.load(open(path))
    if d.get("mode") == "concurrent":
        sc = d["scenario"]
        sc["progs"] = [[tuple(op) for op in p] for p in sc["progs"]]
        with k3x.Rebound(MODULES):
            c, w = run_once(sc, k3.follow(d["schedule"], lenient=True))
        log = list(c.log)
        bad = oracle(sc, log, w)
        print("scenario", sc)
        print("schedule", [x for x, _ in c.trace])
        print("implementation log", log)
        print("oracle", bad or "ok")
        if bad:
            print(f"VIOLATION property=C32 replay={path}")
        return 1 if bad else 0
    if d.get("mode") == "inline":
        sc = d["scenario"]
        log = inline_run(sc)
        bad = inline_oracle(sc, log)
        print("scenario", sc)
        print("implementation log", log)
        print("oracle", bad or "ok")
        if bad:
            print(f"VIOLATION property=C32 replay={path}")
        return 1 if bad else 0
    if d.get("mode") == "smoke":
        # real threads: not deterministic; the scenario is repeated
        sc = d["scenario"]
        for k in range(20):
            log, facts = smoke_run(sc)
            bad = smoke_oracle(sc, log, facts)
            if bad:
                print("scenario", sc, "repetition", k)
                print("oracle", bad)
                print(f"VIOLATION property=C32 replay={path}")
                return 1
        print("scenario", sc, "20 repetitions: ok")
        return 0
    print(json.dumps(d, indent=1)[:4000])
    print(f"VIOLATION property=C32 replay={path}")
    return 1
