"""C04 -- cold observables can be subscribed again with identical results.

Theorems (Props/C04.v): the generic closure-level theorem (every subscription of every application
behaves as if it were alone whenever no code writes a factory/application-level cell; all histories,
all interleavings) and the decidable check of the allocation table REGENERATED from /repo/reactivex on
every run by harness/translate/alloc_tr.py (Gen/AllocTable.v).

Ties:
 (1) the kernel's entry_ok_C04 on every generated row = the translator's python twin (coq_eval);
 (2) differential run, INDEPENDENT of the translator (= the oracle of the property): every recipe
     of harness/alloc_cases.py (every public operator that yields an observable + the creation
     functions, deterministic callbacks) and seeded random pipelines of 2-4 operators are built ONCE
     on a TestScheduler world and subscribed several times -- sequentially (next subscription after
     the previous one was disposed) and overlapping (second subscription d ticks after the first);
     the notification sequences with times relative to each subscription instant must be equal;
 (3) verdict correspondence: every failing differential case must use (transitively, through the
     public functions an operator calls) an operator the table flags, and every flagged operator must
     make a case fail.
"""
import json

import lib
import alloc_cases as ac


def plans(tier):
    if tier == "quick":
        return [("seq", 2), ("seq0", 2), ("overlap", 0), ("overlap", 17)]
    return [("seq", 3), ("seq0", 3), ("overlap", 0), ("overlap", 1), ("overlap", 7), ("overlap", 17), ("overlap", 33),
            ("overlap", 61), ("overlap", 120)]


def one(r, plan):
    """-> (verdict, result) ; verdict in ok | diff | construct | timeout"""
    st, res = lib.with_timeout(8, ac.run_c04, r, plan)
    if st != "ok":
        return "timeout", None
    if "construct_error" in res:
        return "construct", res
    subs = res["subs"]
    if any(s != subs[0] for s in subs[1:]):
        return "diff", res
    return "ok", res


def fails(r, plan):
    return one(r, plan)[0] == "diff"


def drive_closure(which, count, h, fresh=False):
    """One operator value ops.take(count) (which == 0) / ops.skip(count); h: (-100, _) = apply it to a new probe
    source, (-1 - k, _) = subscribe to application k, (j, i) = the source delivers i to subscription j.  Returns the flat encoding of Ops/ClosureSkip.v run_prog and how many deliveries
    were made to a subscription that had already completed.  fresh=True: a new operator value for every
    application (the reference of C44)."""
    from reactivex import Observable, operators as ops
    from reactivex.disposable import Disposable
    observers, log = [], []

    def subscribe(observer, scheduler=None):
        observers.append(observer)
        return Disposable()
    op = (ops.take if which == 0 else ops.skip)(count)
    apps, enc, nsub, done, fed_after = [], [], 0, set(), 0
    for (j, i) in h:
        if j <= -100:
            apps.append(((ops.take if which == 0 else ops.skip)(count) if fresh else op)(Observable(subscribe)))
        elif j < 0:
            obs, j = apps[-1 - j], nsub
            obs.subscribe(on_next=lambda v, j=j: log.append((j, v + 1)),
                          on_completed=lambda j=j: log.append((j, 0)),
                          on_error=lambda e, j=j: log.append((j, -7)))
            nsub += 1
            if log or len(observers) != nsub:
                enc.append(-99)          # something was heard / no source subscription: not in the model
                del log[:]
        else:
            if j in done:
                fed_after += 1
            observers[j].on_next(i)
            heard = [c for (k, c) in log if k == j]
            if len(heard) != len(log):
                enc.append(-98)          # another subscriber heard something
            if 0 in heard:
                done.add(j)
            enc.extend([j, i, len(heard)] + heard)
            del log[:]
    return enc, fed_after


def resub_failure(enc, h):
    """enc: the flat recording of drive_closure over history h.  Returns (j1, j2, k) when subscriptions j1, j2 OF THE
    SAME APPLICATION (one observable object; different applications are C44's subject) received the same
    first k+1 inputs and heard different things on the k-th delivery (the operator is causal and its callbacks
    deterministic, so that is a failure of C04 itself); None otherwise."""
    per, p = {}, 0
    while p < len(enc):
        if enc[p] < 0:       # heard outside a delivery / by another subscriber: disagrees with the model (tie),
            p += 1           # not by itself a failure of the property
            continue
        j, i, n = enc[p], enc[p + 1], enc[p + 2]
        per.setdefault(j, []).append((i, tuple(enc[p + 3:p + 3 + n])))
        p += 3 + n
    app_of = [-1 - e[0] for e in h if -100 < e[0] < 0]
    js = sorted(per)
    for a in js:
        for b in js:
            if a < b and app_of[a] == app_of[b]:
                for k, (x, y) in enumerate(zip(per[a], per[b])):
                    if x[0] != y[0]:
                        break
                    if x[1] != y[1]:
                        return (a, b, k)
    return None


def closure_progs(chk, enlarge):
    """Correspondence of the two concrete levelled programs (prog_take, prog_skip of Ops/ClosureCompose.v,
    Ops/ClosureSkip.v) with reactivex.operators.take / skip: one operator value applied to 1-3 probe
    sources that hand every subscription its own observer; a generated history of subscriptions (up to 4, overlapping)
    and deliveries; what each subscriber hears during every single delivery, against trace_shared."""
    rng = chk.rng
    n = {"quick": 400, "thorough": 4000}[chk.tier] * (4 if enlarge else 1)
    gal, meta, dist = [], [], {"take": 0, "skip": 0, "subs": {}, "events": 0, "completed_then_fed": 0}
    for _ in range(n):
        which = rng.randrange(2)
        count = rng.randint(1, 4) if which == 0 else rng.randint(0, 4)
        h, nsub, fed, napps = [(-100, 0)], 0, {}, 1
        aligned = rng.random() < 0.6      # every subscription is fed 0, 1, 2, ...: equal inputs, so the outputs
        dist["aligned" if aligned else "random_values"] = dist.get("aligned" if aligned else "random_values", 0) + 1
        for _step in range(rng.randint(1, 14)):                      # must be equal too (the property itself)
            if napps < 3 and rng.random() < 0.08:
                napps += 1
                h.append((-100, 0))
            elif nsub == 0 or (nsub < 4 and rng.random() < 0.25):
                nsub += 1
                h.append((-1 - rng.randrange(napps), 0))
            else:
                j = rng.randrange(nsub)
                fed[j] = fed.get(j, 0) + 1
                h.append((j, fed[j] - 1 if aligned else
                          rng.randint(0, 9) if rng.random() < 0.7 else rng.randint(0, 10 ** 6)))
        enc, fed_after = drive_closure(which, count, h)
        dist["completed_then_fed"] += fed_after
        dist["take" if which == 0 else "skip"] += 1
        dist["subs"][str(nsub)] = dist["subs"].get(str(nsub), 0) + 1
        dist.setdefault("applications", {})[str(napps)] = dist.setdefault("applications", {}).get(str(napps), 0) + 1
        dist["events"] += len(h)
        gal.append((f"({which}, {count}, " + lib.glist(h, lambda e: f"({lib.gz(e[0])}, {lib.gz(e[1])})") + ")",
                    lib.glist(enc)))
        meta.append({"operator": "take" if which == 0 else "skip", "count": count,
                     "which": which, "history": [list(e) for e in h], "heard": enc})
    bad, logs = lib.correspondence("C04", "closureprogs", "Base.Prelude Ops.ClosureSkip", "(Z * Z * list (Z * Z)) * list Z",
                                   "run_prog", "list_eqb Z.eqb", gal, prelude="Open Scope Z_scope.\n", shard=500)
    chk.cov["evaluations"] += len(gal)
    chk.cov["closure_progs"] = {"cases": len(gal), "distribution": dist,
                                "rule": "prog_take / prog_skip (Coq, trace_shared) vs one ops.take / ops.skip operator value applied to "
                                        "1-3 probe sources, 1-4 overlapping subscriptions, 1-14 events, deliveries after "
                                        "completion included; per delivery: who heard what"}
    # a failing input of the property itself: two subscriptions of the one observable that were fed the
    # same inputs and heard different things (only that is a violation; a disagreement with the
    # model alone breaks the tie); judged on every case, whether or not the model could be evaluated
    failing = [m for m in meta if resub_failure(m["heard"], m["history"]) is not None]
    for m in sorted(failing, key=lambda m: len(m["history"]))[:1]:       # the shortest failing history
        m = dict(m, differing_subscriptions=resub_failure(m["heard"], m["history"]), n_failing_histories=len(failing))
        chk.violation(f"closure_progs|{m['operator']}",
                      {"family": "closure_progs", **m,
                       "what": "one ops.%s(%d) operator value; per delivery [subscriber, value, #heard, heard...] "
                               "(0 = on_completed, v+1 = on_next v); the levelled program of the operator "
                               "(re-subscription theorem C04_%s_resubscribe) says otherwise"
                               % (m["operator"], m["count"], m["operator"]),
                       }, size=1)
    if bad:
        idx = [i for i in bad if i >= 0][:3]
        detail = {"n_disagreements": len(bad), "first_cases": [meta[i] for i in idx], "logs": logs[:1]}
        if idx:
            detail["model_says"] = lib.coq_show("C04", "Base.Prelude Ops.ClosureSkip", f"run_prog {gal[idx[0]][0]}",
                                                "Open Scope Z_scope.\n")[-1500:]
        chk.tie_broken("correspondence: Ops/ClosureCompose.v prog_take / Ops/ClosureSkip.v prog_skip vs "
                       "reactivex.operators.take / skip", detail)


def run(chk):
    proved = chk.build_and_prove()
    tv = ac.table_verdict(chk, "C04")
    R = ac.recipes()
    tier = chk.tier
    enlarge = (not proved) or bool(chk.broken)
    if enlarge:
        chk.cov["search"] = ("theorem file / translator / table tie broke: the differential run is enlarged to "
                             "the thorough plans and 8x the random pipelines; it is the search for a failing input")
    P = plans("thorough" if enlarge else tier)
    hist = {"plans": {}, "recipes": 0, "random_pipelines": 0, "construct_errors": [], "timeouts": [],
            "stage_histogram": {}}
    nontrivial, failing, samples = set(), [], []
    cases = [r for r in R if r.c04]
    hist["recipes"] = len(cases)
    pool = ac.stage_pool(R)
    npipe = {"quick": 250, "thorough": 3000}[tier] * (8 if enlarge and tier == "quick" else 1)
    pipes, seen = [], set()
    for _ in range(npipe):
        p = ac.random_pipeline(chk.rng, pool)
        if p.id not in seen:
            seen.add(p.id)
            pipes.append(p)
    hist["random_pipelines"] = len(pipes)
    for r in cases + pipes:
        for s in getattr(r, "stages", [r]):
            hist["stage_histogram"][s.name] = hist["stage_histogram"].get(s.name, 0) + 1
        bad_plan = None
        for plan in P:
            if plan[0] == "overlap" and r.stateful:
                continue
            v, res = one(r, plan)
            chk.cov["evaluations"] += 1
            pk = f"{plan[0]}:{plan[1]}"
            hist["plans"][pk] = hist["plans"].get(pk, 0) + 1
            if v == "construct":
                hist["construct_errors"].append([r.id, res["construct_error"]])
                break
            if v == "timeout":
                hist["timeouts"].append([r.id, pk])
                break
            if v == "diff":
                bad_plan = (plan, res)
                break
            if len(res["subs"][0]) >= 2:
                nontrivial.add((r.id, pk))
            if len(samples) < 6 and r.id in ("ops.map_indexed", "rx.catch", "ops.zip_with_iterable", "ops.while_do",
                                             "rx.for_in", "ops.retry#inf") and plan[0] == "seq":
                samples.append({"case": r.id, "plan": list(plan), "relative_traces": res["subs"]})
        if bad_plan is not None:
            plan, res = bad_plan
            failing.append(r)
            m = r
            if isinstance(r, ac.Pipeline):
                m = ac.shrink_pipeline(r, lambda c: fails(c, plan))
                res = ac.run_c04(m, plan)
                culprit = "+".join(sorted({s.name for s in m.stages}))
                sig = f"resubscribe|pipeline|{culprit}"
                desc = m.to_json()
            else:
                sig = f"resubscribe|{r.name}"
                desc = r.id
            chk.violation(sig, {"case": desc, "plan": list(plan),
                                "what": "one observable object subscribed several times; notifications with times "
                                        "relative to each subscription instant",
                                "subscriptions": res["subs"],
                                "expected": "every subscription yields the same sequence as the first",
                                "operators_used": list(m.uses)},
                          size=len(m.uses) + 2 * (len(getattr(m, "stages", [m])) - 1))
    # recipes must exist for (almost) every public operator: measured by introspection
    pub = ac.public_operator_names()
    have = {r.name for r in R}
    missing = sorted(n for n in pub if "ops." + n not in have)
    hist["public_operators_without_recipe"] = missing
    if set(missing) - {"to_future"}:
        chk.tie_broken("differential harness has no recipe for a public operator (new operator?)",
                       sorted(set(missing) - {"to_future"}))
    if hist["construct_errors"]:
        chk.tie_broken("differential harness: a recipe can no longer be constructed", hist["construct_errors"][:10])
    ac.tie_table_vs_differential(chk, tv, failing, cases + pipes, "C04")
    closure_progs(chk, enlarge)
    if tv is not None:
        chk.cov["table"] = tv["stats"]
        chk.cov["traces_validated_against_impl"] = tv["stats"]["rows_checked_in_coq"]
        chk.cov["disagreements_checked"] = tv["stats"]["rows_checked_in_coq"]
    chk.cov["distinct_nontrivial"] = len(nontrivial)
    chk.cov["rule"] = ("every recipe of harness/alloc_cases.py that is not excluded by the statement (multicast "
                       "family, hot/terminal) + seeded random pipelines (source kind x 2-4 stages drawn from the "
                       "single-source recipes) x plans (sequential re-subscription after dispose with per-subscription "
                       "reset of the two stateful conditions; overlapping second subscription d ticks later); "
                       "non-trivial = distinct (case, plan) whose first subscription records at least two "
                       "notifications and on which all subscriptions agree")
    chk.cov["input_distribution"] = hist
    chk.add_samples(samples)
    if pipes:
        chk.add_samples([{"case": pipes[0].to_json(), "plan": ["seq", 2],
                          "relative_traces": ac.run_c04(pipes[0], ("seq", 2)).get("subs")}], limit=7)
    return chk.finish(
        trusted_extra=["translator harness/translate/alloc_tr.py (fail-closed below subscription level; grammar, "
                       "level rules and allowlists HOT/BENIGN/MULTICAST in its header); assumptions A1 (public "
                       "reactivex constructors never run a callback argument before subscription), A2 (they do "
                       "not mutate container arguments), A3 (aliasing only through y = x); cross-checked on every "
                       "run by the differential run, which does not use it",
                       "reading of the table as a levelled program (Ops/Closure.v described_by): a row is a cell "
                       "of the store of its allocation level; code of level L leaves cells whose deepest write "
                       "level is shallower than L untouched; locks and scheduler services are not cells",
                       "compositionality: a public function called inside another one contributes through its "
                       "own rows (the table check covers all rows)"],
        assumptions=["cold sources, deterministic callbacks, re-iterable iterable arguments (a generator passed by "
                     "the caller is the caller's one-shot state)",
                     "excluded by the statement: publish/share/replay/ref_count/multicast/publish_value and what is "
                     "defined through them (partition, partition_indexed); hot or terminal by definition: rx.hot, "
                     "rx.start, rx.to_async, rx.start_async, ops.to_future (pinned by theorem C04_excluded_operators)",
                     "allowlisted benign sharing: repeat's infinite() generator, the idempotent "
                     "duration = to_timedelta(duration) of skip/take_last_with_time (pinned by C04_benign_sites)",
                     "from_callback with a mapper emits but never completes (belongs to C41), the same on every "
                     "subscription"])


def replay(chk, path):
    d = json.load(open(path))
    if d.get("family") == "closure_progs":
        h = [tuple(e) for e in d["history"]]
        enc, _ = drive_closure(d["which"], d["count"], h)
        g = f"({d['which']}, {d['count']}, " + lib.glist(h, lambda e: f"({lib.gz(e[0])}, {lib.gz(e[1])})") + ")"
        out = lib.coq_show("C04", "Base.Prelude Ops.ClosureSkip", f"list_eqb Z.eqb (run_prog {g}) {lib.glist(enc)}",
                           "Open Scope Z_scope.\n")
        print("history ((-100, _) = apply the operator value to a new source, (-1 - k, _) = subscribe to application k, "
              "(j, i) = deliver i to subscription j):", h)
        print("implementation heard (per delivery: subscriber, value, #heard, heard...):", enc)
        print("model agrees:", "yes" if "= true" in out else "no" if "= false" in out else
              "not evaluated (the Coq build is stale; run the check first)")
        pair = resub_failure(enc, h)
        print("subscriptions fed the same inputs that heard different things (j1, j2, delivery):", pair)
        same = pair is None
        if not same:
            print(f"VIOLATION property=C04 replay={path}")
        return 0 if same else 1
    if "case" not in d:
        print(json.dumps(d, indent=1)[:6000])
        return 1
    R = ac.recipes()
    r = ac.rebuild(R, d["case"])
    plan = tuple(d["plan"])
    res = ac.run_c04(r, plan)
    for i, s in enumerate(res.get("subs", [])):
        print(f"subscription {i}: {json.dumps(s, default=repr)[:1500]}")
    subs = res.get("subs", [])
    same = bool(subs) and all(s == subs[0] for s in subs[1:])
    print("identical" if same else "DIFFERENT", res.get("construct_error", ""))
    if not same:
        print(f"VIOLATION property=C04 replay={path}")
    return 0 if same else 1
