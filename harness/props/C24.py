"""C24 -- multicasting shares one source subscription per connection.  See harness/conn.py
(driver with a hand-driven source that logs its own subscribe/unsubscribe instants, generators,
independent oracle `Expect`, run_check) and coq/theories/Props/C24.v.  K1/K2 correspondence: the
real operators (publish, share, ref_count, auto_connect, publish_value, replay, multicast) are
driven with generated call trees; Coq evaluates Subjects/Connectable.v on the same trees
(vm_compute) and compares the complete observable logs (calls, deliveries, source subscribe /
unsubscribe events in one total order)."""
import conn


def run(chk):
    return conn.run_check(chk)


def replay(chk, path):
    return conn.replay_check(chk, path)
