"""C24 -- multicasting shares one source subscription per connection.  See harness/conn.py
(driver with a hand-driven source that logs its own subscribe/unsubscribe instants, generators,
independent oracle `Expect`, run_check) and coq/theories/Props/C24.v.  K1/K2 correspondence: the
real operators (publish, share, ref_count, auto_connect, publish_value, replay, multicast) are
driven with generated call trees; Coq evaluates Subjects/Connectable.v on the same trees
(vm_compute) and compares the complete observable logs (calls, deliveries, source subscribe /
unsubscribe events in one total order).
ORACLE-ONLY family replay_clock (harness/replay_clock.py, shared with C22): ops.replay(buffer_size=, window=,
scheduler=S1) and ops.multicast(subject=ReplaySubject(..., S1)), with connect(), ref_count() (share-like) and
auto_connect(1), whose subscribers hand subscribe() no scheduler, S1, a second virtual-time scheduler whose
clock is AHEAD of or BEHIND S1's, or a real-time scheduler (ConnectableObservable / ref_count forward it to the
subject): every subscriber receives the values retained on S1's clock, then what the shared subject receives
from its subscription onwards, whatever scheduler it or an earlier subscriber passed.  It runs just before
chk.finish (conn.py is not edited)."""
import json

import conn
import replay_clock

PID = "C24"


def run(chk):
    orig = chk.finish

    def finish(*a, **kw):
        chk.finish = orig
        replay_clock.run_family(chk, PID)
        kw["trusted_extra"] = list(kw.get("trusted_extra", ())) + [replay_clock.TRUSTED]
        kw["assumptions"] = list(kw.get("assumptions", ())) + [replay_clock.ASSUME]
        return orig(*a, **kw)
    chk.finish = finish
    return conn.run_check(chk)


def replay(chk, path):
    d = json.load(open(path))
    if d.get("family") == "replay_clock":
        return replay_clock.replay(chk, path, d, PID)
    return conn.replay_check(chk, path)
