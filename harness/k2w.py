"""K2 for operators that hand OBSERVABLES downstream (windows, groups) -- model
side: Ops/MultiWin.v.

Extends harness/k2m.py (hand-driven hot sources, proxy scheduler, one boundary
log): the logging subscriber receives windows / groups as elements (logged as
`hand g key`, g = 0,1,2.. in arrival order), and subscribes to each of them
according to a generated POLICY:

  imm      subscribe inside the on_next callback that delivered the window
  delay d  subscribe d ms later (d = 0: right after the current boundary input,
           as a boundary input of its own)
  never    do not subscribe
  limit n  after the n-th element of the window was received, dispose the
           window subscription (as a boundary input of its own, at the same
           instant, right after the input during which the n-th element came)
  until d  dispose the window subscription d ms after subscribing

Every notification on a window subscription is logged `win g notification`.
The window-level actions of the subscriber are boundary INPUTS of the model
(`ISubWin g`, `IUnsubWin g`), the immediate subscription is a parameter of the
runner (`imm : nat -> bool`).

Operators that return a fixed LIST of output observables (partition) are
driven in `outputs` mode: there is no outer subscription, outputs 0 and 1 play
the role of windows that exist from the start."""
from __future__ import annotations

import k2
import k2m
from k2 import err_id
from lib import gz

EMITLIKE = ("emit", "hand", "win", "escape")


class Policy:
    """per window g: dict(imm, delay, limit, until); default for g beyond the table"""

    def __init__(self, table, default=None):
        self.table = list(table)
        self.default = default or dict(imm=True, delay=None, limit=None, until=None)

    def at(self, g):
        return self.table[g] if g < len(self.table) else self.default

    def gallina_imm(self):
        bits = "; ".join("true" if p["imm"] else "false" for p in self.table)
        return f"(fun g => nth g [{bits}] {'true' if self.default['imm'] else 'false'})"

    def describe(self):
        return [dict(p) for p in self.table]


def gen_policy(rng, n=10, p_imm=0.6, p_never=0.1, p_limit=0.25, p_until=0.15, delays=(0, 0, 5, 10, 20, 40)):
    tab = []
    for _ in range(n):
        r = rng.random()
        p = dict(imm=False, delay=None, limit=None, until=None)
        if r < p_imm:
            p["imm"] = True
        elif r < 1 - p_never:
            p["delay"] = rng.choice(delays)
        if p["imm"] or p["delay"] is not None:
            if rng.random() < p_limit:
                p["limit"] = rng.choice([1, 1, 2, 3])
            if rng.random() < p_until:
                p["until"] = rng.choice([0, 5, 10, 20, 30])
        tab.append(p)
    return Policy(tab)


ALL_IMM = Policy([])


def warm_up(env, obs, sched, warmup, n_static, outputs):
    """an EARLIER subscription of the same observable object(s), abandoned before the measured one
    starts (as k2m.run_multi does): per-subscription state (queues, counters, writers tables, filter
    indices) must start fresh.  warmup = dict(events=[(t, k, ev)], windows='all'|'none'|'first',
    outputs=[g..]); the throw-away subscriber subscribes to the handed windows/groups it is told to
    and everything it holds is disposed at the end.  Callbacks indexed by invocation register a reset
    in env.resets."""
    held = []
    quiet = (lambda v: None, lambda e: None, lambda: None)
    seen = [0]

    def w_on_next(v):
        if hasattr(v, "subscribe"):
            seen[0] += 1
            how = warmup.get("windows", "all")
            if how == "all" or (how == "first" and seen[0] == 1):
                held.append(v.subscribe(*quiet, scheduler=sched))
    try:
        w = None
        if outputs:
            for g in warmup.get("outputs", (0, 1)):
                held.append(obs[g].subscribe(*quiet, scheduler=sched))
        else:
            w = obs.subscribe(w_on_next, quiet[1], quiet[2], scheduler=sched)
        for (_, k, ev) in warmup.get("events", ()):
            try:
                if k < len(env.sources):
                    env.sources[k].push(ev)
            except Exception:
                pass
        if w is not None:
            w.dispose()
        for d in held:
            d.dispose()
    except Exception:
        pass
    del env.log[:]
    del env.escapes[:]
    env.sources = env.sources[:n_static]
    for s in env.sources:
        s.observers = [r for r in s.observers if r[1]]
    env.timers.clear()
    env.n_timers = 0
    env.tag = 0
    env.now = 0
    for reset in getattr(env, "resets", ()):
        reset()


def run_win(build, n_static, events, policy=ALL_IMM, use_scheduler=False, dispose_at=None, horizon=None,
            outputs=False, sub_outputs=None, max_inputs=400, warmup=None):
    """events: [(time_ms, k, ev)] source notifications (time non-decreasing).
    outputs mode: build returns a list of observables; sub_outputs = [(time_ms, 'sub'|'unsub', g)].
    warmup: see warm_up (None = the measured subscription is the first one).
    Returns dict(log, inputs, escapes, env, n_windows)."""
    env = k2m.Env()
    env.resets = []
    sched = k2m.make_scheduler(env) if use_scheduler else None
    statics = [env.new_source() for _ in range(n_static)]
    try:
        obs = build(env, [s.observable for s in statics])
    except Exception as e:
        return {"build_error": e, "env": env}
    if warmup is not None:
        warm_up(env, obs, sched, warmup, n_static, outputs)
    k2.CURRENT_TAG[0] = 0

    windows = []            # g -> observable
    wsubs = {}              # g -> list of live disposables (in subscription order)
    wcount = {}             # g -> elements received (all subscriptions of g)
    actions = []            # pending subscriber actions: (time, seq, 'sub'|'unsub', g)
    seq = [0]

    def plan(t, what, g):
        seq[0] += 1
        actions.append((t, seq[0], what, g))
        actions.sort()

    def subscribe_window(g):
        p = policy.at(g)
        box = {"d": None, "n": 0, "live": True}

        def on_next(v):
            env.log.append((env.tag, "win", g, ("N", v)))
            box["n"] += 1
            if p["limit"] is not None and box["n"] == p["limit"] and box["live"]:
                plan(env.now, "unsub", g)

        def on_error(e):
            box["live"] = False
            env.log.append((env.tag, "win", g, ("E", e)))

        def on_completed():
            box["live"] = False
            env.log.append((env.tag, "win", g, ("C", None)))
        d = windows[g].subscribe(on_next, on_error, on_completed, scheduler=sched)
        box["d"] = d
        wsubs.setdefault(g, []).append(box)
        if p["until"] is not None and not outputs:
            plan(env.now + p["until"], "unsub", g)

    def unsubscribe_window(g):
        for box in wsubs.get(g, []):
            if box["d"] is not None:
                d, box["d"] = box["d"], None
                box["live"] = False
                d.dispose()
                return

    def on_next(v):
        if hasattr(v, "subscribe"):
            g = len(windows)
            windows.append(v)
            key = getattr(v, "key", None) if hasattr(v, "key") else None
            env.log.append((env.tag, "hand", g, ("key", key) if hasattr(v, "key") else None))
            p = policy.at(g)
            if p["imm"]:
                subscribe_window(g)
            elif p["delay"] is not None:
                plan(env.now + p["delay"], "sub", g)
        else:
            env.log.append((env.tag, "emit", "N", v))

    def on_error(e):
        env.log.append((env.tag, "emit", "E", e))

    def on_completed():
        env.log.append((env.tag, "emit", "C", None))

    sub = None
    if outputs:
        windows.extend(obs)
        for (t, what, g) in (sub_outputs or []):
            plan(t, what, g)
    else:
        try:
            sub = obs.subscribe(on_next, on_error, on_completed, scheduler=sched)
        except Exception as e:
            env.escapes.append((0, e))
    inputs = []
    pending = list(events)
    disposed = False
    while True:
        cands = []
        if actions and actions[0][0] <= env.now:
            # subscriber actions that are already due come first (they were
            # requested during an earlier input at this very instant)
            cands.append((actions[0][0], -1, "act"))
        elif actions:
            cands.append((actions[0][0], 2, "act"))
        if pending:
            cands.append((pending[0][0], 0, "src"))
        if env.timers:
            tag = min(env.timers, key=lambda t: (env.timers[t][0], t))
            cands.append((env.timers[tag][0], 1, "tick"))
        if dispose_at is not None and not disposed and not outputs:
            cands.append((dispose_at, 3, "dispose"))
        if not cands:
            break
        t, _, what = min(cands)
        if horizon is not None and t > horizon:
            break
        env.now = max(env.now, t)
        env.tag = len(inputs) + 1
        k2.CURRENT_TAG[0] = env.tag
        try:
            if what == "src":
                _, k, ev = pending.pop(0)
                inputs.append((env.now, ("src", k, ev)))
                if k < len(env.sources):
                    env.sources[k].push(ev)
            elif what == "tick":
                inputs.append((env.now, ("tick", tag)))
                sched.fire(tag)
            elif what == "act":
                _, _, kind, g = actions.pop(0)
                if kind == "sub":
                    inputs.append((env.now, ("subwin", g)))
                    if g < len(windows):
                        subscribe_window(g)
                else:
                    inputs.append((env.now, ("unsubwin", g)))
                    unsubscribe_window(g)
            else:
                disposed = True
                inputs.append((env.now, ("dispose",)))
                if sub is not None:
                    sub.dispose()
        except Exception as e:
            env.escapes.append((env.tag, e))
        if len(inputs) > max_inputs:
            break
    return {"build_error": None, "env": env, "inputs": inputs, "log": env.log, "escapes": env.escapes,
            "n_windows": len(windows), "policy": policy}


# ---- rendering --------------------------------------------------------------

KEY = {"sub": 1, "unsub": 2, "timer": 3, "cancel": 4, "effect": 5}


def canon_log(log, escapes=()):
    """per tag: emission-like events (outer emissions, hands, window
    notifications) in order, then the other events sorted"""
    by = {}
    for (tag, kind, a, b) in log:
        by.setdefault(tag, ([], []))
        by[tag][0 if kind in EMITLIKE else 1].append((kind, a, b))
    for (tag, e) in escapes:
        by.setdefault(tag, ([], []))
        by[tag][0].append(("escape", None, None))
    out = []
    for tag in sorted(by):
        em, oth = by[tag]
        oth.sort(key=lambda x: (KEY[x[0]], x[1], x[2] if x[2] is not None else 0))
        out.extend((tag, x) for x in em + oth)
    return out


def g_note(n, enc):
    if n[0] == "N":
        return f"Next {enc(n[1])}"
    if n[0] == "E":
        return f"Err {gz(err_id(n[1]))}"
    return "Done"


def g_obs(x, enc_w, enc_b, enc_key):
    kind, a, b = x
    if kind == "emit":
        return f"OEmit ({g_note((a, b), enc_b)})"
    if kind == "escape":
        return f"OEmit (Err {gz(k2.ESCAPED)})"
    if kind == "hand":
        return f"OHand {a}%nat {enc_key(b[1]) if b is not None else '0'}"
    if kind == "win":
        return f"OWin {a}%nat ({g_note(b, enc_w)})"
    if kind == "sub":
        return f"OSub {a}%nat"
    if kind == "unsub":
        return f"OUnsub {a}%nat"
    if kind == "timer":
        return f"OTimer {a}%nat {gz(b)}"
    if kind == "cancel":
        return f"OCancel {a}%nat"
    return f"OEffect {gz(a)}"


def g_trace(res, enc_w, enc_b=gz, enc_key=gz):
    return "[" + "; ".join(f"({tag}%nat, {g_obs(x, enc_w, enc_b, enc_key)})"
                           for tag, x in canon_log(res["log"], res["escapes"])) + "]"


def g_inputs(inputs, enc_in=gz):
    def one(now, i):
        if i[0] == "src":
            return f"({gz(now)}, ISrc {i[1]}%nat ({g_note(i[2], enc_in)}))"
        if i[0] == "tick":
            return f"({gz(now)}, ITick {i[1]}%nat)"
        if i[0] == "subwin":
            return f"({gz(now)}, ISubWin {i[1]}%nat)"
        if i[0] == "unsubwin":
            return f"({gz(now)}, IUnsubWin {i[1]}%nat)"
        return f"({gz(now)}, IDispose)"
    return "[" + "; ".join(one(n, i) for n, i in inputs) + "]"


# ---- views for the oracles (direct readings of the log; no model) -----------

def time_of(res, tag):
    return 0 if tag == 0 else res["inputs"][tag - 1][0]


def view(res):
    """-> dict:
      hands   [(time, tag, g, key)]
      win     {g: [(time, tag, kind, value)]}  notifications received on window g (all subscriptions)
      em      [(time, tag, kind, value)]       plain emissions on the outer
      subs    {g: [(time, tag, 'sub'|'unsub')]} subscriber actions per window (imm subscriptions included)
      steps   per tag: inp, live_before/after (source subscriptions), src subs/unsubs
      outer_end  (tag, kind) of the outer terminal or dispose, or None
    """
    log, inputs = res["log"], res["inputs"]
    pol = res["policy"]
    hands, win, em, subs = [], {}, [], {}
    for (tag, kind, a, b) in log:
        t = time_of(res, tag)
        if kind == "hand":
            hands.append((t, tag, a, b[1] if b is not None else None))
            if pol.at(a)["imm"]:
                subs.setdefault(a, []).append((t, tag, "sub"))
        elif kind == "win":
            win.setdefault(a, []).append((t, tag, b[0], b[1] if len(b) > 1 else None))
        elif kind == "emit":
            em.append((t, tag, a, b))
    for j, (t, i) in enumerate(inputs):
        if i[0] == "subwin":
            subs.setdefault(i[1], []).append((t, j + 1, "sub"))
        elif i[0] == "unsubwin":
            subs.setdefault(i[1], []).append((t, j + 1, "unsub"))
    for g in subs:
        subs[g].sort(key=lambda x: x[1])
    by = {}
    for e in log:
        by.setdefault(e[0], []).append(e[1:])
    steps, live, timers = [], [], set()
    for tag in range(0, len(inputs) + 1):
        st = dict(tag=tag, time=time_of(res, tag), inp=inputs[tag - 1][1] if tag else None,
                  live_before=list(live), subs=[], unsubs=[], timers_before=set(timers))
        if st["inp"] and st["inp"][0] == "tick":
            timers.discard(st["inp"][1])
        for (kind, a, b) in by.get(tag, []):
            if kind == "sub":
                live.append(a)
                st["subs"].append(a)
            elif kind == "unsub":
                if a in live:
                    live.remove(a)
                st["unsubs"].append(a)
            elif kind == "timer":
                timers.add(a)
            elif kind == "cancel":
                timers.discard(a)
        st["live_after"] = list(live)
        st["timers_after"] = set(timers)
        steps.append(st)
    outer_end = None
    for (t, tag, a, b) in em:
        if a in "EC":
            outer_end = (tag, a)
    for j, (t, i) in enumerate(inputs):
        if i[0] == "dispose" and (outer_end is None or j + 1 < outer_end[0]):
            outer_end = (j + 1, "D")
    return dict(hands=hands, win=win, em=em, subs=subs, steps=steps, outer_end=outer_end)


def window_sub_intervals(v, g):
    """[(sub_tag, end_tag or None, how)] for window g: a subscription ends at the
    window's terminal notification it received or at its unsubscribe action"""
    out = []
    cur = None
    events = [(tag, 0, a) for (_, tag, a) in v["subs"].get(g, [])]
    events += [(tag, 1, "term") for (_, tag, k, _) in v["win"].get(g, []) if k in "EC"]
    events.sort()
    for (tag, _, a) in events:
        if a == "sub" and cur is None:
            cur = tag
        elif a in ("unsub", "term") and cur is not None:
            out.append((cur, tag, a))
            cur = None
    if cur is not None:
        out.append((cur, None, None))
    return out
