"""K2 for multi-source and timer-using operators (model side: Ops/Multi.v).

The operator under test is mounted between hand-driven hot sources (numbered
0, 1, ... in creation order; inner observables made by mapper callbacks get the
next numbers), a logging subscriber and -- for time-based operators -- a proxy
scheduler that records every timer the operator schedules or cancels and lets
the harness fire it.  One log orders everything crossing the operator's
boundary; each entry is tagged with the position of the input during which it
happened (0 = inside subscribe()).

The INPUT sequence actually delivered (source notifications, timer firings,
dispose, each with the clock reading) is what the Coq machine is run on; its
observable trace must equal the log, compared per tag as: emissions in order,
then the set of subscribe/unsubscribe/timer/effect events (canonical order)."""
from __future__ import annotations

import datetime as _dt

import k2
from k2 import UserError, err_id
from lib import gz, glist


class SubscriberError(Exception):
    """raised by the logging subscriber's terminal callbacks when asked to"""


class Env:
    def __init__(self):
        self.now = 0            # virtual clock, integer milliseconds
        self.tag = 0
        self.log = []           # (tag, kind, a, b)   kind in emit/sub/unsub/timer/cancel/effect
        self.sources = []
        self.timers = {}        # tag -> (due_ms, action, state, seq)
        self.n_timers = 0
        self.escapes = []
        self.scheduler = None
        self.sync = {}          # source number -> events it delivers inside subscribe() (first subscription only)
        self.inner_dispose = None

    def new_source(self):
        s = MSource(self, len(self.sources))
        self.sources.append(s)
        return s

    def effect(self, n):
        self.log.append((self.tag, "effect", n, None))


class FalsyDisposable:
    """a disposable with a zero length, like an empty CompositeDisposable: falsy, yet it must be disposed"""

    def __init__(self, action):
        self._action = action

    def __len__(self):
        return 0

    def dispose(self):
        self._action()


class MSource:
    def __init__(self, env, k):
        import reactivex
        from reactivex.disposable import Disposable
        self.env, self.k = env, k
        self.observers = []     # [observer, live]

        def subscribe(observer, scheduler=None):
            rec = [observer, True]
            self.observers.append(rec)
            env.log.append((env.tag, "sub", k, None))

            def dispose():
                if rec[1]:
                    rec[1] = False
                    env.log.append((env.tag, "unsub", k, None))
            sync = env.sync.pop(k, None) if env.sync else None
            if sync:
                # a source that emits a prefix and/or terminates inside its own subscribe(), before the
                # subscriber holds the subscription (run_multi(sync=...); first subscription only)
                for ev in sync:
                    if not rec[1]:
                        break
                    try:
                        if ev[0] == "N":
                            observer.on_next(ev[1])
                        elif ev[0] == "E":
                            observer.on_error(ev[1])
                        else:
                            observer.on_completed()
                    except SubscriberError:
                        pass
                    except Exception as e:
                        env.escapes.append((env.tag, e))
            # every second subscription of a run hands out a disposable whose truth value is False (as an empty
            # CompositeDisposable has): holders must test `is not None`, never truthiness
            env._nsubs = getattr(env, "_nsubs", 0) + 1
            return (FalsyDisposable if env._nsubs % 2 == 0 else Disposable)(dispose)
        self.observable = reactivex.Observable(subscribe)

    def live(self):
        return any(r[1] for r in self.observers)

    def push(self, ev):
        for rec in list(self.observers):
            if not rec[1]:
                continue
            o = rec[0]
            if ev[0] == "N":
                o.on_next(ev[1])
            elif ev[0] == "E":
                o.on_error(ev[1])
            else:
                o.on_completed()


EPOCH = _dt.datetime(1970, 1, 1, tzinfo=_dt.timezone.utc)


def make_scheduler(env):
    """proxy scheduler: records timers, fires them when the harness says so"""
    from reactivex.scheduler.periodicscheduler import PeriodicScheduler
    from reactivex.disposable import Disposable, SingleAssignmentDisposable

    class Proxy(PeriodicScheduler):
        @property
        def now(self):
            return EPOCH + _dt.timedelta(milliseconds=env.now)

        def schedule(self, action, state=None):
            return self._sched(0, action, state)

        def schedule_relative(self, duetime, action, state=None):
            ms = int(round(self.to_seconds(duetime) * 1000))
            return self._sched(max(ms, 0), action, state)

        def schedule_absolute(self, duetime, action, state=None):
            due = self.to_datetime(duetime)
            ms = int(round((due - self.now).total_seconds() * 1000))
            return self._sched(max(ms, 0), action, state)

        def _sched(self, ms, action, state):
            tag = env.n_timers
            env.n_timers += 1
            sad = SingleAssignmentDisposable()
            env.timers[tag] = (env.now + ms, action, state, sad)
            env.log.append((env.tag, "timer", tag, ms))

            def cancel():
                if tag in env.timers:
                    del env.timers[tag]
                    env.log.append((env.tag, "cancel", tag, None))
                sad.dispose()
            return Disposable(cancel)

        def fire(self, tag):
            due, action, state, sad = env.timers.pop(tag)
            ret = action(self, state)
            if ret is not None and hasattr(ret, "dispose"):
                sad.disposable = ret
    env.scheduler = Proxy()
    return env.scheduler


def run_multi(build, n_static, events, use_scheduler=False, dispose_at=None, horizon=None, warmup=None,
              after_warmup=None, subscriber_raises=False, dispose_prio=2, dispose_in_on_next=None, sync=None):
    """events: list of (time_ms, k, ev) source notifications (time non-decreasing).
    dispose_at: time_ms at which the subscriber disposes (after events at that time).
    Returns dict(log, inputs) where inputs is the delivered input sequence
    [(now, ('src',k,ev) | ('tick',tag) | ('dispose',))].
    Optional, defaults reproduce the behaviour every existing caller relies on:
      dispose_prio        2 (default): the dispose comes AFTER the source events and timers of its instant;
                          -1: BEFORE them (dispose_at=-1 puts it before the first event)
      dispose_in_on_next  k >= 1: the subscriber disposes its own subscription from INSIDE its k-th on_next (if
                          subscribe() has returned by then).  Not part of `inputs`; the result carries
                          inner_dispose = dict(tag, pos, n_sources, n_timers): the step it happened in and the
                          lengths of env.log / env.sources / timer count when dispose() RETURNED
      sync                {source number: [events]} delivered by that source inside its own subscribe()
                          (first subscription of the measured run only; also for sources made by mappers)"""
    env = Env()
    sched = make_scheduler(env) if use_scheduler else None
    statics = [env.new_source() for _ in range(n_static)]
    try:
        obs = build(env, [s.observable for s in statics])
    except Exception as e:
        return {"build_error": e, "env": env}

    if warmup is not None:
        # an EARLIER subscription of the same observable object, abandoned before the measured
        # one starts: per-subscription state must start fresh (cold re-subscription)
        try:
            w = obs.subscribe(lambda v: None, lambda e: None, lambda: None, scheduler=sched)
            for (_, k, ev) in warmup:
                try:
                    if k < len(env.sources):
                        env.sources[k].push(ev)
                except Exception:
                    pass
            w.dispose()
        except Exception:
            pass
        del env.log[:]
        del env.escapes[:]
        env.sources = env.sources[:n_static]
        for s in env.sources:
            s.observers = [r for r in s.observers if r[1]]
        env.timers.clear()
        env.n_timers = 0
        env.tag = 0
        if after_warmup is not None:
            after_warmup()      # harness callbacks indexed by invocation restart their count

    k2.CURRENT_TAG[0] = 0
    del k2.RAISED[:]
    if sync:
        env.sync = {k: list(v) for k, v in sync.items()}
    holder = [None]
    nexts = [0]

    def on_next(v):
        env.log.append((env.tag, "emit", "N", v))
        if dispose_in_on_next is not None:
            nexts[0] += 1
            if nexts[0] == dispose_in_on_next and holder[0] is not None and env.inner_dispose is None:
                holder[0].dispose()
                env.inner_dispose = {"tag": env.tag, "pos": len(env.log), "n_sources": len(env.sources),
                                     "n_timers": env.n_timers}

    def on_error(e):
        env.log.append((env.tag, "emit", "E", e))
        if subscriber_raises:
            raise SubscriberError()

    def on_completed():
        env.log.append((env.tag, "emit", "C", None))
        if subscriber_raises:
            raise SubscriberError()
    try:
        sub = obs.subscribe(on_next, on_error, on_completed, scheduler=sched)
    except SubscriberError:
        sub = None
    except Exception as e:
        env.escapes.append((0, e))
        sub = None
    holder[0] = sub
    inputs = []
    pending = list(events)
    disposed = False
    while True:
        # next thing to happen: earliest of pending source event / due timer / dispose
        cands = []
        if pending:
            cands.append((pending[0][0], 0, "src"))
        if env.timers:
            tag = min(env.timers, key=lambda t: (env.timers[t][0], t))
            cands.append((env.timers[tag][0], 1, "tick"))
        if dispose_at is not None and not disposed:
            cands.append((dispose_at, dispose_prio, "dispose"))
        if not cands:
            break
        t, _, what = min(cands)
        if horizon is not None and t > horizon:
            break
        env.now = max(env.now, t)
        env.tag = len(inputs) + 1
        k2.CURRENT_TAG[0] = env.tag
        try:
            if what == "src":
                _, k, ev = pending.pop(0)
                inputs.append((env.now, ("src", k, ev)))
                if k < len(env.sources):
                    env.sources[k].push(ev)
            elif what == "tick":
                inputs.append((env.now, ("tick", tag)))
                sched.fire(tag)
            else:
                disposed = True
                inputs.append((env.now, ("dispose",)))
                if sub is not None:
                    sub.dispose()
        except SubscriberError:
            pass        # the subscriber's own terminal callback raised: expected to reach the emitter
        except Exception as e:
            env.escapes.append((env.tag, e))
        if len(inputs) > 400:
            break
    return {"build_error": None, "env": env, "inputs": inputs, "log": env.log, "escapes": env.escapes,
            "raised": list(k2.RAISED), "inner_dispose": env.inner_dispose}


# ---- rendering --------------------------------------------------------------

KEY = {"sub": 1, "unsub": 2, "timer": 3, "cancel": 4, "effect": 5}


def canon_log(log, escapes=()):
    """per tag: emissions in order, then the other events sorted"""
    by = {}
    for (tag, kind, a, b) in log:
        by.setdefault(tag, ([], []))
        if kind == "emit":
            by[tag][0].append((kind, a, b))
        else:
            by[tag][1].append((kind, a, b))
    for (tag, e) in escapes:
        by.setdefault(tag, ([], []))
        by[tag][0].append(("emit", "E", k2.UserError.__new__(k2.UserError)))  # placeholder, rendered as ESCAPED
        by[tag][0][-1] = ("escape", None, None)
    out = []
    for tag in sorted(by):
        em, oth = by[tag]
        oth.sort(key=lambda x: (KEY[x[0]], x[1], x[2] if x[2] is not None else 0))
        out.extend((tag, x) for x in em + oth)
    return out


def g_obs(x, enc):
    kind, a, b = x
    if kind == "emit":
        if a == "N":
            return f"OEmit (Next {enc(b)})"
        if a == "E":
            return f"OEmit (Err {gz(err_id(b))})"
        return "OEmit Done"
    if kind == "escape":
        return f"OEmit (Err {gz(k2.ESCAPED)})"
    if kind == "sub":
        return f"OSub {a}%nat"
    if kind == "unsub":
        return f"OUnsub {a}%nat"
    if kind == "timer":
        return f"OTimer {a}%nat {gz(b)}"
    if kind == "cancel":
        return f"OCancel {a}%nat"
    return f"OEffect {gz(a)}"


def g_trace(res, enc):
    return "[" + "; ".join(f"({tag}%nat, {g_obs(x, enc)})" for tag, x in canon_log(res["log"], res["escapes"])) + "]"


def g_inputs(inputs, enc_in=gz):
    def one(now, i):
        if i[0] == "src":
            ev = i[2]
            e = f"Next {enc_in(ev[1])}" if ev[0] == "N" else (f"Err {gz(err_id(ev[1]))}" if ev[0] == "E" else "Done")
            return f"({gz(now)}, ISrc {i[1]}%nat ({e}))"
        if i[0] == "tick":
            return f"({gz(now)}, ITick {i[1]}%nat)"
        return f"({gz(now)}, IDispose)"
    return "[" + "; ".join(one(n, i) for n, i in inputs) + "]"


def gen_events(rng, n_sources, maxlen=5, step=(0, 10, 10, 20, 50), values=range(10), p_err=0.2, p_none=0.15,
               nonconforming=0.15):
    """random interleaving of n hot sources: per source a conforming sequence
    (elements then completion / error / nothing), merged by random times; a few
    non-conforming tails."""
    evs = []
    for k in range(n_sources):
        t = rng.choice([0, 10, 20])
        for _ in range(rng.choice([0, 1, 2, 2, 3, maxlen])):
            t += rng.choice(step)
            evs.append((t, k, ("N", rng.choice(list(values)))))
        r = rng.random()
        t += rng.choice(step)
        if r < p_err:
            evs.append((t, k, ("E", k2.make_error(rng.choice([11, 12])))))
        elif r < 1 - p_none:
            evs.append((t, k, ("C",)))
        if rng.random() < nonconforming:
            t += rng.choice(step)
            evs.append((t, k, rng.choice([("N", 9), ("C",), ("E", UserError(13))])))
    evs.sort(key=lambda e: e[0])          # stable: per-source order kept
    return evs
