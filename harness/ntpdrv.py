"""Driver of the REAL NewThreadScheduler.schedule_periodic (reactivex/scheduler/newthreadscheduler.py)
under a controlled clock, a controlled threading.Event and a controlled thread; used by props/C35.py.

What is controlled (names rebound the way k3_time.Rebound does, restored on exit):
  * `threading` as seen by reactivex.scheduler.newthreadscheduler -> a shim whose `Event` is `CEvt`
    (wait / is_set / set of the loop's `disposed` event are calls into the environment below);
  * `Thread` as seen by reactivex.internal.concurrency (default_thread_factory) -> `CThr`; half of the
    cases pass `thread_factory=` (public constructor argument) instead;
  * `default_now` as seen by reactivex.scheduler.scheduler (`Scheduler.now`) -> the controlled clock
    (integer microseconds since EPOCH).

The loop runs on its own real OS thread (created by CThr.start()), but that thread and the driving
(main) thread hand a baton back and forth, so exactly one of them runs at any time and the run is
deterministic.  The loop thread executes nothing of `run()` before the main thread grants it the baton
(so "dispose() before the new thread executes its first instruction" can be scripted).  A dispose()
"from another thread" is executed BY THE MAIN THREAD while the loop thread is parked inside the hook
that asked for it (inside Event.wait, before/after Event.is_set, at the entry of / inside the action);
a dispose() "from inside the action" is executed by the loop thread itself.

The environment follows a SCRIPT with one record per loop iteration (the record in force is the one
whose index is the number of invocations that have returned so far):
    {"wait": o | None,      dispose() from another thread o us after the loop entered disposed.wait
                            (acts iff the flag is not yet set and 0 <= o < timeout)
     "pre": bool,           dispose() from another thread after the wait, before disposed.is_set()
     "win": bool,           dispose() from another thread after is_set() returned False, before action(state)
     "dur": d,              clock time the invocation takes
     "in": [o, who] | None, dispose() o us into the invocation (clipped to [0, d]); who = "self" | "foreign"
     "raise": bool}         the invocation raises ActionError instead of returning
Time passes ONLY inside disposed.wait (to the instant of the waking dispose(), else by exactly the
timeout) and inside the action: zero thread-scheduling delay and zero Event.wait wake-up latency.

A CASE: {"period": us, "period_as": "timedelta" | "float", "c0": us, "fn": name, "st0": value,
         "d0": bool, "iters": [record...], "factory": "param" | "default", "post": bool,
         "sched": "newthread" (default) | "threadpool"}
"threadpool": the scheduler is ThreadPoolScheduler(max_workers=2), which INHERITS the loop and runs it through its own
thread factory (ThreadPoolThread.start() = executor.submit(run)); the name `ThreadPoolExecutor` seen by
reactivex.scheduler.threadpoolscheduler is rebound to `CExec`, whose submit() starts the controlled thread.
Log entries: (kind, clock_us, data, who) with kind in
    threadrun wait test inv end raise disp dispret postdisp cap note
"""
from __future__ import annotations

import threading
from datetime import datetime, timedelta, timezone

import k3_time as kt
import lib

lib.import_repo()
import reactivex.internal.concurrency as CONC  # noqa: E402
import reactivex.scheduler.newthreadscheduler as NTM  # noqa: E402
import reactivex.scheduler.scheduler as SCH  # noqa: E402
import reactivex.scheduler.threadpoolscheduler as TPM  # noqa: E402

_Sem = threading.Semaphore
_Thread = threading.Thread
_get_ident = threading.get_ident

EPOCH = datetime(2030, 1, 1, tzinfo=timezone.utc)
HANG_S = 10.0
NONE_ID = -1000000           # id of Python None in the model's state type Z

CUR = None                   # the Env of the run in progress


class DriverError(BaseException):
    """machinery failure; BaseException: library code must not swallow it"""


class Abort(BaseException):
    """unwinds the loop thread when a run is abandoned"""


class Cap(BaseException):
    """the loop went on for more iterations than the case allows"""


class ActionError(Exception):
    """the scripted exception of an invocation"""


# --------------------------------------------------------------------------
# the action's state transformers (pure; inputs of a case)
# --------------------------------------------------------------------------

JUMP = {0: 7, 7: None, None: -3, -3: 0}
FNS = {
    "count": lambda s: s + 1,
    "cycle3": lambda s: (s + 1) % 3,
    "jump": lambda s: JUMP[s],           # a None in the middle of the chain
    "none": lambda s: None,              # always returns None: None is threaded
    "same": lambda s: s,
}
ST0 = {"count": 0, "cycle3": 0, "jump": 0, "none": 5, "same": 4}


def sid(v):
    """id of a state value in the model"""
    if v is None:
        return NONE_ID
    if isinstance(v, bool) or not isinstance(v, int):
        raise ValueError(f"state {v!r} has no id")
    return v


def table_of(case, n):
    """finite table of the transformer on the states reachable within n calls"""
    f, s, out, seen = FNS[case["fn"]], case["st0"], [], set()
    for _ in range(n):
        if sid(s) in seen:
            break
        seen.add(sid(s))
        t = f(s)
        out.append((sid(s), sid(t)))
        s = t
    return out


# --------------------------------------------------------------------------
# controlled primitives
# --------------------------------------------------------------------------

class CEvt:
    """threading.Event of the module under test"""

    def __init__(self):
        env = CUR
        if env is None:
            raise DriverError("Event() outside a controlled run")
        self.env = env
        self._flag = False
        self.sets = 0
        env.events.append(self)

    def set(self):
        self.sets += 1
        self._flag = True

    def clear(self):
        self._flag = False

    def is_set(self):
        env = self.env
        if not env.on_loop():
            return self._flag
        env.resumed()
        env.fire_upto(1)                     # "pre": another thread disposes just before the test
        r = self._flag
        env.emit("test", bool(r))
        if not r:
            env.phase = "tested"
            env.fire_upto(2)                 # "win": ... just after the test reported False
        return r

    isSet = is_set

    def wait(self, timeout=None):
        return self.env.wait(self, timeout)


class CThr:
    """threading.Thread / the Startable returned by the thread factory"""

    def __init__(self, group=None, target=None, name=None, args=(), kwargs=None, *, daemon=None):
        env = CUR
        if env is None:
            raise DriverError("Thread() outside a controlled run")
        self.env = env
        self._target, self._args, self._kwargs = target, args, kwargs or {}
        self.daemon = daemon
        self.name = name or "controlled"
        self.started = False

    def start(self):
        if self.started:
            raise RuntimeError("threads can only be started once")
        self.started = True
        self.env.start_thread(self)

    def is_alive(self):
        return self.started and self.env.outcome is None

    def join(self, timeout=None):
        raise DriverError("join on the controlled thread")


class CExec:
    """concurrent.futures.ThreadPoolExecutor of the module under test: submit(fn) runs fn on the controlled thread"""

    def __init__(self, max_workers=None, **kw):
        if CUR is None:
            raise DriverError("ThreadPoolExecutor() outside a controlled run")
        self.max_workers = max_workers
        self.submitted = 0

    def submit(self, fn, *args, **kwargs):
        self.submitted += 1
        CUR.emit("note", "executor.submit", "main")
        th = CThr(target=fn, args=args, kwargs=kwargs, daemon=True)
        th.start()
        return th            # stands for the Future (only .cancel() is ever used on it, by nobody here)

    def shutdown(self, wait=True, **kw):
        pass


class Env:
    def __init__(self, case):
        self.case = case
        self.clk = int(case["c0"])
        self.iters = case["iters"]
        self.cap = len(self.iters) + 3
        self.tail = {"wait": None, "pre": False, "win": False, "dur": int(case.get("tail_dur", 0)),
                     "in": None, "raise": False}
        self.log = []
        self.k = 0                    # invocations that have returned (= index of the record in force)
        self.started_invs = 0
        self.fired = set()
        self.phase = "idle"           # idle | tested | inaction
        self.main_sem, self.loop_sem = _Sem(0), _Sem(0)
        self.request = None
        self.outcome = None
        self.crash = None
        self.abort = False
        self.loop_ident = None
        self.handle = None
        self.events, self.threads = [], []
        self.fn = FNS[case["fn"]]
        self.returned = []            # (state passed in, value returned) per completed invocation

    # -- bookkeeping -----------------------------------------------------------
    def emit(self, kind, data=None, who=None):
        self.log.append((kind, self.clk, data, who if who is not None else ("loop" if self.on_loop() else "main")))

    def on_loop(self):
        return self.loop_ident is not None and _get_ident() == self.loop_ident

    def rec(self):
        return self.iters[self.k] if self.k < len(self.iters) else self.tail

    def resumed(self):
        if self.abort:
            raise Abort()

    def now(self):
        """replacement of default_now"""
        if self.on_loop():
            self.resumed()
            if self.phase == "tested":
                self.fire_upto(2)
        return EPOCH + timedelta(microseconds=self.clk)

    # -- dispose() calls ---------------------------------------------------------
    def foreign_dispose(self, where):
        """the loop thread parks here; the MAIN thread calls dispose() of the returned disposable"""
        self.emit("disp", where, "foreign")
        if not self.on_loop():
            # the loop does not run on the controlled thread (schedule_periodic changed): dispose in place
            if self.handle is not None:
                self.handle.dispose()
            self.emit("dispret", where, "foreign")
            return
        self.request = "dispose"
        self.main_sem.release()
        self.loop_sem.acquire()
        self.resumed()

    def self_dispose(self, where):
        self.emit("disp", where, "self")
        if self.handle is not None:
            self.handle.dispose()
        self.emit("dispret", where, "self")

    def fire_upto(self, level):
        r = self.rec()
        if r.get("pre") and (self.k, "pre") not in self.fired:
            self.fired.add((self.k, "pre"))
            self.foreign_dispose("pre")
        if level >= 2 and r.get("win") and (self.k, "win") not in self.fired:
            self.fired.add((self.k, "win"))
            self.foreign_dispose("win")

    # -- Event.wait ---------------------------------------------------------------
    def wait(self, evt, timeout):
        if not self.on_loop():
            if evt._flag:
                return True
            raise DriverError("the main thread would block on the controlled event")
        self.resumed()
        us = None if timeout is None else int(round(timeout * 1e6))
        self.emit("wait", us)
        if evt._flag:
            return True
        o = self.rec().get("wait")
        if o is not None and (self.k, "wait") not in self.fired and 0 <= o and (us is None or o < us):
            self.fired.add((self.k, "wait"))
            self.clk += o
            self.foreign_dispose("wait")
            return evt._flag
        if us is None:
            self.emit("note", "wait() without timeout and nobody disposes: blocked for ever")
            self.crash = "blocked-forever"
            raise Abort()
        self.clk += max(0, us)
        return evt._flag

    # -- the periodic action --------------------------------------------------------
    def action(self, state):
        if not self.on_loop() and self.loop_ident is not None:
            raise DriverError("the action is invoked on a foreign thread")
        self.resumed()
        if self.started_invs >= self.cap:
            self.emit("cap", self.started_invs)
            raise Cap()
        self.fire_upto(2)
        r = self.rec()
        self.phase = "inaction"
        self.started_invs += 1
        try:
            self.emit("inv", sid(state))
        except ValueError:
            self.emit("inv", repr(state))
        d = max(0, int(r["dur"]))
        if r.get("in") is not None:
            o, who = r["in"]
            o = min(max(0, int(o)), d)
            self.clk += o
            if who == "self":
                self.self_dispose("in")
            else:
                self.foreign_dispose("in")
            self.clk += d - o
        else:
            self.clk += d
        if r.get("raise"):
            self.emit("raise", None)
            self.k += 1
            self.phase = "idle"
            raise ActionError("scripted")
        ret = self.fn(state)
        self.returned.append((state, ret))
        self.emit("end", sid(ret))
        self.k += 1
        self.phase = "idle"
        return ret

    # -- the controlled thread ---------------------------------------------------------
    def factory(self, target):
        return CThr(target=target, daemon=True)

    def start_thread(self, cthr):
        self.threads.append(cthr)
        if len(self.threads) > 1:
            self.emit("note", "a second thread was started")
            return

        def body():
            self.loop_ident = _get_ident()
            self.loop_sem.acquire()            # nothing runs before the main thread grants the baton
            try:
                if self.abort:
                    return
                self.emit("threadrun", None, "loop")
                cthr._target(*cthr._args, **cthr._kwargs)
                self.outcome = "stopped"
            except Abort:
                self.outcome = self.crash or "aborted"
            except Cap:
                self.outcome = "running"
            except ActionError:
                self.outcome = "died"
            except Exception as e:          # as threading does: the thread dies
                self.outcome = "crashed"
                self.crash = f"{type(e).__name__}: {e}"[:200]
            except BaseException as e:      # noqa: a crash of the driver itself
                self.outcome = "driver-error"
                self.crash = repr(e)[:200]
            finally:
                self.request = "done"
                self.main_sem.release()
        th = _Thread(target=body, daemon=True)
        cthr._real = th
        th.start()


# --------------------------------------------------------------------------
# rebinding
# --------------------------------------------------------------------------

def _now():
    env = CUR
    if env is None:
        return datetime.now(timezone.utc)
    return env.now()


class rebound:
    """controlled Event / Thread / clock in the (already imported) reactivex modules; restored on exit.
    Fail-closed: a missing name means the module changed."""

    def __enter__(self):
        self.undo = []
        shim = kt.threading_shim()
        shim.Event = CEvt
        shim.Thread = CThr
        for m, name, new in ((NTM, "threading", shim), (CONC, "Thread", CThr), (SCH, "default_now", _now),
                             (TPM, "ThreadPoolExecutor", CExec)):
            if not hasattr(m, name):
                raise DriverError(f"{m.__name__} has no name {name}: the module changed")
            self.undo.append((m, name, getattr(m, name)))
            setattr(m, name, new)
        return self

    def __exit__(self, *a):
        for m, name, old in reversed(self.undo):
            setattr(m, name, old)
        return False


# --------------------------------------------------------------------------
# one run
# --------------------------------------------------------------------------

class Result:
    pass


def run_case(case):
    """must be called inside `with rebound():`"""
    global CUR
    if CUR is not None:
        raise DriverError("nested run")
    env = Env(case)
    CUR = env
    r = Result()
    r.error = None
    try:
        from reactivex.scheduler import NewThreadScheduler, ThreadPoolScheduler
        if case.get("sched") == "threadpool":
            sch = ThreadPoolScheduler(max_workers=2)
        else:
            sch = NewThreadScheduler(thread_factory=env.factory) if case.get("factory") == "param" \
                else NewThreadScheduler()
        p = int(case["period"])
        period = timedelta(microseconds=p) if case.get("period_as", "timedelta") == "timedelta" else p / 1e6
        env.emit("note", "schedule_periodic", "main")
        try:
            env.handle = sch.schedule_periodic(period, env.action, case["st0"])
        except (Exception, DriverError, Cap, Abort) as e:
            # DriverError: e.g. the loop ran inside the call (on the calling thread) and reached the controlled wait
            r.error = f"schedule_periodic raised {type(e).__name__}: {e}"[:300]
        if r.error is None:
            if case.get("d0"):
                env.emit("disp", "before-start", "foreign")
                env.handle.dispose()
                env.emit("dispret", "before-start", "foreign")
            if not env.threads:
                env.outcome = "no-thread"
            else:
                env.loop_sem.release()
                while True:
                    if not env.main_sem.acquire(timeout=HANG_S):
                        env.outcome = "hang"
                        env.abort = True
                        env.loop_sem.release()
                        break
                    if env.request == "dispose":
                        env.request = None
                        where = env.log[-1][2]
                        env.handle.dispose()
                        env.emit("dispret", where, "foreign")
                        env.loop_sem.release()
                        continue
                    if env.request == "done":
                        break
                    raise DriverError(f"unknown request {env.request!r}")
            if case.get("post"):
                try:
                    env.handle.dispose()
                    env.emit("postdisp", "ok", "foreign")
                except Exception as e:
                    env.emit("postdisp", f"{type(e).__name__}: {e}"[:200], "foreign")
    finally:
        CUR = None
    r.log = [tuple(e) for e in env.log]
    r.outcome = env.outcome
    r.crash = env.crash
    r.returned = list(env.returned)
    r.final_clock = env.clk
    r.nthreads = len(env.threads)
    r.sets = [e.sets for e in env.events]
    return r


# --------------------------------------------------------------------------
# Gallina
# --------------------------------------------------------------------------

IMPORTS = "Base.Prelude Core.NewThreadPeriodic"
CASE_TY = "(Z * list (Z * Z) * Z * Z * bool * list iter) * (list (ev Z) * outcome)"
MODEL_FN = ("(fun c : Z * list (Z * Z) * Z * Z * bool * list iter => let '(p, tb, st0, c0, d0, sc) := c in "
            "periodic p (tlookup tb 0) st0 c0 d0 sc)")
EQB = "result_eqb"
OUTCOME = {"stopped": "Stopped", "died": "Died", "running": "Running"}


def g_iter(r):
    o_in = None if r.get("in") is None else r["in"][0]
    return (f"Iter {lib.gopt(r.get('wait'))} {lib.gbool(r.get('pre'))} {lib.gbool(r.get('win'))} "
            f"{lib.gz(r['dur'])} {lib.gopt(o_in)} {lib.gbool(r.get('raise'))}")


def g_case(case, r):
    tb = table_of(case, len(case["iters"]) + 6)
    inp = (f"({lib.gz(case['period'])}, [{'; '.join(f'({lib.gz(a)}, {lib.gz(b)})' for a, b in tb)}], "
           f"{lib.gz(sid(case['st0']))}, {lib.gz(case['c0'])}, {lib.gbool(case.get('d0'))}, "
           f"[{'; '.join(g_iter(x) for x in case['iters'])}])")
    evs = []
    for kind, clk, data, who in r.log:
        if kind == "wait":
            evs.append(f"EWait {lib.gz(clk)} {lib.gz(data if data is not None else -1)}")
        elif kind == "test":
            evs.append(f"ETest {lib.gz(clk)} {lib.gbool(data)}")
        elif kind == "inv":
            evs.append(f"EInv {lib.gz(clk)} {lib.gz(data) if isinstance(data, int) else '(-7777777)'}")
        elif kind == "end":
            evs.append(f"EEnd {lib.gz(clk)}")
        elif kind == "raise":
            evs.append(f"ERaise {lib.gz(clk)}")
        elif kind == "disp":
            evs.append(f"EDisp {lib.gz(clk)}")
    out = OUTCOME.get(r.outcome)
    if out is None or r.error:
        evs.append("EWait (-1) (-1)")        # hang / no thread / crash: never equal to a model trace
        out = "Running"
    return inp, f"([{'; '.join(evs)}], {out})"


# --------------------------------------------------------------------------
# oracle: the property text on the log, never the model
# --------------------------------------------------------------------------

def oracle(case, r):
    """-> [(signature, message)].

    From the statement: the action is called repeatedly with the state returned by the previous call
    (the first with the initial state), once per period, it stops once the returned disposable is
    disposed and stops after the action raises.  Made precise for a loop on its own thread under the
    controlled (zero-latency) clock:
      * threading: invocation k+1 is handed the object invocation k returned;
      * stop: an invocation must NOT start if some dispose() call had RETURNED
          - before the previous invocation returned (dispose during / from inside that invocation,
            or earlier), or before the loop thread executed its first instruction (first invocation), or
          - at an earlier clock instant than the start.
        NOT demanded: that a dispose() from another thread which returns at the very instant of the
        start, after the previous invocation returned, prevents that start (the loop may already be past
        its last look at the flag: best effort, as the docstring says);
      * no invocation after one raised;
      * period: starts are never less than a period apart, the first one not earlier than one period
        after scheduling; exactly one period when the previous invocation did not take longer than the
        period (time passes only in the wait and in the action here), exactly one period after
        scheduling for the first;
      * it keeps going: the loop ends only after a dispose() or a raising invocation."""
    bad = []
    tag = "C35 " + case.get("sched", "newthread") + "|"
    p, c0 = int(case["period"]), int(case["c0"])
    log = r.log
    if r.error:
        return [(tag + "schedule_periodic-raised", r.error)]
    if r.outcome in ("hang", "no-thread", "blocked-forever", "aborted", "driver-error"):
        bad.append((tag + f"{r.outcome}", f"outcome {r.outcome} {r.crash or ''}"))
    if r.outcome == "crashed":
        bad.append((tag + "loop-crashed", f"the loop thread died: {r.crash}"))
    invs = [(i, e[1], e[2]) for i, e in enumerate(log) if e[0] == "inv"]
    ends = [(i, e[1], e[2]) for i, e in enumerate(log) if e[0] in ("end", "raise")]
    raises = [i for i, e in enumerate(log) if e[0] == "raise"]
    disprets = [(i, e[1], e[2], e[3]) for i, e in enumerate(log) if e[0] == "dispret"]
    threadrun = next((i for i, e in enumerate(log) if e[0] == "threadrun"), None)
    # threading
    if invs and invs[0][2] != sid(case["st0"]):
        bad.append((tag + "first-state-not-initial", f"first invocation got {invs[0][2]}"))
    for k in range(1, len(invs)):
        if k - 1 < len(r.returned):
            want = r.returned[k - 1][1]
            got = invs[k][2]
            if got != sid(want):
                bad.append((tag + "state-not-threaded",
                            f"invocation {k} got state id {got}, invocation {k - 1} returned {want!r}"))
    # stop after dispose
    for k, (i, clk, _) in enumerate(invs):
        for (j, dclk, where, who) in disprets:
            if j > i:
                break
            if k >= 1 and k - 1 < len(ends) and j < ends[k - 1][0]:
                took = ends[k - 1][1] - invs[k - 1][1]
                cls = ("period-not-positive" if p <= 0 else
                       "previous-invocation-took-at-least-the-period" if took >= p else
                       "previous-invocation-shorter-than-period")
                bad.append((tag + f"invoked-after-dispose|dispose-returned-before-previous-invocation-ended|{cls}",
                            f"invocation {k} started at {clk}; dispose() ({who}, {where}) had returned at {dclk}, "
                            f"before invocation {k - 1} ended at {ends[k - 1][1]}"))
                break
            if k == 0 and threadrun is not None and j < threadrun:
                bad.append((tag + "invoked-after-dispose|dispose-returned-before-thread-ran",
                            f"invocation 0 started at {clk}; dispose() had returned at {dclk} before the "
                            f"new thread executed its first instruction"))
                break
            if dclk < clk:
                bad.append((tag + "invoked-after-dispose|dispose-returned-at-earlier-instant",
                            f"invocation {k} started at {clk}; dispose() ({who}, {where}) had returned at {dclk}"))
                break
    # stop after raise
    if raises and any(i > raises[0] for i, _, _ in invs):
        bad.append((tag + "invoked-after-raise", "an invocation started after one raised"))
    # period
    if invs:
        first = invs[0][1]
        if first < c0 + p:
            bad.append((tag + "first-call-early", f"first invocation at {first}, scheduled at {c0}, period {p}"))
        elif p >= 0 and first != c0 + p:
            bad.append((tag + "first-call-not-one-period-after-scheduling",
                        f"first invocation at {first}, scheduled at {c0}, period {p}"))
    for k in range(len(invs) - 1):
        a, b = invs[k][1], invs[k + 1][1]
        took = ends[k][1] - a if k < len(ends) else None
        if b < a + p:
            bad.append((tag + "calls-closer-than-period", f"invocations {k}, {k + 1} at {a}, {b}; period {p}"))
        elif p >= 0 and took is not None and took <= p and b != a + p:
            bad.append((tag + "period-not-kept",
                        f"invocation {k} at {a} took {took} <= period {p}, the next one started at {b}"))
    # keeps going
    if r.outcome == "stopped" and not disprets:
        bad.append((tag + "stopped-without-dispose", "run() returned although nobody disposed"))
    if r.outcome == "running" and not any("invoked-after-" in b[0] for b in bad):
        bad.append((tag + "did-not-stop", f"still invoking after {len(invs)} invocations (cap)"))
    for e in log:
        if e[0] == "postdisp" and e[2] != "ok":
            bad.append((tag + "second-dispose-raised", str(e[2])))
        if e[0] == "note" and e[2] == "a second thread was started":
            bad.append((tag + "second-thread", "schedule_periodic started more than one thread"))
    return bad


def size_of(case):
    return 10 * len(case["iters"]) + sum(1 for r in case["iters"] for k in ("wait", "in") if r.get(k) is not None) \
        + sum(1 for r in case["iters"] for k in ("pre", "win", "raise") if r.get(k))


# --------------------------------------------------------------------------
# case generation
# --------------------------------------------------------------------------

def rec(dur=0, wait=None, pre=False, win=False, inn=None, rz=False):
    return {"wait": wait, "pre": pre, "win": win, "dur": dur, "in": inn, "raise": rz}


def sentinel(dur=0):
    """guarantees termination: another thread disposes before the test"""
    return rec(dur=dur, pre=True)


def exhaustive_cases(tier):
    """every single record of a small domain, as the first iteration and as the second one after a
    short / an overrunning predecessor; followed by a quiet iteration and the sentinel"""
    out = []
    for p in (0, 1000):
        waits = [None, 0, p // 2, p - 1, p] if p else [None, 0]
        durs = [0, p // 2, p, 2 * p + 1] if p else [0, 5]
        for w in waits:
            for pre in (False, True):
                for win in (False, True):
                    for d in durs:
                        for inn in (None, [0, "self"], [d, "foreign"], [d // 2, "self"]):
                            for rz in (False, True):
                                r1 = rec(d, w, pre, win, inn, rz)
                                tail = [rec(p // 2), sentinel()]
                                for prefix in ([], [rec(p // 4)], [rec(2 * p + 3)]):
                                    out.append({"period": p, "period_as": "timedelta", "c0": 0, "fn": "count",
                                                "st0": 0, "d0": False, "iters": prefix + [r1] + tail,
                                                "factory": "param", "post": False, "family": "exhaustive-1"})
    if tier != "quick":
        # two consecutive records over a reduced domain
        p = 1000
        dom = []
        for w in (None, 0, p - 1):
            for pre in (False, True):
                for win in (False, True):
                    for d in (0, p, 2 * p + 1):
                        for inn in (None, [d // 2, "self"], [d, "foreign"]):
                            dom.append(rec(d, w, pre, win, inn, False))
        for a in dom:
            for b in dom:
                out.append({"period": p, "period_as": "float", "c0": 500, "fn": "jump", "st0": 0, "d0": False,
                            "iters": [a, b, rec(p // 2), sentinel()], "factory": "default", "post": True,
                            "family": "exhaustive-2"})
    return out


PERIODS = [0, 1, 1000, 250000, 1000000, 3000000]


def random_case(rng, tier):
    p = rng.choice(PERIODS + [rng.randrange(2, 5000)])
    if rng.random() < 0.03:
        p = -1000                     # a negative period: nothing is ever waited for
    P = max(p, 1)
    n = rng.randrange(1, 9 if tier == "quick" else 20)

    def dur():
        return rng.choice([0, 0, P // 4, P // 2, P - 1, P, P + 1, 2 * P, 3 * P + 7, rng.randrange(0, 3 * P + 1)])
    iters = [rec(dur()) for _ in range(n)]
    how = rng.choice(["wait", "wait", "pre", "win", "in-self", "in-self", "in-foreign", "in-foreign", "raise",
                      "d0", "none", "twice", "twice", "overrun-in", "overrun-in"])
    j = rng.randrange(n)
    d0 = False

    def put(r, kind):
        d = r["dur"]
        if kind == "wait":
            r["wait"] = rng.choice([0, 1, P // 2, P - 1, P, P + 5, rng.randrange(0, P + 1)])
        elif kind == "pre":
            r["pre"] = True
        elif kind == "win":
            r["win"] = True
        elif kind == "in-self":
            r["in"] = [rng.choice([0, d // 2, d, d + 3, -1]), "self"]
        elif kind == "in-foreign":
            r["in"] = [rng.choice([0, d // 2, d]), "foreign"]
        elif kind == "raise":
            r["raise"] = True
    if how == "d0":
        d0 = True
    elif how == "twice":
        for kind in rng.sample(["wait", "pre", "win", "in-self", "in-foreign"], 2):
            put(iters[j], kind)
        if j + 1 < n and rng.random() < 0.5:
            put(iters[j + 1], rng.choice(["wait", "pre", "in-self"]))
    elif how == "overrun-in":
        # an invocation that takes at least the whole period and is disposed while it runs
        iters[j]["dur"] = rng.choice([P, P + 1, 2 * P, 3 * P + 7])
        put(iters[j], rng.choice(["in-self", "in-foreign"]))
        if j > 0 and rng.random() < 0.5:
            iters[j - 1]["dur"] = rng.choice([P, 2 * P])
    elif how != "none":
        put(iters[j], how)
    if rng.random() < 0.15:
        put(iters[rng.randrange(n)], rng.choice(["wait", "pre", "win", "in-self", "in-foreign", "raise"]))
    iters.append(sentinel(dur()))
    fn = rng.choice(list(FNS))
    return {"period": p, "period_as": rng.choice(["timedelta", "float"]), "c0": rng.choice([0, 200, 7000000]),
            "fn": fn, "st0": ST0[fn], "d0": d0, "iters": iters, "factory": rng.choice(["param", "default"]),
            "post": rng.random() < 0.3, "family": "random:" + how}
