"""Scheduler-PRECEDENCE family for the time-based operators of C15, C16 and C17 (oracle only).

Every operator of these three properties that accepts a `scheduler` argument resolves the scheduler it works
with as   operator argument  >  scheduler handed to subscribe()  >  the library default
(`scheduler or scheduler_ or TimeoutScheduler.singleton()`).  The tables and the other families of C15-C17
pass ONE scheduler (to the operator or to subscribe), so a swapped precedence is invisible to them.  Here the
operator is run with THREE hand-stepped virtual clocks at once:

  S1  given to the operator          (clock starts at 5000 s)
  S2  given to subscribe()           (clock starts at 70 s)
  S0  installed as TimeoutScheduler.singleton() for the duration of the case (clock starts at 900000 s)

in four configurations: both (S1 + S2 -> everything on S1), op_only (S1, plain subscribe -> S1), sub_only
(no operator scheduler, S2 at subscribe -> S2), neither (-> the default, S0).  The scheduler that must be
used (E) runs at rate 1 against the scenario's timeline; the two others are frozen, run at the same rate or
run three times as fast (parameter), so a timer armed on / a reading taken from the wrong one changes the
end-to-end output as well.

Oracle (two independent parts, both written from the property text):
  * recording: the schedulers are recording wrappers -- every schedule_relative / schedule_absolute (a TIMER)
    and every `now` read is counted per scheduler.  Timers and clock readings on a scheduler other than E are
    a violation.  Immediate `schedule(action)` calls are counted but allowed anywhere (delay_subscription's
    `empty()` legitimately completes through the subscribe-time scheduler); all three queues are flushed after
    every step, so they never delay anything.
  * end to end: the notifications, stamped with E's clock (relative to its start), equal a reference computed
    from the timeline.  Timelines are tie-free by construction (all event instants have distinct non-zero
    residues mod 10, all durations are multiples of 10), so no same-instant order is ever at stake.
    timestamp under `neither`: defer() hands its factory ImmediateScheduler when subscribe() got none, so the
    reading may be S0's or the wall clock's; both are accepted.

Nothing escapes: the whole run sits under lib.with_timeout, every exception (RecursionError included) becomes
a violation record.
"""
import datetime as dt
import json
import random
import threading

from k2 import UserError

OPS = {
    "C15": ["delay", "delay_abs", "delay_subscription", "timestamp", "time_interval"],
    "C16": ["debounce", "throttle_with_timeout", "throttle_first", "sample"],
    "C17": ["take_with_time", "skip_with_time", "take_until_with_time", "skip_until_with_time",
            "take_last_with_time", "skip_last_with_time", "timeout", "timeout_other"],
}
CONFIGS = ["both", "both", "both", "op_only", "sub_only", "neither"]
EXPECTED = {"both": 1, "op_only": 1, "sub_only": 2, "neither": 0}
BASE = {0: 900000, 1: 5000, 2: 70}          # clock readings (seconds after the epoch) at the start
HORIZON = 150
DOC = ("scheduler precedence: operator scheduler S1, subscribe-time scheduler S2 and the default S0 are three "
       "recording hand-stepped virtual clocks with different readings; timers and clock readings must be on the "
       "operator's scheduler if given, else on the subscribe-time one, else on the default")


def epoch(seconds):
    from reactivex.internal.constants import UTC_ZERO
    return UTC_ZERO + dt.timedelta(seconds=seconds)


def make_clock(ident):
    """a recording, hand-stepped virtual-time scheduler (own queue; conversions and invoke_action inherited from
    the library's Scheduler/PeriodicScheduler base)"""
    from reactivex.disposable import Disposable
    from reactivex.scheduler.periodicscheduler import PeriodicScheduler

    class Clock(PeriodicScheduler):
        def __init__(self):
            self.ident = ident
            self.base = epoch(BASE[ident])
            self._clock = self.base
            self.queue = []
            self.seq = 0
            self.n_now = 0
            self.n_timers = 0
            self.n_immediate = 0
            self.log = []

        @property
        def now(self):
            self.n_now += 1
            return self._clock

        def rel_ms(self):
            return int(round((self._clock - self.base).total_seconds() * 1000))

        def _enqueue(self, due, action, state):
            item = [due, self.seq, action, state, False]
            self.seq += 1
            self.queue.append(item)

            def cancel():
                item[4] = True
            return Disposable(cancel)

        def schedule(self, action, state=None):
            self.n_immediate += 1
            return self._enqueue(self._clock, action, state)

        def schedule_relative(self, duetime, action, state=None):
            self.n_timers += 1
            d = self.to_timedelta(duetime)
            self.log.append(["relative", round(d.total_seconds() * 1000)])
            return self._enqueue(self._clock + max(d, dt.timedelta(0)), action, state)

        def schedule_absolute(self, duetime, action, state=None):
            self.n_timers += 1
            due = self.to_datetime(duetime)
            self.log.append(["absolute", round((due - self.base).total_seconds() * 1000)])
            return self._enqueue(max(due, self._clock), action, state)

        def run_until(self, target):
            """run what is due up to `target` (a datetime) in (due, request) order; -> whether anything ran"""
            ran = False
            budget = 10000
            while True:
                live = [it for it in self.queue if not it[4]]
                self.queue = live
                due = [it for it in live if it[0] <= target]
                if not due:
                    break
                it = min(due, key=lambda i: (i[0], i[1]))
                self.queue.remove(it)
                if it[0] > self._clock:
                    self._clock = it[0]
                ran = True
                budget -= 1
                if budget <= 0:
                    raise RuntimeError("scheduler queue does not drain")
                self.invoke_action(it[2], it[3])
            if target > self._clock:
                self._clock = target
            return ran

        def flush(self):
            return self.run_until(self._clock)
    return Clock()


class Hot:
    def __init__(self, clock):
        import reactivex
        from reactivex.disposable import Disposable
        self.observers = []
        self.sub_sched = []
        self.sub_at = []
        self.stopped = False

        def subscribe(observer, scheduler=None):
            self.observers.append(observer)
            self.sub_sched.append(scheduler)
            self.sub_at.append(clock())

            def dispose():
                self.observers[:] = [o for o in self.observers if o is not observer]
            return Disposable(dispose)
        self.observable = reactivex.Observable(subscribe)

    def push(self, ev):
        if self.stopped:
            return
        if ev[0] != "N":
            self.stopped = True
        for o in list(self.observers):
            if ev[0] == "N":
                o.on_next(ev[1])
            elif ev[0] == "E":
                o.on_error(UserError(ev[1]))
            else:
                o.on_completed()


# ---------------------------------------------------------------------------------------------
# generation

def gen(rng, pid):
    op = rng.choice(OPS[pid])
    n = rng.choice([1, 2, 2, 3, 3, 4])
    term = rng.choice(["C", "C", "C", "E", None])
    k = n + (1 if term else 0)
    residues = rng.sample(range(1, 10), k)
    times = sorted(10 * rng.randrange(0, 5) + r for r in residues)
    events = [[times[i], "N", i + 1] for i in range(n)]
    if term == "C":
        events.append([times[n], "C"])
    elif term == "E":
        events.append([times[n], "E", 11])
    return {"op": op, "config": rng.choice(CONFIGS), "d": rng.choice([10, 20, 20, 30]), "events": events,
            "other_rate": rng.choice([0, 0, 1, 3]), "step_order": rng.choice(["expected_first", "expected_last"]),
            "as": rng.choice(["float", "timedelta"])}


# ---------------------------------------------------------------------------------------------
# references (tie-free timelines; times relative to the expected scheduler's start)

def reference(p):
    """-> dict(out=[...] exact expectation) or dict(values=[...], term=[...]) for skip_last (delivery instants of
    the elements are left open by the text)"""
    op, D = p["op"], p["d"]
    ev = p["events"]
    el = [(e[0], e[2]) for e in ev if e[1] == "N"]
    term = next((e for e in ev if e[1] != "N"), None)
    tterm = term[0] if term else None
    tm = [] if term is None else [[term[0], "C"]] if term[1] == "C" else [[term[0], "E", term[2]]]
    N = lambda t, v: [t, "N", v]
    if op in ("delay", "delay_abs"):
        if term and term[1] == "E":
            return {"out": [N(t + D, v) for t, v in el if t + D < tterm] + tm}
        out = [N(t + D, v) for t, v in el]
        if term and tterm + D <= HORIZON:
            out.append([tterm + D, "C"])
        return {"out": [o for o in out if o[0] <= HORIZON]}
    if op == "delay_subscription":
        if term and tterm < D:
            return {"out": [], "sub_at": D}
        return {"out": [N(t, v) for t, v in el if t > D] + tm, "sub_at": D}
    if op == "timestamp":
        return {"out": [N(t, [v, t]) for t, v in el] + tm}
    if op == "time_interval":
        out, last = [], 0
        for t, v in el:
            out.append(N(t, [v, t - last]))
            last = t
        return {"out": out + tm}
    if op in ("debounce", "throttle_with_timeout"):
        out = []
        for i, (t, v) in enumerate(el):
            nxt = el[i + 1][0] if i + 1 < len(el) else None
            if nxt is not None and nxt < t + D:
                continue
            if term and tterm < t + D:
                if term[1] == "C":
                    out.append(N(tterm, v))
                continue
            if t + D <= HORIZON:
                out.append(N(t + D, v))
        return {"out": out + tm}
    if op == "throttle_first":
        out, last = [], None
        for t, v in el:
            if last is None or t - last >= D:
                out.append(N(t, v))
                last = t
        return {"out": out + tm}
    if op == "sample":
        # elements: exact; the instant of the completion is left open by the text (not before the source's)
        out, idx = [], 0
        stop = tterm if term else HORIZON + 1
        tick = D
        pending = None
        while tick <= HORIZON:
            while idx < len(el) and el[idx][0] < tick:
                pending = el[idx]
                idx += 1
            if term and term[1] == "E" and tterm < tick:
                break
            if pending is not None:
                out.append(N(tick, pending[1]))
                pending = None
            if term and tterm < tick:
                break
            tick += D
        return {"elements": out, "term": term, "stop": stop}
    if op in ("take_with_time", "take_until_with_time"):
        if term and tterm < D:
            return {"out": [N(t, v) for t, v in el] + tm}
        return {"out": [N(t, v) for t, v in el if t < D] + [[D, "C"]]}
    if op in ("skip_with_time", "skip_until_with_time"):
        return {"out": [N(t, v) for t, v in el if t > D] + tm}
    if op == "take_last_with_time":
        if term and term[1] == "C":
            return {"out": [N(tterm, v) for t, v in el if tterm - t < D] + tm}
        return {"out": tm}
    if op == "skip_last_with_time":
        if term and term[1] == "C":
            return {"values": [(t, v) for t, v in el if tterm - t > D], "term": tm, "exact": True}
        end = tterm if term else HORIZON
        return {"values": [(t, v) for t, v in el if end - t > D], "term": tm, "exact": False}
    if op in ("timeout", "timeout_other"):
        out, last = [], 0
        fired = None
        for t, v in el:
            if t > last + D:
                fired = last + D
                break
            out.append(N(t, v))
            last = t
        if fired is None:
            if term and tterm < last + D:
                return {"out": out + tm}
            fired = last + D
        if op == "timeout":
            return {"out": out + [[fired, "E", "lib:Exception"]]}
        return {"out": out + [N(fired, 99), [fired, "C"]]}
    raise KeyError(op)


# ---------------------------------------------------------------------------------------------
# the run

def build(p, hot, s1):
    import reactivex as rx
    from reactivex import operators as ops
    from reactivex.disposable import Disposable
    op, D = p["op"], p["d"]
    kw = {"scheduler": s1} if p["config"] in ("both", "op_only") else {}
    dur = D / 1000.0 if p["as"] == "float" else dt.timedelta(milliseconds=D)
    exp_base = epoch(BASE[EXPECTED[p["config"]]])
    absolute = exp_base + dt.timedelta(milliseconds=D)
    src = hot.observable
    if op == "delay":
        return src.pipe(ops.delay(dur, **kw))
    if op == "delay_abs":
        return src.pipe(ops.delay(absolute, **kw))
    if op == "delay_subscription":
        return src.pipe(ops.delay_subscription(dur, **kw))
    if op == "timestamp":
        return src.pipe(ops.timestamp(**kw))
    if op == "time_interval":
        return src.pipe(ops.time_interval(**kw))
    if op in ("take_until_with_time", "skip_until_with_time"):
        return src.pipe(getattr(ops, op)(absolute, **kw))
    if op == "timeout":
        return src.pipe(ops.timeout(dur, **kw))
    if op == "timeout_other":
        def subscribe(observer, scheduler=None):
            observer.on_next(99)
            observer.on_completed()
            return Disposable()
        return src.pipe(ops.timeout(dur, rx.Observable(subscribe), **kw))
    return src.pipe(getattr(ops, op)(dur, **kw))


def execute(p):
    from reactivex.scheduler import TimeoutScheduler
    clocks = {i: make_clock(i) for i in (0, 1, 2)}
    e = EXPECTED[p["config"]]
    E = clocks[e]
    rate = {i: (1 if i == e else p["other_rate"]) for i in clocks}
    order = [i for i in clocks if i != e]
    order = [e] + order if p["step_order"] == "expected_first" else order + [e]
    hot = Hot(lambda: E.rel_ms())
    out = []
    wall = []
    main = threading.get_ident()

    def enc(v):
        op = p["op"]
        if op == "timestamp":
            stamp = v.timestamp
            ms = int(round((stamp - E.base).total_seconds() * 1000))
            if p["config"] == "neither" and ms != E.rel_ms():
                now = dt.datetime.now(dt.timezone.utc)
                if stamp.tzinfo is None:
                    stamp = stamp.replace(tzinfo=dt.timezone.utc)
                if abs((now - stamp).total_seconds()) < 30:
                    wall.append(1)
                    ms = E.rel_ms()          # a wall-clock reading: accepted under `neither`
            return [v.value, ms]
        if op == "time_interval":
            return [v.value, int(round(v.interval.total_seconds() * 1000))]
        return v

    def rec(kind):
        def f(*a):
            if threading.get_ident() != main:
                out.append(["off-thread", kind])
                return
            t = E.rel_ms()
            if kind == "N":
                out.append([t, "N", enc(a[0])])
            elif kind == "E":
                x = a[0]
                out.append([t, "E", x.code if isinstance(x, UserError) else "lib:" + type(x).__name__])
            else:
                out.append([t, "C"])
        return f

    def settle():
        for _ in range(1000):
            if not any([clocks[i].flush() for i in order]):
                return
        raise RuntimeError("the schedulers never become idle")

    def step_to(tau):
        for i in order:
            c = clocks[i]
            c.run_until(c.base + dt.timedelta(milliseconds=rate[i] * tau))
            settle()

    saved = TimeoutScheduler.__dict__.get("singleton")
    TimeoutScheduler.singleton = classmethod(lambda cls: clocks[0])
    try:
        obs = build(p, hot, clocks[1])
        kw = {"scheduler": clocks[2]} if p["config"] in ("both", "sub_only") else {}
        sub = obs.subscribe(rec("N"), rec("E"), rec("C"), **kw)
        settle()
        for ev in p["events"]:
            step_to(ev[0])
            hot.push(ev[1:])
            settle()
        for tau in range((E.rel_ms() // 10 + 1) * 10, HORIZON + 1, 10):
            step_to(tau)
        sub.dispose()
    finally:
        if saved is not None:
            TimeoutScheduler.singleton = saved
        else:
            del TimeoutScheduler.singleton
    counts = {f"S{i}": {"timers": clocks[i].n_timers, "now": clocks[i].n_now, "immediate": clocks[i].n_immediate,
                        "requests": clocks[i].log[:6]} for i in clocks}
    return {"out": out, "counts": counts, "sub_at": hot.sub_at, "wall": len(wall), "source_got": [
        None if s is None else f"S{s.ident}" if hasattr(s, "ident") else type(s).__name__ for s in hot.sub_sched]}


def judge(p, r):
    """-> (verdict or None, short signature)"""
    e = EXPECTED[p["config"]]
    op = p["op"]
    name = "delay" if op == "delay_abs" else "timeout" if op == "timeout_other" else op
    for i in (0, 1, 2):
        if i == e:
            continue
        c = r["counts"][f"S{i}"]
        if c["timers"] or c["now"]:
            who = {0: "the default scheduler", 1: "the operator's scheduler", 2: "the subscribe-time scheduler"}
            return (f"{name} [{p['config']}]: {c['timers']} timer(s) armed on and {c['now']} clock reading(s) taken "
                    f"from {who[i]} S{i} (requests {c['requests']}); everything must use {who[e]} S{e}",
                    f"{name}: timer / clock reading on the wrong scheduler")
    ref = reference(p)
    out = r["out"]
    sig = f"{name}: output not the one timed by the scheduler that takes precedence"
    if any(o[0] == "off-thread" for o in out):
        return f"{name} [{p['config']}]: notification delivered from another thread: {out}", sig
    if "out" in ref:
        if out != ref["out"]:
            return (f"{name}({p['d']}) [{p['config']}]: notifications (S{e} time, kind, value) {out}, expected "
                    f"{ref['out']}", sig)
        if "sub_at" in ref and r["sub_at"] != [ref["sub_at"]]:
            return f"{name}({p['d']}) [{p['config']}]: source subscribed at {r['sub_at']} on S{e}'s clock", sig
        return None, None
    if "elements" in ref:                                   # sample
        got_el = [o for o in out if o[1] == "N"]
        got_tm = [o for o in out if o[1] != "N"]
        bad = got_el != ref["elements"] or (out and got_tm and out[-1] is not got_tm[-1]) or len(got_tm) > 1
        term = ref["term"]
        if not bad:
            if term is None:
                bad = bool(got_tm)
            elif term[1] == "E":
                bad = got_tm != [[term[0], "E", term[2]]]
            else:
                last_tick = (term[0] // p["d"] + 1) * p["d"]
                if last_tick <= HORIZON:
                    bad = not (len(got_tm) == 1 and got_tm[0][1] == "C" and term[0] <= got_tm[0][0] <= last_tick)
                else:
                    bad = bool(got_tm) and not (got_tm[0][1] == "C" and got_tm[0][0] >= term[0])
        if bad:
            return (f"sample({p['d']}) [{p['config']}]: notifications {out}, expected elements {ref['elements']} and "
                    f"the source's terminal {term} (completion not before the source's, at the next tick at the "
                    f"latest)", sig)
        return None, None
    # skip_last_with_time: which elements, in order, none earlier than its age allows; terminal exact
    got_el = [o for o in out if o[1] == "N"]
    got_tm = [o for o in out if o[1] != "N"]
    want = ref["values"]
    ok = got_tm == ref["term"] and (not got_tm or out[-1] == got_tm[-1])
    vals = [o[2] for o in got_el]
    if ref["exact"]:
        ok = ok and vals == [v for _, v in want]
    else:
        ok = ok and vals == [v for _, v in want][:len(vals)]
    by_v = dict((v, t) for t, v in want)
    ok = ok and all(o[0] >= by_v[o[2]] + p["d"] for o in got_el if o[2] in by_v)
    if not ok:
        return (f"skip_last_with_time({p['d']}) [{p['config']}]: notifications {out}; expected the elements "
                f"{[v for _, v in want]} (those older than the duration at the end), each not before arrival + "
                f"duration, then {ref['term']}", sig)
    return None, None


def run_one(p):
    """-> dict(verdict, sig, got, expected, nontrivial, kinds)"""
    import lib
    kinds = [p["op"], "config " + p["config"], "other clocks x" + str(p["other_rate"])]

    def guarded():
        try:
            return ("ok", execute(p))
        except RecursionError as x:
            return ("exc", "RecursionError: " + str(x)[:80])
        except Exception as x:                                    # noqa: BLE001 -- anything escaping the library
            return ("exc", f"{type(x).__name__}: {str(x)[:160]}")
    st, val = lib.with_timeout(10, guarded)
    name = p["op"]
    if st == "timeout":
        return {"verdict": f"{name} [{p['config']}]: the run did not finish within 10 s", "sig": f"{name}: hang",
                "got": None, "expected": None, "nontrivial": False, "kinds": kinds}
    if val[0] == "exc":
        return {"verdict": f"{name} [{p['config']}]: exception escaped into the driver: {val[1]}",
                "sig": f"{name}: exception escaped", "got": val[1], "expected": None, "nontrivial": False,
                "kinds": kinds}
    r = val[1]
    try:
        verdict, sig = judge(p, r)
        ref = reference(p)
    except Exception as x:                                        # noqa: BLE001 -- malformed output of a changed library
        verdict, sig, ref = f"{name} [{p['config']}]: output cannot be judged ({type(x).__name__}: {x}): {r['out']}", \
            f"{name}: malformed output", None
    return {"verdict": verdict, "sig": sig, "got": r, "expected": ref, "kinds": kinds,
            "nontrivial": verdict is None and len(r["out"]) >= 2}


# ---------------------------------------------------------------------------------------------
# wiring

def run_family(chk, pid, nquick, nthorough):
    n = nquick if chk.tier == "quick" else nthorough
    cov = chk.cov.setdefault("oracle_only_families", {})
    nontrivial, kinds, worst = set(), {}, {}
    wall = 0
    # every (operator, configuration) pair first, then seeded cases
    plans = [(op, cfg) for op in OPS[pid] for cfg in ("both", "op_only", "sub_only", "neither")]
    for k in range(max(n, len(plans))):
        seed = chk.rng.getrandbits(48)
        p = gen(random.Random(seed), pid)
        if k < len(plans):
            p["op"], p["config"] = plans[k]
        r = run_one(p)
        chk.cov["evaluations"] += 1
        for kd in r["kinds"]:
            kinds[kd] = kinds.get(kd, 0) + 1
        if isinstance(r["got"], dict):
            wall += r["got"].get("wall", 0)
        if r["verdict"]:
            size = len(json.dumps(p))
            if r["sig"] not in worst or size < worst[r["sig"]][0]:
                worst[r["sig"]] = (size, p, r)
        elif r["nontrivial"]:
            nontrivial.add(json.dumps(p, sort_keys=True))
    for sig, (size, p, r) in worst.items():
        chk.violation(f"{pid}|sched_prec|{sig}",
                      {"sched_prec": True, "params": p, "what": r["verdict"], "got": r["got"],
                       "expected": r["expected"], "scenario": DOC,
                       "how": "harness/sched_prec.py: run_one(params) drives the real operator with three recording "
                              "hand-stepped clocks and compares the per-scheduler counts and the output with the "
                              "reference; the replay command re-runs it"}, size=size)
    cov["sched_prec"] = {"cases": max(n, len(plans)), "nontrivial_distinct": len(nontrivial),
                         "wall_clock_readings_accepted": wall, "kinds": dict(sorted(kinds.items()))}
    chk.cov["distinct_nontrivial"] = chk.cov.get("distinct_nontrivial", 0) + len(nontrivial)
    return len(nontrivial)


RULE = ("  sched_prec (harness/sched_prec.py) = scheduler precedence: every operator of this property that takes a "
        "scheduler argument run with three recording hand-stepped virtual clocks of different readings -- S1 given "
        "to the operator, S2 given to subscribe(), S0 installed as TimeoutScheduler.singleton() -- in the "
        "configurations both / operator only / subscribe only / neither; the clock that takes precedence runs at "
        "rate 1, the others are frozen, equal or 3x; tie-free timelines of 1-4 elements + completion/error/none, "
        "durations 10/20/30 ms as float or timedelta (absolute datetimes for delay and the *_until_* operators); "
        "violation = a timer armed on / a clock reading taken from a scheduler other than the one that takes "
        "precedence, or an output (stamped with that scheduler's clock) different from the reference; non-trivial = "
        "distinct parameter sets with >= 2 notifications")
TRUSTED = ("harness/sched_prec.py: own recording virtual-time scheduler (queue in (due, request) order, conversions "
           "and invoke_action inherited from reactivex.scheduler.PeriodicScheduler), a hand-made hot source, and the "
           "class attribute TimeoutScheduler.singleton replaced for the duration of each case so that the library "
           "default is observable (restored afterwards); references written from the property text on tie-free "
           "timelines")


def is_replay(path):
    try:
        return bool(json.load(open(path)).get("sched_prec"))
    except Exception:                                             # noqa: BLE001
        return False


def replay(pid, path):
    rep = json.load(open(path))
    r = run_one(rep["params"])
    print(f"family sched_prec: {DOC}")
    print(f"  params: {json.dumps(rep['params'])}")
    print(f"  got:      {json.dumps(r['got'])}")
    print(f"  expected: {json.dumps(r['expected'])}")
    print(f"  oracle: {r['verdict'] or 'ok'}")
    if r["verdict"]:
        print(f"VIOLATION property={pid} replay={path}")
        return 1
    print(f"[{pid}] replay: the recorded scenario satisfies the oracle on the current tree")
    return 0
