"""K1 (history replay) machinery shared by C20-C23: Subject, BehaviorSubject,
AsyncSubject (synchronous delivery) and ReplaySubject (delivery through a
ScheduledObserver: on the default trampoline, or on a VirtualTimeScheduler /
HistoricalScheduler that the driver drains after every top-level operation or
where the history says ('drain',)).

A history is a TREE of calls:
    top     : [op]                     operations issued by the driver
    scripts : {o: [[op], [op], ...]}   what observer o does from inside its k-th callback
    op      : ('sub', o) | ('unsub', o) | ('next', value_id) | ('err', code) | ('done',) |
              ('dispose',) | ('adv', d) | ('drain',)         (adv, drain: ReplaySubject only; drain: top level,
                                                              explicit-drain mode -- run the virtual-time scheduler)
    forms   : {o: form}   HOW observer o subscribes (default 'obj'); not part of the model's input:
              'obj' subscribe(observer object)      'cb' subscribe(on_next, on_error, on_completed)
              'kw'  subscribe(on_completed=..., on_error=..., on_next=...)
              'rx'  subscribe(reactivex.Observer(on_next, on_error, on_completed))
              -- these four have all three handlers and must behave alike (same Coq model) --
              'n' subscribe(on_next)   'nc' subscribe(on_next, on_completed=...)   'ne' subscribe(on_next, on_error)
              -- partial forms: the missing handlers are the library defaults (on_completed: no-op, on_error:
              RAISES the error); oracle-only family `partial_family`
    error codes: 11, 12 -> k2.UserError(code); 13 -> FalsyUserError(13), an exception object whose truth value
              is False (`__len__` returns 0): `if exception:` and `if exception is not None:` differ on it
Driver rules (mirrored by the Coq engines Subjects/Subject.v and Subjects/Replay.v):
  * every operation, nested ones included, runs inside try/except; an exception
    is logged as ('raised', code) -- callbacks never raise into the library;
  * ('sub', o) with an id used before is skipped; ('unsub', o) while subscribe()
    of o has not returned (no handle yet) is skipped;
  * subscribers have all three handlers (forms obj / cb / kw / rx); Observable.subscribe
    wraps them in an AutoDetachObserver.

The record list a run produces is richer than what the model is compared on:
every 'got' carries the id of the innermost open call (the oracle's attribution
of a delivery to the call that made it)."""
from __future__ import annotations

import itertools

import k2
import lib
from lib import gz

POOL = k2.Pool(k2.POOL)
NONE_ID = POOL.id(None)
DISPOSED = k2.LIB_ERRORS["DisposedException"]
ERR_FALSY = 13
ERR_CODES = [11, 12, ERR_FALSY]
FORMS_FULL = ("obj", "cb", "kw", "rx")
FORMS_PARTIAL = ("n", "nc", "ne")
HANDLERS = {"obj": "nec", "cb": "nec", "kw": "nec", "rx": "nec", "n": "n", "nc": "nc", "ne": "ne"}


class FalsyUserError(k2.UserError):
    """an exception object that is falsy: bool(e) is False because len(e) == 0"""

    def __len__(self):
        return 0


def make_error(code):
    e = FalsyUserError(code) if code == ERR_FALSY else k2.UserError(code)
    assert bool(e) == (code != ERR_FALSY)
    return e


# --------------------------------------------------------------------------
# driver
# --------------------------------------------------------------------------

class LogObserver:
    """observer object handed to subject.subscribe() (or whose bound methods are: callback forms).
    `hidden`: handler kinds ('e', 'c') which a SHADOW of a partial-form subscriber has only so that the
    run can be observed: they log (flag hidden) but run no reaction script and count no callback."""

    def __init__(self, drv, o, hidden=""):
        self.drv, self.o, self.hidden = drv, o, hidden

    def _cb(self, n):
        d = self.drv
        if n[0].lower() in self.hidden:
            d.rec.append({"t": "got", "o": self.o, "n": n, "call": d.stack[-1] if d.stack else None,
                          "drain": d.in_drain, "hidden": True})
            return
        d.rec.append({"t": "got", "o": self.o, "n": n, "call": d.stack[-1] if d.stack else None,
                      "drain": d.in_drain})
        k = d.calls[self.o]
        d.calls[self.o] = k + 1
        sc = d.scripts.get(self.o, [])
        if k < len(sc):
            for op in sc[k]:
                d.do(op, in_cb=(self.o, k))

    def on_next(self, v):
        self._cb(("N", POOL.id(v)))

    def on_error(self, e):
        self._cb(("E", k2.err_id(e)))

    def on_completed(self):
        self._cb(("C",))


def subscribe_as(subject, lo, form):
    """subscribe LogObserver `lo` in the given form -> the disposable"""
    if form == "obj":
        return subject.subscribe(lo)
    if form == "cb":
        return subject.subscribe(lo.on_next, lo.on_error, lo.on_completed)
    if form == "kw":
        return subject.subscribe(on_completed=lo.on_completed, on_error=lo.on_error, on_next=lo.on_next)
    if form == "rx":
        from reactivex.observer import Observer
        return subject.subscribe(Observer(lo.on_next, lo.on_error, lo.on_completed))
    if form == "n":
        return subject.subscribe(lo.on_next)
    if form == "nc":
        return subject.subscribe(lo.on_next, on_completed=lo.on_completed)
    if form == "ne":
        return subject.subscribe(lo.on_next, lo.on_error)
    raise AssertionError(form)


class Driver:
    def __init__(self, subject, scripts, scheduler=None, forms=None, shadow=False):
        self.subject, self.scripts, self.scheduler = subject, scripts, scheduler
        self.forms, self.shadow = forms or {}, shadow
        self.rec = []
        self.handles, self.calls, self.stack = {}, {}, []
        self.ncalls = 0
        self.in_drain = False
        self.clock_expected = 0
        self.scale = 1                  # seconds per tick (virtual-time modes)

    def pending(self):
        """number of actions the virtual-time scheduler holds (None without one)"""
        try:
            return len(self.scheduler._queue) if self.scheduler is not None else None
        except Exception:   # noqa: BLE001
            return None

    def do(self, op, in_cb=None):
        cid = self.ncalls
        self.ncalls += 1
        self.rec.append({"t": "call", "id": cid, "op": op, "parent": self.stack[-1] if self.stack else None,
                         "in_cb": in_cb, "now": self.clock_expected, "pending": self.pending()})
        self.stack.append(cid)
        raised = None
        try:
            k = op[0]
            s = self.subject
            if k == "sub":
                o = op[1]
                if o not in self.calls:
                    self.calls[o] = 0
                    form = self.forms.get(o, "obj")
                    if self.shadow and form in FORMS_PARTIAL:
                        # the same subscriber as an observer object whose extra handlers only log
                        h = s.subscribe(LogObserver(self, o, hidden="".join(set("ec") - set(HANDLERS[form]))))
                    else:
                        h = subscribe_as(s, LogObserver(self, o), form)
                    self.handles[o] = h
            elif k == "unsub":
                h = self.handles.get(op[1])
                if h is not None:
                    h.dispose()
            elif k == "next":
                s.on_next(POOL.val(op[1]))
            elif k == "err":
                s.on_error(make_error(op[1]))
            elif k == "done":
                s.on_completed()
            elif k == "dispose":
                s.dispose()
            elif k == "adv":
                self.scheduler.sleep(op[1] * self.scale)
                self.clock_expected += op[1]
            else:
                raise AssertionError(op)
        except Exception as e:   # noqa: BLE001  (the driver's try/except around every operation)
            raised = k2.err_id(e)
        self.stack.pop()
        self.rec.append({"t": "ret", "id": cid, "raised": raised})

    def drain(self):
        """run everything the virtual-time scheduler holds (ReplaySubject only)"""
        from reactivex.scheduler import VirtualTimeScheduler
        self.in_drain = True
        self.rec.append({"t": "drain"})
        VirtualTimeScheduler.start(self.scheduler)
        self.in_drain = False


def make_subject(kind, v0=None, buffer_size=None, window=None, scheduler=None, spy=None):
    from reactivex.subject import AsyncSubject, BehaviorSubject, ReplaySubject, Subject
    if kind == "subject":
        return Subject()
    if kind == "behavior":
        return BehaviorSubject(POOL.val(v0))
    if kind == "async":
        return AsyncSubject() if spy is None else spied_async(spy)
    if kind == "replay":
        return ReplaySubject(buffer_size, window, scheduler)
    raise AssertionError(kind)


def run_sync(kind, hist, v0=None, forms=None, shadow=False, spy=None):
    """-> (records, probe) ; probe = what a bare subject.subscribe() does at the end
    ('raised', code) | ('returned',)"""
    top, scripts = hist
    s = make_subject(kind, v0, spy=spy)
    d = Driver(s, scripts, forms=forms, shadow=shadow)
    for op in top:
        d.do(op)
    return d.rec, bare_probe(s)


# --------------------------------------------------------------------------
# C23 anchor "value/has_value captured under lock": a dynamic lock-discipline witness
# --------------------------------------------------------------------------

SPIED_ATTRS = ("value", "has_value", "observers", "exception")


def spied_async(log):
    """An AsyncSubject whose shared fields are properties recording every access made BY A
    METHOD DEFINED IN reactivex/subject/asyncsubject.py while `self.lock` is not held by the
    accessing thread (RLock._is_owned) -> log entries (attr, 'get'|'set', function name, line).
    Accesses from __init__ are exempt (the object is not shared yet); accesses from other files
    (Subject, InnerSubscription) are not this property's anchor.  Behaviour is unchanged."""
    import sys
    from reactivex.subject import AsyncSubject

    def prop(name):
        slot = "_spied_" + name

        def check(self, how):
            if not self.__dict__.get("_spy_armed"):
                return
            f = sys._getframe(2)
            if f.f_code.co_filename.replace("\\", "/").endswith("reactivex/subject/asyncsubject.py") \
                    and not self.lock._is_owned():
                log.append((name, how, f.f_code.co_name, f.f_lineno))

        def fget(self):
            check(self, "get")
            return self.__dict__[slot]

        def fset(self, v):
            check(self, "set")
            self.__dict__[slot] = v

        return property(fget, fset)

    cls = type("SpiedAsyncSubject", (AsyncSubject,), {a: prop(a) for a in SPIED_ATTRS})
    s = cls()
    s.__dict__["_spy_armed"] = True
    return s


def bare_probe(s):
    """the literal reading of 'subscribing raises': a subscriber without error handler"""
    try:
        s.subscribe()
        return ("returned",)
    except Exception as e:   # noqa: BLE001
        return ("raised", k2.err_id(e))


WREPS = ("num", "float", "td", "slack", "tdslack")
SCALES = (1, 0.5, 0.25)
SCHEDS = ("vt", "hist", "hist0")
VT_DEFAULT = {"sched": "vt", "scale": 1, "wrep": "num", "drains": "auto"}


def window_arg(w, scale, wrep):
    """the `window` argument of ReplaySubject for a window of w ticks of `scale` seconds.
    num: int when integral, else float; float; td: timedelta; slack / tdslack: half a tick MORE
    (a fractional float / timedelta strictly between two possible ages -- ages are whole ticks, so
    the retained set is that of w ticks)"""
    from datetime import timedelta
    if w is None:
        return None
    secs = w * scale
    if wrep == "num":
        return int(secs) if float(secs).is_integer() else secs
    if wrep == "float":
        return float(secs)
    if wrep == "td":
        return timedelta(seconds=secs)
    if wrep == "slack":
        return secs + scale / 2
    if wrep == "tdslack":
        return timedelta(seconds=secs + scale / 2)
    raise AssertionError(wrep)


def make_vt_scheduler(kind):
    from datetime import datetime
    from reactivex.scheduler import HistoricalScheduler, VirtualTimeScheduler
    if kind == "vt":
        return VirtualTimeScheduler()                     # float clock, starts at 0.0
    if kind == "hist0":
        return HistoricalScheduler()                      # datetime clock, starts at UTC_ZERO
    if kind == "hist":
        return HistoricalScheduler(datetime(2021, 3, 4, 5, 6, 7, 250000))
    raise AssertionError(kind)


def run_replay(hist, buffer_size, window, cfg=None, forms=None):
    """ReplaySubject on a virtual-time scheduler whose clock the history controls (one tick =
    cfg['scale'] seconds; ('adv', d) = scheduler.sleep(d ticks)).
      cfg['sched']  'vt' VirtualTimeScheduler (float clock) | 'hist' / 'hist0' HistoricalScheduler
                    (datetime clock, explicit / default initial instant)
      cfg['wrep']   how `window` (in ticks) is handed to the constructor: see window_arg
      cfg['drains'] 'auto': the scheduler is drained with start() after every top-level call;
                    'explicit': only where the history says ('drain',) -- so an unsubscribe, an emission,
                    another subscribe or a clock advance can happen while replay items are still
                    queued -- and once more at the very end.
    All pending ScheduledObserver.run actions are due at a clock <= now, so a drain runs them in FIFO
    order and the clock does not move.  -> (records, probe, ok) where ok is False if the clock moved on
    its own (VirtualTimeScheduler's anti-spinning bump after 100 actions at one instant), which the
    model does not cover."""
    from datetime import timedelta
    cfg = dict(VT_DEFAULT, **(cfg or {}))
    top, scripts = hist
    sch = make_vt_scheduler(cfg["sched"])
    t0 = sch.now
    try:
        s = make_subject("replay", buffer_size=buffer_size, window=window_arg(window, cfg["scale"], cfg["wrep"]),
                         scheduler=sch)
    except Exception as e:   # noqa: BLE001  (a window representation the constructor rejects)
        return [], ("constructor-raised", f"{type(e).__name__}: {e}"), True
    d = Driver(s, scripts, scheduler=sch, forms=forms)
    d.scale = cfg["scale"]
    auto = cfg["drains"] == "auto"
    for op in top:
        if op[0] == "drain":
            if not auto:
                d.drain()
            continue
        d.do(op)
        if auto:
            d.drain()
    if not auto:
        d.drain()
    ok = (sch.now - t0) == timedelta(seconds=d.clock_expected * cfg["scale"])
    return d.rec, bare_probe(s), ok


def run_replay_sync(hist, buffer_size, window=None, forms=None):
    """ReplaySubject with its DEFAULT scheduler (CurrentThreadScheduler.singleton(): a trampoline).
    No drain calls: a ScheduledObserver drain scheduled from a top-level call runs inline (the
    trampoline is idle), one scheduled from inside an observer callback is queued behind the
    running one.  subscribe() at top level is itself a trampoline action, so the replay is
    delivered before it returns.  The clock is the wall clock: ('adv', d) is not used here and
    `window` is None or far larger than a run lasts.  -> (records, probe, ok)"""
    from reactivex.scheduler import CurrentThreadScheduler
    top, scripts = hist
    tramp = CurrentThreadScheduler.singleton().get_trampoline()
    ok = tramp.idle()
    s = make_subject("replay", buffer_size=buffer_size, window=window, scheduler=None)
    d = Driver(s, scripts, scheduler=None, forms=forms)
    for op in top:
        if op[0] in ("adv", "drain"):
            continue
        d.do(op)
        ok = ok and tramp.idle()
    return d.rec, bare_probe(s), ok


# --------------------------------------------------------------------------
# Gallina
# --------------------------------------------------------------------------

def g_op(op, pre="O"):
    k = op[0]
    if k == "sub":
        return f"{pre}Sub {op[1]}%nat"
    if k == "unsub":
        return f"{pre}Unsub {op[1]}%nat"
    if k == "next":
        return f"{pre}Next {gz(op[1])}"
    if k == "err":
        return f"{pre}Err {gz(op[1])}"
    if k == "done":
        return f"{pre}Done"
    if k == "dispose":
        return f"{pre}Dispose"
    if k == "adv":
        return f"{pre}Advance {gz(op[1])}"
    raise AssertionError(op)


def g_ops(ops, pre="O"):
    return "[" + "; ".join(g_op(o, pre) for o in ops) + "]"


def g_xhist(hist, mode):
    """C22: the top level as a program of calls and drains (Subjects/ReplaySched.v xtop).
    mode 'sync': no drains (default scheduler; adv skipped by the driver); 'auto': a drain after every
    call; 'explicit': drains where the history has them + the final one"""
    top, scripts = hist
    prog = []
    for op in top:
        if op[0] == "drain":
            if mode == "explicit":
                prog.append("XDrain")
            continue
        if mode == "sync" and op[0] == "adv":
            continue
        prog.append(f"XOp ({g_op(op, 'R')})")
        if mode == "auto":
            prog.append("XDrain")
    if mode == "explicit":
        prog.append("XDrain")
    sc = "; ".join(f"({o}%nat, [" + "; ".join(g_ops(r, "R") for r in rs) + "])" for o, rs in sorted(scripts.items()))
    return f"([{'; '.join(prog)}], [{sc}])"


def g_hist(hist, pre="O"):
    top, scripts = hist
    sc = "; ".join(f"({o}%nat, [" + "; ".join(g_ops(r, pre) for r in rs) + "])" for o, rs in sorted(scripts.items()))
    return f"({g_ops(top, pre)}, [{sc}])"


def g_note(n):
    if n[0] == "N":
        return f"Next {gz(n[1])}"
    if n[0] == "E":
        return f"Err {gz(n[1])}"
    return "Done"


def g_log(rec, pre="O", epre="E"):
    out = []
    for r in rec:
        if r["t"] == "call":
            out.append(f"{epre}Op ({g_op(r['op'], pre)})")
        elif r["t"] == "got":
            out.append(f"{epre}Got {r['o']}%nat ({g_note(r['n'])})")
        elif r["t"] == "ret" and r["raised"] is not None:
            out.append(f"{epre}Raised {gz(r['raised'])}")
    return "[" + "; ".join(out) + "]"


# --------------------------------------------------------------------------
# generators
# --------------------------------------------------------------------------

VALS = [0, 1, 2, 3, 4, 5, 8, 10]      # pool ids: None 0 False '' () 0.0 1 'a'


def gen_op(rng, nobs, nested=False, adv=False, used=None):
    r = rng.random()
    if adv and not nested and r < 0.14:
        return ("adv", rng.choice([0, 1, 1, 2, 3, 5]))
    r = rng.random()
    if r < 0.24:
        return ("sub", rng.randrange(nobs))
    if r < 0.38:
        return ("unsub", rng.randrange(nobs))
    if r < 0.78:
        return ("next", rng.choice(VALS))
    if r < 0.85:
        return ("err", rng.choice(ERR_CODES))
    if r < 0.94:
        return ("done",)
    return ("dispose",)


def gen_history(rng, adv=False, flat=None):
    nobs = rng.choice([2, 3, 4, 5])
    n = rng.choice([1, 2, 3, 4, 5, 6, 7, 8, 10])
    top = []
    # most histories start by subscribing somebody
    if rng.random() < 0.7:
        top.append(("sub", 0))
    for _ in range(n):
        top.append(gen_op(rng, nobs, adv=adv))
    if rng.random() < 0.35:                       # late subscriber at the very end
        top.append(("sub", nobs))
        nobs += 1
    scripts = {}
    if flat is None:
        flat = rng.random() < 0.3
    if not flat:
        for o in range(nobs):
            if rng.random() < 0.55:
                scripts[o] = [[gen_op(rng, nobs + 1, nested=True) for _ in range(rng.choice([0, 1, 1, 1, 2]))]
                              for _ in range(rng.choice([1, 2, 3]))]
    return (top, scripts)


def enum_flat(alphabet, maxlen):
    for n in range(maxlen + 1):
        for t in itertools.product(alphabet, repeat=n):
            yield (list(t), {})


def enum_reentrant(prefix, alphabet, reactions, tail_len):
    """prefix ++ every tail of length <= tail_len, with observer 0 (and 1) reacting
    inside their first callback with one operation of `reactions`"""
    for n in range(1, tail_len + 1):
        for t in itertools.product(alphabet, repeat=n):
            for who in (0, 1):
                for r in reactions:
                    yield (list(prefix) + list(t), {who: [[r]]})


def is_nontrivial(rec):
    """at least two deliveries to at least two distinct observers"""
    got = [r for r in rec if r["t"] == "got"]
    return len(got) >= 2 and len({r["o"] for r in got}) >= 2


def hist_key(hist):
    top, scripts = hist
    return repr((top, sorted(scripts.items())))


def hist_stats(hist, rec, h):
    top, scripts = hist
    h["len"][len(top)] = h["len"].get(len(top), 0) + 1
    nested = [r for r in rec if r["t"] == "call" and r["in_cb"] is not None]
    h["reentrant"] += 1 if nested else 0
    for r in nested:
        k = "nested_" + r["op"][0]
        h[k] = h.get(k, 0) + 1
    for r in rec:
        if r["t"] == "call" and r["op"][0] == "next" and r["op"][1] < 6:
            h["falsy_values"] += 1
            break
    if any(r["t"] == "ret" and r["raised"] is not None for r in rec):
        h["raised"] += 1
    if any(r["t"] == "call" and r["op"][0] == "dispose" for r in rec):
        h["with_dispose"] += 1


def new_hist():
    return {"len": {}, "reentrant": 0, "falsy_values": 0, "raised": 0, "with_dispose": 0}


# --------------------------------------------------------------------------
# oracle helpers (independent of the model): call intervals and attribution
# --------------------------------------------------------------------------

class Trace:
    """index of one run's records"""

    def __init__(self, rec):
        self.rec = rec
        self.calls = {}       # cid -> dict(op, start, end, raised, parent)
        for i, r in enumerate(rec):
            if r["t"] == "call":
                self.calls[r["id"]] = {"op": r["op"], "start": i, "end": None, "raised": None,
                                       "parent": r["parent"], "now": r.get("now", 0), "id": r["id"]}
            elif r["t"] == "ret":
                self.calls[r["id"]]["end"] = i
                self.calls[r["id"]]["raised"] = r["raised"]
        self.order = sorted(self.calls.values(), key=lambda c: c["start"])
        self.observers = sorted({r["o"] for r in rec if r["t"] == "got"} |
                                {c["op"][1] for c in self.order if c["op"][0] == "sub"})
        # first subscribe call per observer (later ones are skipped by the driver)
        self.sub = {}
        for c in self.order:
            if c["op"][0] == "sub" and c["op"][1] not in self.sub:
                self.sub[c["op"][1]] = c
        self.view = {o: [(i, r["n"], r["call"]) for i, r in enumerate(rec) if r["t"] == "got" and r["o"] == o]
                     for o in self.observers}
        # subject status at the start of every call: 'live' | ('term', note) | 'disposed'
        self.status_at = {}
        status = "live"
        self.accepted = []     # emission calls that took effect (subject live at their start)
        for c in self.order:
            self.status_at[c["id"]] = status
            k = c["op"][0]
            if k == "dispose":
                status = "disposed"
            elif status == "live":
                if k == "err":
                    status = ("term", ("E", c["op"][1]))
                    self.accepted.append(c)
                elif k == "done":
                    status = ("term", ("C",))
                    self.accepted.append(c)
                elif k == "next":
                    self.accepted.append(c)
        self.final_status = status

    def ended_at(self, o):
        """index of the first record at which o stops being subscribed by its own doing or by a
        terminal it received: start of an unsub(o) call that finds a handle, or a terminal delivery"""
        sub = self.sub.get(o)
        best = None
        for c in self.order:
            if c["op"] == ("unsub", o) and sub is not None and sub["end"] is not None and c["start"] > sub["end"]:
                best = c["start"]
                break
        for (i, n, _) in self.view.get(o, []):
            if n[0] != "N":
                best = i if best is None else min(best, i)
                break
        return best


def wellformed(notes):
    for i, n in enumerate(notes):
        if n[0] != "N" and i != len(notes) - 1:
            return False
    return True


def note_of(op):
    if op[0] == "next":
        return ("N", op[1])
    if op[0] == "err":
        return ("E", op[1])
    return ("C",)


# --------------------------------------------------------------------------
# oracles: the property statements, evaluated on the implementation's records
# --------------------------------------------------------------------------

def _children(tr, cid, o):
    """notifications delivered to o directly by call cid (innermost open call)"""
    return [n for (_, n, c) in tr.view.get(o, []) if c == cid]


def _is_prefix(a, b):
    return len(a) <= len(b) and b[:len(a)] == a


def oracle_sync(kind, hist, v0, rec, probe):
    """-> list of (signature, detail).  kind: subject | behavior | async.
    Statement checked (C20/C21/C23), directly on the observed run:
      * every delivery is made by an emission call that took effect (subject live when the
        call started) and carries that call's notification, or is part of the greeting of the
        receiver's own subscribe call;  [=> call order among non-overlapping calls]
      * an emission that took effect reaches every observer whose subscribe() had returned
        before the call started and which has neither unsubscribed nor received a terminal
        (exactly once / with the class's answer); observers that unsubscribe or are terminated
        by another call WHILE the call is in progress may miss (a suffix of) it; nobody else
        receives anything from it;
      * emissions on an ended subject do nothing, on a disposed subject raise DisposedException;
      * greeting: live -> nothing (Subject, Async) / the current value first (Behavior);
        ended -> only the terminal (Async after completion: last value, completion);
        disposed -> only DisposedException; a bare subscribe() raises it;
      * each observer's sequence is  on_next* (on_error|on_completed)?"""
    tr = Trace(rec)
    bad = []
    reentrant = any(c["parent"] is not None for c in tr.order)

    def fail(what, **d):
        bad.append((f"{what}|reentrant={int(reentrant)}", dict(d, what=what)))

    for o in tr.observers:
        if not wellformed([n for (_, n, _) in tr.view[o]]):
            fail("grammar", observer=o, received=[n for (_, n, _) in tr.view[o]])

    # the value the subject holds at record index i: last accepted on_next started before i
    def last_value(i):
        v, has = v0, False
        for c in tr.accepted:
            if c["op"][0] == "next" and c["start"] < i:
                v, has = c["op"][1], True
        return v, has

    def answer(c):
        """what one subscribed observer receives from accepted emission c"""
        op = c["op"]
        if kind == "async":
            if op[0] == "next":
                return []
            if op[0] == "done":
                v, has = last_value(c["start"])
                return ([("N", v)] if has else []) + [("C",)]
        return [note_of(op)]

    def greeting(c):
        st = tr.status_at[c["id"]]
        if st == "disposed":
            return [("E", DISPOSED)]
        if st == "live":
            if kind == "behavior":
                return [("N", last_value(c["start"])[0])]
            return []
        t = st[1]
        if kind == "async" and t == ("C",):
            v, has = last_value(c["start"])
            return ([("N", v)] if has else []) + [("C",)]
        return [t]

    accepted_ids = {c["id"] for c in tr.accepted}
    # 1. attribution of every delivery
    for o in tr.observers:
        for (i, n, cid) in tr.view[o]:
            if cid is None:
                fail("delivery-outside-any-call", observer=o, note=n)
                continue
            c = tr.calls[cid]
            k = c["op"][0]
            if k in ("next", "err", "done"):
                if cid not in accepted_ids:
                    fail("delivery-from-ineffective-call", observer=o, note=n, call=c["op"],
                         status=tr.status_at[cid])
                elif n not in answer(c):
                    fail("wrong-notification", observer=o, note=n, call=c["op"])
            elif k == "sub":
                if c["op"][1] != o or tr.sub.get(o) is not c:
                    fail("greeting-to-wrong-observer", observer=o, note=n, call=c["op"])
            else:
                fail("delivery-from-non-emitting-call", observer=o, note=n, call=c["op"])
    # 2. every call
    for c in tr.order:
        k, cid = c["op"][0], c["id"]
        st = tr.status_at[cid]
        if k in ("next", "err", "done"):
            if st == "disposed":
                if c["raised"] != DISPOSED:
                    fail("emit-after-dispose-did-not-raise", call=c["op"], raised=c["raised"])
                continue
            if c["raised"] is not None:
                fail("emit-raised", call=c["op"], raised=c["raised"])
            if cid not in accepted_ids:
                continue
            exp = answer(c)
            for o in tr.observers:
                got = _children(tr, cid, o)
                sub = tr.sub.get(o)
                registered = (sub is not None and tr.status_at[sub["id"]] == "live")
                if not registered or sub["start"] > c["start"]:
                    cls = "none"
                elif sub["end"] is None or sub["end"] > c["start"]:
                    cls = "may"            # the call is made from inside o's own subscribe()
                else:
                    e = tr.ended_at(o)
                    if e is not None and e < c["start"]:
                        cls = "none"
                    elif e is not None and e < c["end"] and not (rec[e]["t"] == "got" and rec[e]["call"] == cid):
                        cls = "may"        # unsubscribed / terminated by another call meanwhile
                    else:
                        cls = "must"
                if cls == "none" and got:
                    fail("delivered-to-unsubscribed", observer=o, call=c["op"], got=got)
                elif cls == "may" and not _is_prefix(got, exp):
                    fail("wrong-partial-delivery", observer=o, call=c["op"], got=got, expected=exp)
                elif cls == "must" and got != exp:
                    fail("missed-or-duplicated-delivery", observer=o, call=c["op"], got=got, expected=exp)
        elif k == "sub":
            o = c["op"][1]
            if c["raised"] is not None:
                fail("subscribe-raised", call=c["op"], raised=c["raised"])
            if tr.sub.get(o) is not c:
                continue                               # id used before: skipped by the driver
            exp = greeting(c)
            got = _children(tr, cid, o)
            if st == "live":
                if got != exp:
                    fail("wrong-greeting", observer=o, got=got, expected=exp)
                if exp and (not tr.view[o] or tr.view[o][0][2] != cid):
                    fail("greeting-not-first", observer=o)
            else:
                whole = [n for (_, n, _) in tr.view[o]]
                if whole != exp:
                    fail("late-subscriber", observer=o, status=st, received=whole, expected=exp)
        else:
            if c["raised"] is not None:
                fail("call-raised", call=c["op"], raised=c["raised"])
    # 3. the literal reading of "subscribing raises DisposedException"
    #    (a subscriber without error handler: on_error defaults to raising; so a subject that
    #    ended with error e raises e, a disposed one DisposedException, otherwise nothing)
    if tr.final_status == "disposed":
        want = ("raised", DISPOSED)
    elif tr.final_status != "live" and tr.final_status[1][0] == "E":
        want = ("raised", tr.final_status[1][1])
    else:
        want = ("returned",)
    if probe != want:
        fail("bare-subscribe", probe=probe, expected=want, status=tr.final_status)
    return bad


def shrink(hist, still_fails):
    """greedy delta debugging on the history tree: drop top-level operations, script
    entries, nested operations, while `still_fails(hist)` holds"""
    top, scripts = list(hist[0]), {o: [list(r) for r in rs] for o, rs in hist[1].items()}
    changed = True
    while changed:
        changed = False
        for i in range(len(top)):
            cand = (top[:i] + top[i + 1:], scripts)
            if still_fails(cand):
                top = cand[0]
                changed = True
                break
        if changed:
            continue
        for o in list(scripts):
            cand_s = {k: v for k, v in scripts.items() if k != o}
            if still_fails((top, cand_s)):
                scripts = cand_s
                changed = True
                break
            for j in range(len(scripts[o])):
                for q in range(len(scripts[o][j])):
                    cand_s = {k: [list(r) for r in v] for k, v in scripts.items()}
                    del cand_s[o][j][q]
                    if still_fails((top, cand_s)):
                        scripts = cand_s
                        changed = True
                        break
                if changed:
                    break
            if changed:
                break
    return (top, scripts)


def hist_size(hist):
    return len(hist[0]) + sum(len(r) for rs in hist[1].values() for r in rs)


def hist_json(hist):
    return {"top": [list(o) for o in hist[0]],
            "scripts": {str(o): [[list(x) for x in r] for r in rs] for o, rs in hist[1].items()}}


def hist_from_json(d):
    return ([tuple(o) for o in d["top"]],
            {int(o): [[tuple(x) for x in r] for r in rs] for o, rs in d["scripts"].items()})



def correspond(pid, name, imports, case_ty, cases, prelude, shard=400):
    """lib.correspondence + a retry of shards that failed to EVALUATE (negative markers): scratch
    files are compiled outside the build lock, so a concurrent `make` of another check that is
    rewriting the .vo files they import makes coqc fail transiently.  Real disagreements (non-negative
    indices) are never retried."""
    import time
    bad, logs = lib.correspondence(pid, name, imports, case_ty, "model", "out_eqb", cases, shard=shard,
                                   prelude=prelude)
    for attempt in range(3):
        failed = [-1 - b for b in bad if b < 0]
        if not failed:
            break
        time.sleep(5 + 10 * attempt)
        with lib.Lock("build"):
            pass                                  # wait for a build in progress to finish
        bad = [b for b in bad if b >= 0]
        logs = []
        for base in failed:
            b2, l2 = lib.correspondence(pid, f"{name}r{attempt}_{base}_", imports, case_ty, "model", "out_eqb",
                                        cases[base:base + shard], shard=shard, prelude=prelude)
            bad += [(base + x) if x >= 0 else (-1 - base) for x in b2]
            logs += l2
    return bad, logs

# --------------------------------------------------------------------------
# the check shared by C20 / C21 / C23
# --------------------------------------------------------------------------

SYNC = {
    "C20": dict(kind="subject", cls="subject_cls", title="Subject"),
    "C21": dict(kind="behavior", cls="(behavior_cls 0)", title="BehaviorSubject"),
    "C23": dict(kind="async", cls="(async_cls 0)", title="AsyncSubject"),
}
SYNC_IMPORTS = "Base.Prelude Ops.Machine Subjects.Subject Subjects.Behavior Subjects.Async"
FUEL = 20000


def rot_forms(i, n=4):
    """deterministic rotation of the four full subscriber forms over observers 0..n-1 by case index"""
    return {o: FORMS_FULL[(i // (4 ** o)) % 4] for o in range(n)}


def rand_forms(rng, n=12, partial=False):
    """random subscriber forms for observers 0..n-1 ('obj' is left implicit)"""
    forms = {}
    for o in range(n):
        if partial and rng.random() < 0.5:
            forms[o] = rng.choice(FORMS_PARTIAL)
        elif rng.random() < 0.6:
            forms[o] = rng.choice(FORMS_FULL[1:])
    return forms


def sync_cases(pid, tier, rng):
    """(history, v0, forms) list: exhaustive small scopes first, then seeded random trees"""
    kind = SYNC[pid]["kind"]
    a, b = 0, 2                     # pool ids of None and False
    alpha = [("sub", 0), ("sub", 1), ("unsub", 0), ("next", a), ("next", b), ("err", 11), ("err", ERR_FALSY),
             ("done",), ("dispose",)]
    L = 3 if tier == "quick" else 4
    cases = [(h, a, rot_forms(i, 2)) for i, h in enumerate(enum_flat(alpha, L))]
    n_flat = len(cases)
    tail = [("next", a), ("err", ERR_FALSY), ("done",), ("dispose",), ("unsub", 1), ("sub", 3)]
    reactions = [("unsub", 0), ("unsub", 1), ("unsub", 2), ("sub", 3), ("next", b), ("err", 12), ("done",),
                 ("dispose",)]
    cases += [(h, b, rot_forms(i, 4))
              for i, h in enumerate(enum_reentrant([("sub", 0), ("sub", 1), ("sub", 2)], tail, reactions,
                                                   2 if tier == "quick" else 3))]
    n_re = len(cases) - n_flat
    nrand = 700 if tier == "quick" else 12000
    for _ in range(nrand):
        cases.append((gen_history(rng), rng.choice(VALS), rand_forms(rng)))
    return cases, {"exhaustive_flat": n_flat, "exhaustive_reentrant": n_re, "random": nrand,
                   "flat_scope": f"all sequences of length <= {L} over {alpha}",
                   "reentrant_scope": f"sub0 sub1 sub2 ++ all tails of length <= {2 if tier == 'quick' else 3} over "
                                      f"{tail}, observer 0 or 1 reacting in its first callback with one of {reactions}"}


# ---- oracle-only family: PARTIAL subscriber forms (handlers missing -> library defaults) ------------

def partial_cases(tier, rng):
    """(history, v0, forms): observer 0 (exhaustive scope) / about half of the observers (random trees)
    subscribe with a partial callback form"""
    a, b = 0, 2
    alpha = [("sub", 0), ("sub", 1), ("unsub", 0), ("next", a), ("err", ERR_FALSY), ("done",), ("dispose",)]
    L = 3 if tier == "quick" else 4
    cases = []
    for f in FORMS_PARTIAL:
        for h in enum_flat(alpha, L):
            if ("sub", 0) in h[0]:
                cases.append((h, b, {0: f}))
    n_ex = len(cases)
    nrand = 500 if tier == "quick" else 8000
    while len(cases) < n_ex + nrand:
        h, forms = gen_history(rng), rand_forms(rng, partial=True)
        subs = {op[1] for op in h[0] if op[0] == "sub"} | \
               {op[1] for rs in h[1].values() for r in rs for op in r if op[0] == "sub"}
        if any(forms.get(o) in FORMS_PARTIAL for o in subs):
            cases.append((h, rng.choice(VALS), forms))
    return cases, {"partial_exhaustive": n_ex, "partial_random": nrand}


def _strip(r):
    return {k: v for k, v in r.items() if k != "hidden"}


def oracle_partial(kind, hist, v0, forms, stats=None):
    """Partial callback forms, metamorphic + statement.  The history is run twice on the real class:
      SHADOW  every partial-form subscriber is replaced by an observer OBJECT whose handlers for the
              missing callbacks only log (no reaction, not counted): a run with full observers, on
              which the property statement is evaluated as usual (oracle_sync);
      REAL    the subscribers use their partial forms.
    Demanded: the REAL run's records = the SHADOW run's records minus the hidden deliveries (the
    notifications the partial subscriber has no handler for are simply not observable; everything else
    -- who gets what, in which order, what every call raises -- is the same), UP TO the first moment the
    library's default on_error (which raises) is handed an error; if that happens inside a subscribe()
    call (late subscriber of a failed / disposed subject) that call must raise the error (the same reading
    of `subscribing raises` as the bare-subscribe probe).  What happens after a raising default handler
    (raising callbacks: C09) is not judged."""
    recS, probeS = run_sync(kind, hist, v0, forms, shadow=True)
    recP, probeP = run_sync(kind, hist, v0, forms, shadow=False)
    bad = list(oracle_sync(kind, hist, v0, recS, probeS))
    cut = None
    for i, r in enumerate(recS):
        if r["t"] == "got" and r.get("hidden") and r["n"][0] == "E" and "e" not in HANDLERS[forms.get(r["o"], "obj")]:
            cut = i
            break
    vis = [_strip(r) for r in (recS if cut is None else recS[:cut]) if not r.get("hidden")]
    got = recP if cut is None else recP[:len(vis)]
    used = sorted({forms.get(r["op"][1], "obj") for r in recS if r["t"] == "call" and r["op"][0] == "sub"})

    def fail(what, **d):
        bad.append((f"partial-form|{what}", dict(d, what=what, forms={str(k): v for k, v in forms.items()},
                                                  forms_used=used)))

    if got != vis:
        j = next((x for x in range(min(len(got), len(vis))) if got[x] != vis[x]), min(len(got), len(vis)))
        fail("differs-from-object-form", first_difference_at=j,
             partial_form_run=[repr(r) for r in got[j:j + 3]], object_form_run=[repr(r) for r in vis[j:j + 3]])
    if cut is None:
        if probeP != probeS:
            fail("bare-subscribe-differs", partial_form_run=probeP, object_form_run=probeS)
    else:
        cid, code = recS[cut]["call"], recS[cut]["n"][1]
        opc = next(r["op"] for r in recS if r["t"] == "call" and r["id"] == cid)
        ret = [r["raised"] for r in recP if r["t"] == "ret" and r["id"] == cid]
        if stats is not None:
            stats["default_on_error_fired"] = stats.get("default_on_error_fired", 0) + 1
            k = "default_on_error_in_" + opc[0]
            stats[k] = stats.get(k, 0) + 1
            if ret and ret[0] == code:
                stats["default_on_error_surfaced_from_the_call"] = stats.get("default_on_error_surfaced_from_the_call", 0) + 1
        if opc[0] == "sub" and got == vis and (not ret or ret[0] != code):
            fail("subscribe-without-on_error-did-not-raise", call=opc, raised=ret[0] if ret else None, expected=code)
    if stats is not None:
        hid = sum(1 for r in recS if r.get("hidden"))
        stats["hidden_notifications"] = stats.get("hidden_notifications", 0) + hid
        for f in used:
            stats["form_" + f] = stats.get("form_" + f, 0) + 1
    return bad


# --------------------------------------------------------------------------
# oracle-only family: ONE observer object (or one set of callbacks) subscribed several times
# --------------------------------------------------------------------------

def run_shared(kind, script, v0, shared, form):
    """script: [["sub", i] | ["unsub", i] | ["next", vid] | ["done"] | ["err", code]].
    shared=True: every subscription slot uses the SAME observer object / the same three callbacks;
    shared=False: one recorder per slot.  -> the sequence of notifications received, in delivery order
    (slot identity dropped), plus what the calls raised."""
    import reactivex
    log, raised = [], []
    s = make_subject(kind, v0)

    class Rec(reactivex.Observer):
        def __init__(self):
            # no super().__init__: a bare ObserverBase-like object
            pass

        def on_next(self, v):
            log.append(("N", POOL.id(v)))

        def on_error(self, e):
            log.append(("E", getattr(e, "code", repr(e))))

        def on_completed(self):
            log.append(("C",))

    one = Rec()
    subs = {}
    for op in script:
        try:
            if op[0] == "sub":
                o = one if shared else Rec()
                if form == "object":
                    subs[op[1]] = s.subscribe(o)
                else:
                    subs[op[1]] = s.subscribe(o.on_next, o.on_error, o.on_completed)
            elif op[0] == "unsub":
                if op[1] in subs:
                    subs.pop(op[1]).dispose()
            elif op[0] == "next":
                s.on_next(POOL.val(op[1]))
            elif op[0] == "done":
                s.on_completed()
            else:
                s.on_error(make_error(op[1]))
        except Exception as e:      # noqa: BLE001
            raised.append((script.index(op), type(e).__name__))
    return log, raised


def gen_shared(rng):
    n = rng.choice([2, 2, 3])
    script, live = [], []
    for i in range(n):
        script.append(["sub", i])
        live.append(i)
        if rng.random() < 0.4:
            script.append(["next", rng.randrange(0, 4)])
    # at least one subscription -- never the only one -- is disposed before the end
    k = rng.choice(live[1:]) if rng.random() < 0.7 else rng.choice(live)
    script.append(["unsub", k])
    live.remove(k)
    for _ in range(rng.randrange(0, 3)):
        script.append(["next", rng.randrange(0, 4)])
        if live and rng.random() < 0.25:
            script.append(["unsub", live.pop(rng.randrange(len(live)))])
    script.append(rng.choice([["done"], ["done"], ["err", 11], ["err", 13]]))
    if rng.random() < 0.3:
        script.append(["sub", n])          # a late subscription of the same observer
    return script


def shared_observer_family(chk, pid, kind, title):
    """Subscriptions are independent even when they share the observer object or its callbacks: what the shared
    recorder receives must be, notification for notification, what separate recorders receive in the same script
    (an unsubscription must release ITS subscription, not an equal-looking one)."""
    n = 150 if chk.tier == "quick" else 2000
    stats = {"cases": 0, "nontrivial": 0}
    for i in range(n):
        script = gen_shared(chk.rng)
        v0 = chk.rng.randrange(0, 3)
        form = "object" if i % 2 else "callbacks"
        got = run_shared(kind, script, v0, True, form)
        exp = run_shared(kind, script, v0, False, form)
        chk.cov["evaluations"] += 2
        stats["cases"] += 1
        stats["nontrivial"] += len(exp[0]) >= 2
        if got != exp:
            chk.violation(f"{title}|shared-observer|{form}",
                          {"class": title, "family": "shared_observer", "script": script, "initial_value_id": v0,
                           "form": form, "received_by_the_shared_observer": repr(got),
                           "received_by_separate_observers": repr(exp),
                           "expected": "each subscription is independent of the others, also when they were made "
                                       "with the same observer object / the same callbacks"},
                          size=len(script))
    chk.cov["shared_observer_family"] = stats



def check_sync(chk, pid):
    import lib
    cfg = SYNC[pid]
    kind = cfg["kind"]
    proved = chk.build_and_prove()
    tier = chk.tier if proved and not chk.broken else "thorough"
    if tier != chk.tier:
        chk.cov["search"] = "theorem file or build broke: case set enlarged to the thorough scope"
    cases, scope = sync_cases(pid, tier, chk.rng)
    gal, H, nontrivial = [], new_hist(), set()
    seen_sigs = set()
    H.update({"falsy_error": 0, "late_subscriber_after_falsy_error": 0, "forms": {}})
    spy_log, spied = [], 0
    for ci, (h, v0, forms) in enumerate(cases):
        rec, probe = run_sync(kind, h, v0, forms)
        chk.cov["evaluations"] += 1
        hist_stats(h, rec, H)
        form_stats(rec, forms, H)
        if is_nontrivial(rec):
            nontrivial.add(hist_key(h) + repr(v0))
        for sig, detail in oracle_sync(kind, h, v0, rec, probe):
            if sig in seen_sigs:        # one shrunk witness per signature (shrinking is the expensive part)
                continue
            seen_sigs.add(sig)
            def still(hh, _sig=sig):
                r2, p2 = run_sync(kind, hh, v0, forms)
                return any(s == _sig for s, _ in oracle_sync(kind, hh, v0, r2, p2))
            hm = shrink(h, still)
            r2, p2 = run_sync(kind, hm, v0, forms)
            d2 = [d for s, d in oracle_sync(kind, hm, v0, r2, p2) if s == sig][0]
            chk.violation(f"{cfg['title']}|{sig}",
                          {"class": cfg["title"], "initial_value_id": v0, "history": hist_json(hm),
                           "forms": {str(k): v for k, v in forms.items()},
                           "pool": [repr(v) for v in POOL.values],
                           "error_codes": "11, 12: UserError; 13: FalsyUserError (bool(e) is False)",
                           "implementation_log": g_log(r2), "oracle": d2,
                           "expected": "see harness/subj.py:oracle_sync docstring"},
                          size=hist_size(hm))
        gal.append((f"({gz(v0)}, {g_hist(h)})", f"({g_log(rec)}, true)"))
        # C23 anchor: value / has_value / observers / exception are touched by AsyncSubject's own
        # methods only while the subject's lock is held (dynamic witness on the same histories)
        if kind == "async" and (ci < scope["exhaustive_flat"] + scope["exhaustive_reentrant"] or ci % 3 == 0):
            log = []
            rec3, probe3 = run_sync(kind, h, v0, forms, spy=log)
            spied += 1
            if (rec3, probe3) != (rec, probe):
                chk.tie_broken("lock-discipline spy changed the behaviour of AsyncSubject (harness bug)",
                               {"history": hist_json(h)})
            if log and not spy_log:
                spy_log = [{"history": hist_json(h), "unlocked_accesses": sorted(set(log))}]
    if kind == "async":
        chk.cov["lock_discipline"] = {
            "histories_run_with_spy": spied,
            "rule": "every read/write of value, has_value, observers, exception made by a method defined in "
                    "reactivex/subject/asyncsubject.py (_subscribe_core, _on_next_core, _on_completed_core, dispose) "
                    "happens while the calling thread owns subject.lock (properties on a subclass + RLock._is_owned)",
            "unlocked_accesses": spy_log}
        if spy_log:
            chk.tie_broken("C23 anchor `value/has_value captured under lock`: AsyncSubject touches shared state "
                           "without holding its lock", spy_log[0])
    shared_observer_family(chk, pid, kind, cfg["title"])
    # ---- partial callback forms (oracle-only: the model has no raising default handler)
    pcases, pscope = partial_cases(tier, chk.rng)
    PH = {}
    for (h, v0, forms) in pcases:
        chk.cov["evaluations"] += 2
        for sig, detail in oracle_partial(kind, h, v0, forms, PH):
            if sig in seen_sigs:
                continue
            seen_sigs.add(sig)
            def still(hh, _sig=sig):
                return any(s == _sig for s, _ in oracle_partial(kind, hh, v0, forms))
            hm = shrink(h, still)
            d2 = [d for s, d in oracle_partial(kind, hm, v0, forms) if s == sig][0]
            chk.violation(f"{cfg['title']}|{sig}",
                          {"class": cfg["title"], "family": "partial", "initial_value_id": v0,
                           "history": hist_json(hm), "forms": {str(k): v for k, v in forms.items()},
                           "pool": [repr(v) for v in POOL.values], "oracle": d2,
                           "expected": "see harness/subj.py:oracle_partial docstring"},
                          size=hist_size(hm))
    prelude = (f"Definition model (c : Z * history Z) := run_history {cfg['cls']} (fst c) {FUEL} (snd c).\n"
               "Definition out_eqb (a b : list (@event Z) * bool) := "
               "list_eqb event_eqb (fst a) (fst b) && Bool.eqb (snd a) (snd b).\n")
    bad, logs = correspond(pid, "k1", SYNC_IMPORTS, "(Z * history Z) * (list (@event Z) * bool)", gal, prelude)
    chk.cov["traces_validated_against_impl"] = len(gal)
    chk.cov["disagreements_checked"] = len(gal)
    if bad:
        firsts = [i for i in bad if i >= 0][:3]
        detail = {"n_disagreements": len(bad), "logs": logs[:1],
                  "first (initial value, history) / implementation log": [gal[i] for i in firsts]}
        if firsts:
            detail["model_says"] = lib.coq_show(pid, SYNC_IMPORTS, f"model {gal[firsts[0]][0]}", prelude)
            detail["history"] = hist_json(cases[firsts[0]][0])
            detail["forms"] = {str(k): v for k, v in cases[firsts[0]][2].items()}
        chk.tie_broken(f"correspondence K1: Subjects model of {cfg['title']} vs implementation", detail)
    chk.cov["distinct_nontrivial"] = len(nontrivial)
    chk.cov["exhaustive"] = True
    chk.cov["rule"] = ("exhaustive small scopes (" + scope["flat_scope"] + "; " + scope["reentrant_scope"] +
                       ") + seeded random call trees (2-6 observers, up to 12 top-level calls, reaction scripts "
                       "of up to 3 callbacks x 2 nested calls per observer; values from a pool headed by None, 0, "
                       "False, '', (), 0.0; error payloads 11, 12 = UserError and 13 = a FALSY exception object "
                       "(__len__ returns 0), in the exhaustive alphabets too).  Every subscriber uses one of four "
                       "equivalent FULL forms -- observer object, three positional callbacks, three keyword "
                       "callbacks, a reactivex Observer instance -- rotated over the exhaustive cases and drawn at "
                       "random otherwise (same model, same oracle).  Oracle-only family `partial`: subscribers "
                       "with on_next only / on_next+on_completed / on_next+on_error (library defaults for the "
                       "rest: on_error RAISES), exhaustive flat histories with observer 0 partial + random trees; "
                       "the real run must equal the run in which those subscribers are observer objects, minus the "
                       "deliveries they cannot see, up to the first firing of the raising default on_error; a "
                       "late subscribe() without on_error must raise the stored error / DisposedException.  "
                       "non-trivial = distinct (history, initial value) with at least two "
                       "deliveries reaching at least two different observers")
    chk.cov["input_distribution"] = dict(H, **{k: v for k, v in scope.items() if isinstance(v, int)})
    chk.cov["partial_forms"] = dict(PH, **pscope)
    step = max(1, len(cases) // 5)
    chk.add_samples([{"history": hist_json(h), "initial_value_id": v0, "forms": {str(k): v for k, v in f.items()}}
                     for (h, v0, f) in cases[scope["exhaustive_flat"] - 1::step]])
    return chk.finish(
        trusted_extra=["K1 driver harness/subj.py (logging observers, try/except around every call, "
                       "attribution of deliveries to the innermost open call)",
                       "Observable.subscribe / AutoDetachObserver / SingleAssignmentDisposable / InnerSubscription "
                       "are modelled inside the engine (Subjects/Subject.v) and covered by the same correspondence"] +
                      (["C23 lock witness: properties installed on a SUBCLASS of AsyncSubject + RLock._is_owned(); "
                        "single-threaded, so it shows WHERE the lock is held, not that holding it suffices"]
                       if kind == "async" else []),
        assumptions=["single thread (the statement's histories are sequential call trees)",
                     "observer callbacks do not raise into the subject (every nested call is wrapped in "
                     "try/except by the driver); raising callbacks are C09's subject; in the partial-form family "
                     "the comparison stops at the first firing of the library's raising default on_error",
                     "the model does not distinguish subscriber forms or truthiness of the exception object "
                     "(error codes are integers): the four full forms and the falsy payload are tied to it by "
                     "the correspondence, the partial forms by the oracle only",
                     "exact closed-form theorems (refinement to the broadcast specification, per-observer view) "
                     "are for histories of top-level calls; for call trees the theorems are the safety "
                     "properties (grammar, unsubscription effective at once, disposal) and the tree behaviour "
                     "is otherwise covered by correspondence + oracle"])


def form_stats(rec, forms, H):
    """coverage: subscriber forms actually used, falsy error payloads, late subscribers after one"""
    falsy_at = None
    for r in rec:
        if r["t"] != "call":
            continue
        if r["op"] == ("err", ERR_FALSY):
            H["falsy_error"] = H.get("falsy_error", 0) + 1
            if falsy_at is None:
                falsy_at = r["id"]
        elif r["op"][0] == "sub":
            f = forms.get(r["op"][1], "obj") if forms else "obj"
            H["forms"][f] = H["forms"].get(f, 0) + 1
    if falsy_at is not None:
        tr = Trace(rec)
        if any(c["op"][0] == "sub" and tr.status_at[c["id"]] == ("term", ("E", ERR_FALSY)) for c in tr.order):
            H["late_subscriber_after_falsy_error"] = H.get("late_subscriber_after_falsy_error", 0) + 1


def forms_from_json(d):
    return {int(k): v for k, v in (d.get("forms") or {}).items()}


def replay_sync(chk, pid, path):
    import json
    d = json.load(open(path))
    if d.get("family") == "shared_observer":
        kind = SYNC[pid]["kind"]
        got = run_shared(kind, d["script"], d["initial_value_id"], True, d["form"])
        exp = run_shared(kind, d["script"], d["initial_value_id"], False, d["form"])
        print("script", d["script"], "form", d["form"])
        print("shared observer received   ", got)
        print("separate observers received", exp)
        if got != exp:
            print(f"VIOLATION property={pid} replay={path}")
        return 1 if got != exp else 0
    if "history" not in d:
        print(json.dumps(d, indent=1))
        return 1
    kind = SYNC[pid]["kind"]
    h, v0, forms = hist_from_json(d["history"]), d.get("initial_value_id", 0), forms_from_json(d)
    print("history", h, "initial value id", v0, "forms", forms)
    if d.get("family") == "partial":
        bad = oracle_partial(kind, h, v0, forms)
        for sh in (True, False):
            rec, probe = run_sync(kind, h, v0, forms, shadow=sh)
            print("object-form (shadow) run" if sh else "partial-form run     ", g_log(rec), "bare-subscribe probe", probe)
    else:
        rec, probe = run_sync(kind, h, v0, forms)
        bad = oracle_sync(kind, h, v0, rec, probe)
        print("implementation log", g_log(rec), "bare-subscribe probe", probe)
    for s, dd in bad:
        print("ORACLE FAILS", s, dd)
    if bad:
        print(f"VIOLATION property={pid} replay={path}")
    return 1 if bad else 0


# --------------------------------------------------------------------------
# C22: ReplaySubject on a virtual-time scheduler
# --------------------------------------------------------------------------

REPLAY_IMPORTS = "Base.Prelude Ops.Machine Subjects.Subject Subjects.Replay Subjects.ReplaySched"


def oracle_replay(hist, bs, w, rec, probe, sync=False, cfg=None):
    """C22 on the observed run.  For every observer o (first subscribe call S, made at virtual
    time T):
      replay(o) = the values of the on_next calls that took effect before S, restricted to the
                  last `bs` of them and to those whose age T - t is <= `w`, in order, followed by
                  the terminal notification if the subject had ended before S;
      later(o)  = the notifications of the emissions that took effect after S, in call order;
      what o received must be a PREFIX of  replay(o) ++ later(o)  cut after its first terminal
      (nothing duplicated, reordered or invented, replay first) and must be ALL of it unless o
      unsubscribed; nothing is delivered to o after its unsubscribe call returned;  after dispose(): subscribe is answered with DisposedException only,
      emissions raise it;  grammar per observer."""
    tr = Trace(rec)
    bad = []
    reentrant = any(c["parent"] is not None for c in tr.order)
    if probe[0] == "constructor-raised":
        return [("constructor-raised|sync=0", {"what": "ReplaySubject(buffer_size, window, scheduler) raised",
                                               "raised": probe[1], "buffer_size": bs, "window": w,
                                               "scheduler": dict(VT_DEFAULT, **(cfg or {})),
                                               "window_argument": repr(window_arg(w, (cfg or VT_DEFAULT).get("scale", 1),
                                                                                  (cfg or VT_DEFAULT).get("wrep", "num")))})]

    def fail(what, **d):
        bad.append((f"{what}|reentrant={int(reentrant)}|sync={int(sync)}",
                    dict(d, what=what, buffer_size=bs, window=w, scheduler="CurrentThreadScheduler" if sync
                         else dict(VT_DEFAULT, **(cfg or {})))))

    for o in tr.observers:
        got = [n for (_, n, _) in tr.view[o]]
        if not wellformed(got):
            fail("grammar", observer=o, received=got)
        S = tr.sub.get(o)
        if S is None:
            if got:
                fail("delivery-to-never-subscribed", observer=o, received=got)
            continue
        st = tr.status_at[S["id"]]
        if st == "disposed":
            if got != [("E", DISPOSED)]:
                fail("subscribe-after-dispose", observer=o, received=got)
            continue
        vals = [(c["now"], c["op"][1]) for c in tr.accepted if c["op"][0] == "next" and c["start"] < S["start"]]
        if bs is not None:
            vals = vals[max(0, len(vals) - bs):] if bs > 0 else []
        if w is not None:
            vals = [(t, v) for (t, v) in vals if S["now"] - t <= w]
        expect = [("N", v) for (_, v) in vals]
        if st != "live":
            expect.append(st[1])
        expect += [note_of(c["op"]) for c in tr.accepted if c["start"] > S["start"]]
        for i, n in enumerate(expect):
            if n[0] != "N":
                expect = expect[:i + 1]
                break
        unsubscribed = any(c["op"] == ("unsub", o) and S["end"] is not None and c["start"] > S["end"]
                           for c in tr.order)
        if unsubscribed:
            u = min(c["end"] for c in tr.order
                    if c["op"] == ("unsub", o) and S["end"] is not None and c["start"] > S["end"])
            late = [n for (i, n, _) in tr.view[o] if i > u]
            if late:
                fail("delivery-after-unsubscribe", observer=o, received_after=late)
        if not _is_prefix(got, expect):
            fail("not-a-prefix-of-replay-then-later", observer=o, received=got, expected=expect,
                 subscribed_at=S["now"])
        elif not unsubscribed and got != expect:
            fail("incomplete", observer=o, received=got, expected=expect, subscribed_at=S["now"])
    for c in tr.order:
        k = c["op"][0]
        st = tr.status_at[c["id"]]
        if k in ("next", "err", "done") and st == "disposed":
            if c["raised"] != DISPOSED:
                fail("emit-after-dispose-did-not-raise", call=c["op"], raised=c["raised"])
        elif c["raised"] is not None:
            fail("call-raised", call=c["op"], raised=c["raised"])
    # a bare subscribe(): DisposedException is raised by _subscribe_core itself; a stored error is
    # only queued on the scheduler (not drained by the probe), so nothing is raised
    want = ("raised", DISPOSED) if tr.final_status == "disposed" else ("returned",)
    if sync and tr.final_status not in ("disposed", "live") and tr.final_status[1][0] == "E":
        want = ("raised", tr.final_status[1][1])     # the stored error is delivered inline and re-raised
    if probe != want:
        fail("bare-subscribe", probe=probe, expected=want, status=tr.final_status)
    return bad


def replay_cases(tier, rng):
    """virtual-time cases (history, buffer_size, window, cfg, forms); see run_replay for cfg"""
    a, b = 0, 2
    alpha = [("sub", 0), ("sub", 1), ("next", a), ("next", b), ("adv", 1), ("adv", 2), ("done",), ("unsub", 0)]
    if tier == "quick":
        L, configs = 3, [(None, None), (0, None), (1, None), (2, 1), (None, 1), (1, 2), (2, 0)]
    else:
        L, configs = 4, [(bs, w) for bs in (None, 0, 1, 2, 3) for w in (None, 0, 1, 2)]

    def rot_cfg(i, drains="auto"):
        # deterministic rotation: window representation x tick length x scheduler class
        return {"sched": SCHEDS[(i // 15) % 3] if i % 2 else "vt", "scale": SCALES[(i // 5) % 3],
                "wrep": WREPS[i % 5], "drains": drains}

    cases = []
    for (bs, w) in configs:
        for i, h in enumerate(enum_flat(alpha, L)):
            cases.append((h, bs, w, rot_cfg(i), {}))
    n_flat = len(cases)
    # ---- explicit drains: exhaustive small scope.  The alphabet has the drain itself; the runner adds the
    # final one.  Two families: from scratch, and behind `next a; next b; sub 0` (a replay is queued).
    xalpha = [("sub", 0), ("sub", 1), ("next", a), ("unsub", 0), ("adv", 1), ("done",), ("err", ERR_FALSY),
              ("drain",)]
    if tier == "quick":
        xconfigs, xl, xpre = [(None, None), (1, None), (2, 1)], 3, [(None, None), (2, 1)]
    else:
        xconfigs, xl = [(None, None), (0, None), (1, None), (2, 1), (None, 0), (1, 2)], 4
        xpre = [(None, None), (2, 1), (1, 2)]
    for (bs, w) in xconfigs:
        for i, h in enumerate(enum_flat(xalpha, xl)):
            cases.append((h, bs, w, rot_cfg(i, "explicit"), {}))
            if h[0] and (bs, w) in xpre:
                cases.append((([("next", a), ("next", b), ("sub", 0)] + h[0], {}), bs, w, rot_cfg(i + 7, "explicit"), {}))
    n_xflat = len(cases) - n_flat
    nrand = 600 if tier == "quick" else 15000
    for _ in range(nrand):
        cfg = {"sched": rng.choice(SCHEDS), "scale": rng.choice(SCALES), "wrep": rng.choice(WREPS), "drains": "auto"}
        cases.append((gen_history(rng, adv=True), rng.choice([None, 0, 1, 2, 3, 4]),
                      rng.choice([None, None, 0, 1, 2, 3, 5, 100]), cfg, rand_forms(rng)))
    nxrand = 700 if tier == "quick" else 15000
    for _ in range(nxrand):
        cfg = {"sched": rng.choice(SCHEDS), "scale": rng.choice(SCALES), "wrep": rng.choice(WREPS),
               "drains": "explicit"}
        top, scripts = gen_history(rng, adv=True)
        p = rng.choice([0.0, 0.3, 0.7])
        top2 = []
        for op in top:
            top2.append(op)
            if rng.random() < p:
                top2.append(("drain",))
        cases.append(((top2, scripts), rng.choice([None, 0, 1, 2, 3, 4]),
                      rng.choice([None, None, 0, 1, 2, 3, 5, 100]), cfg, rand_forms(rng)))
    return cases, {"exhaustive_flat": n_flat, "explicit_drain_exhaustive": n_xflat, "random": nrand,
                   "explicit_drain_random": nxrand,
                   "flat_scope": f"all sequences of length <= {L} over {alpha} x (buffer_size, window) in {configs}",
                   "explicit_scope": f"all sequences of length <= {xl} over {xalpha} x (buffer_size, window) in "
                                     f"{xconfigs}, and the same behind `next a; next b; sub 0` for {xpre}"}


def replay_sync_cases(tier, rng):
    """histories for the default (trampoline) scheduler: no clock advances, no window.
    Exhaustive: two live subscribers, every tail of <= 2 emissions, one of them reacting inside its
    first or second callback with one call (emit / complete / fail / unsubscribe / subscribe / dispose)."""
    a, b, c = 0, 2, 1
    cases = []
    tail = [("next", a), ("next", b), ("done",), ("err", ERR_FALSY), ("sub", 2), ("unsub", 1)]
    reactions = [("next", c), ("done",), ("err", 12), ("unsub", 0), ("unsub", 1), ("sub", 3), ("dispose",)]
    configs = [None, 0, 1, 2] if tier == "quick" else [None, 0, 1, 2, 3]
    L = 2 if tier == "quick" else 3
    for bs in configs:
        for n in range(1, L + 1):
            for t in itertools.product(tail, repeat=n):
                for who in (0, 1):
                    for r in reactions:
                        for when in (0, 1):
                            sc = [[], [r]] if when else [[r]]
                            cases.append((([("sub", 0), ("sub", 1)] + list(t), {who: sc}), bs, None,
                                          rot_forms(len(cases), 4)))
    n_ex = len(cases)
    alpha = [("sub", 0), ("sub", 1), ("next", a), ("next", b), ("done",), ("unsub", 0), ("dispose",)]
    for bs in (None, 1):
        cases += [(h, bs, None, rot_forms(i, 2)) for i, h in enumerate(enum_flat(alpha, 3))]
    n_flat = len(cases) - n_ex
    nrand = 700 if tier == "quick" else 12000
    for _ in range(nrand):
        cases.append((gen_history(rng, adv=False), rng.choice([None, 0, 1, 2, 3, 4]),
                      rng.choice([None, None, 1000000]), rand_forms(rng)))
    return cases, {"sync_exhaustive_reentrant": n_ex, "sync_exhaustive_flat": n_flat, "sync_random": nrand}


def xd_stats(rec, H):
    """coverage of the explicit-drain mode: top-level calls made while scheduler actions are queued"""
    q = H.setdefault("top_level_call_while_actions_queued", {})
    for r in rec:
        if r["t"] == "call" and r["parent"] is None and r.get("pending"):
            q[r["op"][0]] = q.get(r["op"][0], 0) + 1


def check_replay(chk):
    import lib
    from lib import gopt
    pid = "C22"
    proved = chk.build_and_prove()
    tier = chk.tier if proved and not chk.broken else "thorough"
    if tier != chk.tier:
        chk.cov["search"] = "theorem file or build broke: case set enlarged to the thorough scope"
    cases, scope = replay_cases(tier, chk.rng)
    gal2, kept2, H, nontrivial, kept = [], [], new_hist(), set(), []
    seen_sigs = set()
    H.update({"spinning_discarded": 0, "buffer_size": {}, "window": {}, "age_equals_window": 0,
              "replayed_values": 0, "falsy_error": 0, "late_subscriber_after_falsy_error": 0, "forms": {},
              "scheduler": {}, "window_representation": {}, "tick_seconds": {}, "drains": {}})
    nontrivial_x = set()
    for (h, bs, w, cfg, forms) in cases:
        rec, probe, ok = run_replay(h, bs, w, cfg, forms)
        chk.cov["evaluations"] += 1
        if not ok:
            H["spinning_discarded"] += 1
            continue
        explicit = cfg["drains"] == "explicit"
        hist_stats(h, rec, H)
        form_stats(rec, forms, H)
        H["buffer_size"][str(bs)] = H["buffer_size"].get(str(bs), 0) + 1
        H["window"][str(w)] = H["window"].get(str(w), 0) + 1
        H["scheduler"][cfg["sched"]] = H["scheduler"].get(cfg["sched"], 0) + 1
        H["drains"][cfg["drains"]] = H["drains"].get(cfg["drains"], 0) + 1
        H["tick_seconds"][str(cfg["scale"])] = H["tick_seconds"].get(str(cfg["scale"]), 0) + 1
        if w is not None:
            H["window_representation"][cfg["wrep"]] = H["window_representation"].get(cfg["wrep"], 0) + 1
        tr = Trace(rec)
        if explicit:
            xd_stats(rec, H)
        if w is not None:
            for o, S in tr.sub.items():
                if any(c["op"][0] == "next" and c["start"] < S["start"] and S["now"] - c["now"] == w
                       for c in tr.accepted):
                    H["age_equals_window"] += 1
                    break
        if any(len(tr.view[o]) >= 2 for o in tr.observers) and is_nontrivial(rec):
            (nontrivial_x if explicit else nontrivial).add(hist_key(h) + repr((bs, w)))
        for sig, detail in oracle_replay(h, bs, w, rec, probe, cfg=cfg):
            if sig in seen_sigs:
                continue
            seen_sigs.add(sig)
            def still(hh, _sig=sig):
                r2, p2, ok2 = run_replay(hh, bs, w, cfg, forms)
                return ok2 and any(s == _sig for s, _ in oracle_replay(hh, bs, w, r2, p2, cfg=cfg))
            hm = shrink(h, still)
            r2, p2, _ = run_replay(hm, bs, w, cfg, forms)
            d2 = [d for s, d in oracle_replay(hm, bs, w, r2, p2, cfg=cfg) if s == sig][0]
            chk.violation(f"ReplaySubject|{sig}",
                          {"class": "ReplaySubject", "buffer_size": bs, "window": w, "history": hist_json(hm),
                           "vt": cfg, "window_argument": repr(window_arg(w, cfg["scale"], cfg["wrep"])),
                           "forms": {str(k): v for k, v in forms.items()},
                           "pool": [repr(v) for v in POOL.values],
                           "error_codes": "11, 12: UserError; 13: FalsyUserError (bool(e) is False)",
                           "implementation_log": g_log(r2, "R", "RE"), "oracle": d2,
                           "expected": "see harness/subj.py:oracle_replay docstring"},
                          size=hist_size(hm))
        gal2.append((f"(false, (({gopt(bs)}, {gopt(w)}), {g_xhist(h, cfg['drains'])}))",
                     f"({g_log(rec, 'R', 'RE')}, true)"))
        kept2.append((cfg["drains"], h, bs, w, cfg))
        kept.append((h, bs, w, cfg))
    # ---- the same property with the default scheduler (CurrentThreadScheduler trampoline)
    scases, sscope = replay_sync_cases(tier, chk.rng)
    H["sync"] = new_hist()
    H["sync"].update({"trampoline_not_idle_discarded": 0, "forms": {}})
    nontrivial_sync = set()
    for (h, bs, w, forms) in scases:
        rec, probe, ok = run_replay_sync(h, bs, w, forms)
        chk.cov["evaluations"] += 1
        if not ok:
            H["sync"]["trampoline_not_idle_discarded"] += 1
            continue
        hist_stats(h, rec, H["sync"])
        form_stats(rec, forms, H["sync"])
        tr = Trace(rec)
        if any(len(tr.view[o]) >= 2 for o in tr.observers) and is_nontrivial(rec):
            nontrivial_sync.add(hist_key(h) + repr((bs, w)))
        for sig, detail in oracle_replay(h, bs, w, rec, probe, sync=True):
            if sig in seen_sigs:
                continue
            seen_sigs.add(sig)
            def still(hh, _sig=sig):
                r2, p2, ok2 = run_replay_sync(hh, bs, w, forms)
                return ok2 and any(s == _sig for s, _ in oracle_replay(hh, bs, w, r2, p2, sync=True))
            hm = shrink(h, still)
            r2, p2, _ = run_replay_sync(hm, bs, w, forms)
            d2 = [d for s, d in oracle_replay(hm, bs, w, r2, p2, sync=True) if s == sig][0]
            chk.violation(f"ReplaySubject|{sig}",
                          {"class": "ReplaySubject", "scheduler": "default (CurrentThreadScheduler)",
                           "buffer_size": bs, "window": w, "history": hist_json(hm),
                           "forms": {str(k): v for k, v in forms.items()},
                           "pool": [repr(v) for v in POOL.values],
                           "error_codes": "11, 12: UserError; 13: FalsyUserError (bool(e) is False)",
                           "implementation_log": g_log(r2, "R", "RE"), "oracle": d2,
                           "expected": "see harness/subj.py:oracle_replay docstring (per-subscriber order = "
                                       "retained values then later notifications in call order)"},
                          size=hist_size(hm))
        gal2.append((f"(true, (({gopt(bs)}, {gopt(w)}), {g_xhist(h, 'sync')}))",
                     f"({g_log(rec, 'R', 'RE')}, true)"))
        kept2.append(("sync", h, bs, w, None))
    prelude2 = (f"Definition model (c : bool * ((option Z * option Z) * xhistory Z)) := "
                f"run_xhistory (fst c) (fst (fst (snd c))) (snd (fst (snd c))) {FUEL} (snd (snd c)).\n"
                "Definition out_eqb (a b : list (@revent Z) * bool) := "
                "list_eqb revent_eqb (fst a) (fst b) && Bool.eqb (snd a) (snd b).\n")
    bad2, logs2 = correspond(pid, "k1s", REPLAY_IMPORTS,
                             "(bool * ((option Z * option Z) * xhistory Z)) * (list (@revent Z) * bool)",
                             gal2, prelude2)
    if bad2:
        firsts = [i for i in bad2 if i >= 0][:3]
        detail = {"n_disagreements": len(bad2), "logs": logs2[:1],
                  "first (sync?, ((buffer_size, window), program)) / implementation log": [gal2[i] for i in firsts]}
        if firsts:
            detail["model_says"] = lib.coq_show(pid, REPLAY_IMPORTS, f"model {gal2[firsts[0]][0]}", prelude2)
            k0 = kept2[firsts[0]]
            detail["mode, history, buffer_size, window, vt"] = (k0[0], hist_json(k0[1]), k0[2], k0[3], k0[4])
        chk.tie_broken("correspondence K1: Subjects/ReplaySched.v (default scheduler / virtual time with automatic "
                       "or explicit drains) vs ReplaySubject", detail)
    chk.cov["traces_validated_against_impl"] = len(gal2)
    chk.cov["disagreements_checked"] = len(gal2)
    chk.cov["distinct_nontrivial"] = len(nontrivial) + len(nontrivial_sync) + len(nontrivial_x)
    chk.cov["distinct_nontrivial_by_scheduler"] = {"virtual time, drained after every call": len(nontrivial),
                                                   "virtual time, explicit drains": len(nontrivial_x),
                                                   "CurrentThreadScheduler": len(nontrivial_sync)}
    scope.update(sscope)
    chk.cov["exhaustive"] = True
    chk.cov["rule"] = ("THREE drain disciplines.  (a) default CurrentThreadScheduler (trampoline; drains run inline at top "
                       "level, queued when scheduled from inside a callback): exhaustive `sub0 sub1 ++ tails of <= 2/3 "
                       "emissions` with observer 0 or 1 reacting in its 1st or 2nd callback with one of next/done/err/"
                       "unsub0/unsub1/sub3/dispose, buffer_size None,0,1,2(,3); exhaustive flat histories of length "
                       "<= 3; seeded random call trees.  (b) virtual time, drained after every top-level call: "
                       "exhaustive small scope (" + scope["flat_scope"] + ") + seeded random call trees (as C20, plus "
                       "clock advances 0..5 ticks) with buffer_size in None,0..4 and window in None,0,1,2,3,5,100 "
                       "ticks.  (c) virtual time with EXPLICIT drains: ('drain',) is a history operation (plus one final "
                       "drain), so top-level unsubscribe / emission / subscribe / clock advance happen while replay "
                       "items are still queued: exhaustive (" + scope["explicit_scope"] + ") + random trees with a "
                       "drain after each call with probability 0, 0.3 or 0.7.  In (b),(c) the scheduler is a "
                       "VirtualTimeScheduler (float clock) or a HistoricalScheduler (datetime clock, default or "
                       "explicit initial instant), one tick is 1, 0.5 or 0.25 s, and the window is handed over as "
                       "int / float / timedelta / a fractional float or timedelta half a tick longer (rotated over "
                       "the exhaustive cases, random otherwise); none of this is visible to the model.  Error "
                       "payloads include a falsy exception object; subscribers use the four full forms of C20.  "
                       "non-trivial = distinct (history, configuration) with deliveries to >= 2 observers, one "
                       "of which received >= 2 notifications")
    chk.cov["input_distribution"] = dict(H, **{k: v for k, v in scope.items() if isinstance(v, int)})
    step = max(1, len(kept) // 5)
    chk.add_samples([{"history": hist_json(h), "buffer_size": bs, "window": w, "vt": cfg}
                     for (h, bs, w, cfg) in kept[step - 1::step]])
    return chk.finish(
        trusted_extra=["K1 driver harness/subj.py; scheduler modes: (a) the DEFAULT CurrentThreadScheduler "
                       "(real trampoline; nothing is drained by the driver), (b)/(c) a real VirtualTimeScheduler or "
                       "HistoricalScheduler drained by the driver with start() after every top-level call / where the "
                       "history says so; the FIFO of either is modelled (r_sched) "
                       "and covered by the correspondence with Subjects/ReplaySched.v (run_xhistory)",
                       "ScheduledObserver, SerialDisposable, RemovableDisposable, AutoDetachObserver modelled in "
                       "Subjects/Replay.v"],
        assumptions=["single thread; observer callbacks do not raise",
                     "fewer than 100 scheduler actions per drain (VirtualTimeScheduler.start bumps the clock "
                     "after 100 actions at one instant; such runs are discarded and counted: spinning_discarded)",
                     "buffer_size >= 0 or None; clock advances >= 0 whole ticks (a tick is 1, 0.5 or 0.25 s); the "
                     "window is a whole number of ticks or half a tick more (equivalent, ages being whole ticks): "
                     "the model computes in ticks",
                     "default-scheduler mode: the scheduler clock is the wall clock, so only window None or "
                     "10**6 s is used there (time windows are exercised in virtual-time mode); other schedulers "
                     "(ImmediateScheduler, event loops, thread pools) are not exercised",
                     "partial subscriber forms (default raising on_error) are exercised for C20/C21/C23 only: here a "
                     "raising handler would run inside a scheduler action"])


def replay_replay(chk, path):
    import json
    d = json.load(open(path))
    if "history" not in d:
        print(json.dumps(d, indent=1))
        return 1
    h, forms = hist_from_json(d["history"]), forms_from_json(d)
    sync = str(d.get("scheduler", "")).startswith("default")
    cfg = d.get("vt")
    if sync:
        rec, probe, ok = run_replay_sync(h, d["buffer_size"], d["window"], forms)
    else:
        rec, probe, ok = run_replay(h, d["buffer_size"], d["window"], cfg, forms)
    bad = oracle_replay(h, d["buffer_size"], d["window"], rec, probe, sync=sync, cfg=cfg)
    print("scheduler", "default CurrentThreadScheduler" if sync else dict(VT_DEFAULT, **(cfg or {})))
    print("history", h, "buffer_size", d["buffer_size"], "window", d["window"], "forms", forms)
    print("implementation log", g_log(rec, "R", "RE"), "bare-subscribe probe", probe)
    for s, dd in bad:
        print("ORACLE FAILS", s, dd)
    if bad:
        print(f"VIOLATION property=C22 replay={path}")
    return 1 if bad else 0
