"""K1 (history replay) machinery shared by C20-C23: Subject, BehaviorSubject,
AsyncSubject (synchronous delivery) and ReplaySubject (delivery through a
ScheduledObserver on a VirtualTimeScheduler that the driver drains after every
top-level operation).

A history is a TREE of calls:
    top     : [op]                     operations issued by the driver
    scripts : {o: [[op], [op], ...]}   what observer o does from inside its k-th callback
    op      : ('sub', o) | ('unsub', o) | ('next', value_id) | ('err', code) | ('done',) |
              ('dispose',) | ('adv', d)                      (adv: ReplaySubject only)
Driver rules (mirrored by the Coq engines Subjects/Subject.v and Subjects/Replay.v):
  * every operation, nested ones included, runs inside try/except; an exception
    is logged as ('raised', code) -- callbacks never raise into the library;
  * ('sub', o) with an id used before is skipped; ('unsub', o) while subscribe()
    of o has not returned (no handle yet) is skipped;
  * subscribers are observer OBJECTS with all three handlers; Observable.subscribe
    wraps them in an AutoDetachObserver.

The record list a run produces is richer than what the model is compared on:
every 'got' carries the id of the innermost open call (the oracle's attribution
of a delivery to the call that made it)."""
from __future__ import annotations

import itertools

import k2
import lib
from lib import gz

POOL = k2.Pool(k2.POOL)
NONE_ID = POOL.id(None)
DISPOSED = k2.LIB_ERRORS["DisposedException"]


# --------------------------------------------------------------------------
# driver
# --------------------------------------------------------------------------

class LogObserver:
    """observer object handed to subject.subscribe()"""

    def __init__(self, drv, o):
        self.drv, self.o = drv, o

    def _cb(self, n):
        d = self.drv
        d.rec.append({"t": "got", "o": self.o, "n": n, "call": d.stack[-1] if d.stack else None,
                      "drain": d.in_drain})
        k = d.calls[self.o]
        d.calls[self.o] = k + 1
        sc = d.scripts.get(self.o, [])
        if k < len(sc):
            for op in sc[k]:
                d.do(op, in_cb=(self.o, k))

    def on_next(self, v):
        self._cb(("N", POOL.id(v)))

    def on_error(self, e):
        self._cb(("E", k2.err_id(e)))

    def on_completed(self):
        self._cb(("C",))


class Driver:
    def __init__(self, subject, scripts, scheduler=None):
        self.subject, self.scripts, self.scheduler = subject, scripts, scheduler
        self.rec = []
        self.handles, self.calls, self.stack = {}, {}, []
        self.ncalls = 0
        self.in_drain = False
        self.clock_expected = 0

    def do(self, op, in_cb=None):
        cid = self.ncalls
        self.ncalls += 1
        self.rec.append({"t": "call", "id": cid, "op": op, "parent": self.stack[-1] if self.stack else None,
                         "in_cb": in_cb, "now": self.clock_expected})
        self.stack.append(cid)
        raised = None
        try:
            k = op[0]
            s = self.subject
            if k == "sub":
                o = op[1]
                if o not in self.calls:
                    self.calls[o] = 0
                    h = s.subscribe(LogObserver(self, o))
                    self.handles[o] = h
            elif k == "unsub":
                h = self.handles.get(op[1])
                if h is not None:
                    h.dispose()
            elif k == "next":
                s.on_next(POOL.val(op[1]))
            elif k == "err":
                s.on_error(k2.UserError(op[1]))
            elif k == "done":
                s.on_completed()
            elif k == "dispose":
                s.dispose()
            elif k == "adv":
                self.scheduler.sleep(op[1])
                self.clock_expected += op[1]
            else:
                raise AssertionError(op)
        except Exception as e:   # noqa: BLE001  (the driver's try/except around every operation)
            raised = k2.err_id(e)
        self.stack.pop()
        self.rec.append({"t": "ret", "id": cid, "raised": raised})

    def drain(self):
        """run everything the virtual-time scheduler holds (ReplaySubject only)"""
        from reactivex.scheduler import VirtualTimeScheduler
        self.in_drain = True
        self.rec.append({"t": "drain"})
        VirtualTimeScheduler.start(self.scheduler)
        self.in_drain = False


def make_subject(kind, v0=None, buffer_size=None, window=None, scheduler=None):
    from reactivex.subject import AsyncSubject, BehaviorSubject, ReplaySubject, Subject
    if kind == "subject":
        return Subject()
    if kind == "behavior":
        return BehaviorSubject(POOL.val(v0))
    if kind == "async":
        return AsyncSubject()
    if kind == "replay":
        return ReplaySubject(buffer_size, window, scheduler)
    raise AssertionError(kind)


def run_sync(kind, hist, v0=None):
    """-> (records, probe) ; probe = what a bare subject.subscribe() does at the end
    ('raised', code) | ('returned',)"""
    top, scripts = hist
    s = make_subject(kind, v0)
    d = Driver(s, scripts)
    for op in top:
        d.do(op)
    return d.rec, bare_probe(s)


def bare_probe(s):
    """the literal reading of 'subscribing raises': a subscriber without error handler"""
    try:
        s.subscribe()
        return ("returned",)
    except Exception as e:   # noqa: BLE001
        return ("raised", k2.err_id(e))


def run_replay(hist, buffer_size, window):
    """ReplaySubject on a VirtualTimeScheduler (clock in seconds = ticks, starts at 0).
    After every top-level operation the scheduler is drained with start(): all
    pending ScheduledObserver.run actions are due at the current clock, so they
    run in FIFO order and the clock does not move.  -> (records, probe, ok) where ok
    is False if the clock moved on its own (VirtualTimeScheduler's anti-spinning
    bump after 100 actions at one instant), which the model does not cover."""
    from reactivex.scheduler import VirtualTimeScheduler
    top, scripts = hist
    sch = VirtualTimeScheduler()
    s = make_subject("replay", buffer_size=buffer_size, window=window, scheduler=sch)
    d = Driver(s, scripts, scheduler=sch)
    for op in top:
        d.do(op)
        d.drain()
    ok = float(sch._clock) == float(d.clock_expected)
    return d.rec, bare_probe(s), ok


def run_replay_sync(hist, buffer_size, window=None):
    """ReplaySubject with its DEFAULT scheduler (CurrentThreadScheduler.singleton(): a trampoline).
    No drain calls: a ScheduledObserver drain scheduled from a top-level call runs inline (the
    trampoline is idle), one scheduled from inside an observer callback is queued behind the
    running one.  subscribe() at top level is itself a trampoline action, so the replay is
    delivered before it returns.  The clock is the wall clock: ('adv', d) is not used here and
    `window` is None or far larger than a run lasts.  -> (records, probe, ok)"""
    from reactivex.scheduler import CurrentThreadScheduler
    top, scripts = hist
    tramp = CurrentThreadScheduler.singleton().get_trampoline()
    ok = tramp.idle()
    s = make_subject("replay", buffer_size=buffer_size, window=window, scheduler=None)
    d = Driver(s, scripts, scheduler=None)
    for op in top:
        if op[0] == "adv":
            continue
        d.do(op)
        ok = ok and tramp.idle()
    return d.rec, bare_probe(s), ok


# --------------------------------------------------------------------------
# Gallina
# --------------------------------------------------------------------------

def g_op(op, pre="O"):
    k = op[0]
    if k == "sub":
        return f"{pre}Sub {op[1]}%nat"
    if k == "unsub":
        return f"{pre}Unsub {op[1]}%nat"
    if k == "next":
        return f"{pre}Next {gz(op[1])}"
    if k == "err":
        return f"{pre}Err {gz(op[1])}"
    if k == "done":
        return f"{pre}Done"
    if k == "dispose":
        return f"{pre}Dispose"
    if k == "adv":
        return f"{pre}Advance {gz(op[1])}"
    raise AssertionError(op)


def g_ops(ops, pre="O"):
    return "[" + "; ".join(g_op(o, pre) for o in ops) + "]"


def g_hist(hist, pre="O"):
    top, scripts = hist
    sc = "; ".join(f"({o}%nat, [" + "; ".join(g_ops(r, pre) for r in rs) + "])" for o, rs in sorted(scripts.items()))
    return f"({g_ops(top, pre)}, [{sc}])"


def g_note(n):
    if n[0] == "N":
        return f"Next {gz(n[1])}"
    if n[0] == "E":
        return f"Err {gz(n[1])}"
    return "Done"


def g_log(rec, pre="O", epre="E"):
    out = []
    for r in rec:
        if r["t"] == "call":
            out.append(f"{epre}Op ({g_op(r['op'], pre)})")
        elif r["t"] == "got":
            out.append(f"{epre}Got {r['o']}%nat ({g_note(r['n'])})")
        elif r["t"] == "ret" and r["raised"] is not None:
            out.append(f"{epre}Raised {gz(r['raised'])}")
    return "[" + "; ".join(out) + "]"


# --------------------------------------------------------------------------
# generators
# --------------------------------------------------------------------------

VALS = [0, 1, 2, 3, 4, 5, 8, 10]      # pool ids: None 0 False '' () 0.0 1 'a'


def gen_op(rng, nobs, nested=False, adv=False, used=None):
    r = rng.random()
    if adv and not nested and r < 0.14:
        return ("adv", rng.choice([0, 1, 1, 2, 3, 5]))
    r = rng.random()
    if r < 0.24:
        return ("sub", rng.randrange(nobs))
    if r < 0.38:
        return ("unsub", rng.randrange(nobs))
    if r < 0.78:
        return ("next", rng.choice(VALS))
    if r < 0.85:
        return ("err", rng.choice([11, 12]))
    if r < 0.94:
        return ("done",)
    return ("dispose",)


def gen_history(rng, adv=False, flat=None):
    nobs = rng.choice([2, 3, 4, 5])
    n = rng.choice([1, 2, 3, 4, 5, 6, 7, 8, 10])
    top = []
    # most histories start by subscribing somebody
    if rng.random() < 0.7:
        top.append(("sub", 0))
    for _ in range(n):
        top.append(gen_op(rng, nobs, adv=adv))
    if rng.random() < 0.35:                       # late subscriber at the very end
        top.append(("sub", nobs))
        nobs += 1
    scripts = {}
    if flat is None:
        flat = rng.random() < 0.3
    if not flat:
        for o in range(nobs):
            if rng.random() < 0.55:
                scripts[o] = [[gen_op(rng, nobs + 1, nested=True) for _ in range(rng.choice([0, 1, 1, 1, 2]))]
                              for _ in range(rng.choice([1, 2, 3]))]
    return (top, scripts)


def enum_flat(alphabet, maxlen):
    for n in range(maxlen + 1):
        for t in itertools.product(alphabet, repeat=n):
            yield (list(t), {})


def enum_reentrant(prefix, alphabet, reactions, tail_len):
    """prefix ++ every tail of length <= tail_len, with observer 0 (and 1) reacting
    inside their first callback with one operation of `reactions`"""
    for n in range(1, tail_len + 1):
        for t in itertools.product(alphabet, repeat=n):
            for who in (0, 1):
                for r in reactions:
                    yield (list(prefix) + list(t), {who: [[r]]})


def is_nontrivial(rec):
    """at least two deliveries to at least two distinct observers"""
    got = [r for r in rec if r["t"] == "got"]
    return len(got) >= 2 and len({r["o"] for r in got}) >= 2


def hist_key(hist):
    top, scripts = hist
    return repr((top, sorted(scripts.items())))


def hist_stats(hist, rec, h):
    top, scripts = hist
    h["len"][len(top)] = h["len"].get(len(top), 0) + 1
    nested = [r for r in rec if r["t"] == "call" and r["in_cb"] is not None]
    h["reentrant"] += 1 if nested else 0
    for r in nested:
        k = "nested_" + r["op"][0]
        h[k] = h.get(k, 0) + 1
    for r in rec:
        if r["t"] == "call" and r["op"][0] == "next" and r["op"][1] < 6:
            h["falsy_values"] += 1
            break
    if any(r["t"] == "ret" and r["raised"] is not None for r in rec):
        h["raised"] += 1
    if any(r["t"] == "call" and r["op"][0] == "dispose" for r in rec):
        h["with_dispose"] += 1


def new_hist():
    return {"len": {}, "reentrant": 0, "falsy_values": 0, "raised": 0, "with_dispose": 0}


# --------------------------------------------------------------------------
# oracle helpers (independent of the model): call intervals and attribution
# --------------------------------------------------------------------------

class Trace:
    """index of one run's records"""

    def __init__(self, rec):
        self.rec = rec
        self.calls = {}       # cid -> dict(op, start, end, raised, parent)
        for i, r in enumerate(rec):
            if r["t"] == "call":
                self.calls[r["id"]] = {"op": r["op"], "start": i, "end": None, "raised": None,
                                       "parent": r["parent"], "now": r.get("now", 0), "id": r["id"]}
            elif r["t"] == "ret":
                self.calls[r["id"]]["end"] = i
                self.calls[r["id"]]["raised"] = r["raised"]
        self.order = sorted(self.calls.values(), key=lambda c: c["start"])
        self.observers = sorted({r["o"] for r in rec if r["t"] == "got"} |
                                {c["op"][1] for c in self.order if c["op"][0] == "sub"})
        # first subscribe call per observer (later ones are skipped by the driver)
        self.sub = {}
        for c in self.order:
            if c["op"][0] == "sub" and c["op"][1] not in self.sub:
                self.sub[c["op"][1]] = c
        self.view = {o: [(i, r["n"], r["call"]) for i, r in enumerate(rec) if r["t"] == "got" and r["o"] == o]
                     for o in self.observers}
        # subject status at the start of every call: 'live' | ('term', note) | 'disposed'
        self.status_at = {}
        status = "live"
        self.accepted = []     # emission calls that took effect (subject live at their start)
        for c in self.order:
            self.status_at[c["id"]] = status
            k = c["op"][0]
            if k == "dispose":
                status = "disposed"
            elif status == "live":
                if k == "err":
                    status = ("term", ("E", c["op"][1]))
                    self.accepted.append(c)
                elif k == "done":
                    status = ("term", ("C",))
                    self.accepted.append(c)
                elif k == "next":
                    self.accepted.append(c)
        self.final_status = status

    def ended_at(self, o):
        """index of the first record at which o stops being subscribed by its own doing or by a
        terminal it received: start of an unsub(o) call that finds a handle, or a terminal delivery"""
        sub = self.sub.get(o)
        best = None
        for c in self.order:
            if c["op"] == ("unsub", o) and sub is not None and sub["end"] is not None and c["start"] > sub["end"]:
                best = c["start"]
                break
        for (i, n, _) in self.view.get(o, []):
            if n[0] != "N":
                best = i if best is None else min(best, i)
                break
        return best


def wellformed(notes):
    for i, n in enumerate(notes):
        if n[0] != "N" and i != len(notes) - 1:
            return False
    return True


def note_of(op):
    if op[0] == "next":
        return ("N", op[1])
    if op[0] == "err":
        return ("E", op[1])
    return ("C",)


# --------------------------------------------------------------------------
# oracles: the property statements, evaluated on the implementation's records
# --------------------------------------------------------------------------

def _children(tr, cid, o):
    """notifications delivered to o directly by call cid (innermost open call)"""
    return [n for (_, n, c) in tr.view.get(o, []) if c == cid]


def _is_prefix(a, b):
    return len(a) <= len(b) and b[:len(a)] == a


def oracle_sync(kind, hist, v0, rec, probe):
    """-> list of (signature, detail).  kind: subject | behavior | async.
    Statement checked (C20/C21/C23), directly on the observed run:
      * every delivery is made by an emission call that took effect (subject live when the
        call started) and carries that call's notification, or is part of the greeting of the
        receiver's own subscribe call;  [=> call order among non-overlapping calls]
      * an emission that took effect reaches every observer whose subscribe() had returned
        before the call started and which has neither unsubscribed nor received a terminal
        (exactly once / with the class's answer); observers that unsubscribe or are terminated
        by another call WHILE the call is in progress may miss (a suffix of) it; nobody else
        receives anything from it;
      * emissions on an ended subject do nothing, on a disposed subject raise DisposedException;
      * greeting: live -> nothing (Subject, Async) / the current value first (Behavior);
        ended -> only the terminal (Async after completion: last value, completion);
        disposed -> only DisposedException; a bare subscribe() raises it;
      * each observer's sequence is  on_next* (on_error|on_completed)?"""
    tr = Trace(rec)
    bad = []
    reentrant = any(c["parent"] is not None for c in tr.order)

    def fail(what, **d):
        bad.append((f"{what}|reentrant={int(reentrant)}", dict(d, what=what)))

    for o in tr.observers:
        if not wellformed([n for (_, n, _) in tr.view[o]]):
            fail("grammar", observer=o, received=[n for (_, n, _) in tr.view[o]])

    # the value the subject holds at record index i: last accepted on_next started before i
    def last_value(i):
        v, has = v0, False
        for c in tr.accepted:
            if c["op"][0] == "next" and c["start"] < i:
                v, has = c["op"][1], True
        return v, has

    def answer(c):
        """what one subscribed observer receives from accepted emission c"""
        op = c["op"]
        if kind == "async":
            if op[0] == "next":
                return []
            if op[0] == "done":
                v, has = last_value(c["start"])
                return ([("N", v)] if has else []) + [("C",)]
        return [note_of(op)]

    def greeting(c):
        st = tr.status_at[c["id"]]
        if st == "disposed":
            return [("E", DISPOSED)]
        if st == "live":
            if kind == "behavior":
                return [("N", last_value(c["start"])[0])]
            return []
        t = st[1]
        if kind == "async" and t == ("C",):
            v, has = last_value(c["start"])
            return ([("N", v)] if has else []) + [("C",)]
        return [t]

    accepted_ids = {c["id"] for c in tr.accepted}
    # 1. attribution of every delivery
    for o in tr.observers:
        for (i, n, cid) in tr.view[o]:
            if cid is None:
                fail("delivery-outside-any-call", observer=o, note=n)
                continue
            c = tr.calls[cid]
            k = c["op"][0]
            if k in ("next", "err", "done"):
                if cid not in accepted_ids:
                    fail("delivery-from-ineffective-call", observer=o, note=n, call=c["op"],
                         status=tr.status_at[cid])
                elif n not in answer(c):
                    fail("wrong-notification", observer=o, note=n, call=c["op"])
            elif k == "sub":
                if c["op"][1] != o or tr.sub.get(o) is not c:
                    fail("greeting-to-wrong-observer", observer=o, note=n, call=c["op"])
            else:
                fail("delivery-from-non-emitting-call", observer=o, note=n, call=c["op"])
    # 2. every call
    for c in tr.order:
        k, cid = c["op"][0], c["id"]
        st = tr.status_at[cid]
        if k in ("next", "err", "done"):
            if st == "disposed":
                if c["raised"] != DISPOSED:
                    fail("emit-after-dispose-did-not-raise", call=c["op"], raised=c["raised"])
                continue
            if c["raised"] is not None:
                fail("emit-raised", call=c["op"], raised=c["raised"])
            if cid not in accepted_ids:
                continue
            exp = answer(c)
            for o in tr.observers:
                got = _children(tr, cid, o)
                sub = tr.sub.get(o)
                registered = (sub is not None and tr.status_at[sub["id"]] == "live")
                if not registered or sub["start"] > c["start"]:
                    cls = "none"
                elif sub["end"] is None or sub["end"] > c["start"]:
                    cls = "may"            # the call is made from inside o's own subscribe()
                else:
                    e = tr.ended_at(o)
                    if e is not None and e < c["start"]:
                        cls = "none"
                    elif e is not None and e < c["end"] and not (rec[e]["t"] == "got" and rec[e]["call"] == cid):
                        cls = "may"        # unsubscribed / terminated by another call meanwhile
                    else:
                        cls = "must"
                if cls == "none" and got:
                    fail("delivered-to-unsubscribed", observer=o, call=c["op"], got=got)
                elif cls == "may" and not _is_prefix(got, exp):
                    fail("wrong-partial-delivery", observer=o, call=c["op"], got=got, expected=exp)
                elif cls == "must" and got != exp:
                    fail("missed-or-duplicated-delivery", observer=o, call=c["op"], got=got, expected=exp)
        elif k == "sub":
            o = c["op"][1]
            if c["raised"] is not None:
                fail("subscribe-raised", call=c["op"], raised=c["raised"])
            if tr.sub.get(o) is not c:
                continue                               # id used before: skipped by the driver
            exp = greeting(c)
            got = _children(tr, cid, o)
            if st == "live":
                if got != exp:
                    fail("wrong-greeting", observer=o, got=got, expected=exp)
                if exp and (not tr.view[o] or tr.view[o][0][2] != cid):
                    fail("greeting-not-first", observer=o)
            else:
                whole = [n for (_, n, _) in tr.view[o]]
                if whole != exp:
                    fail("late-subscriber", observer=o, status=st, received=whole, expected=exp)
        else:
            if c["raised"] is not None:
                fail("call-raised", call=c["op"], raised=c["raised"])
    # 3. the literal reading of "subscribing raises DisposedException"
    #    (a subscriber without error handler: on_error defaults to raising; so a subject that
    #    ended with error e raises e, a disposed one DisposedException, otherwise nothing)
    if tr.final_status == "disposed":
        want = ("raised", DISPOSED)
    elif tr.final_status != "live" and tr.final_status[1][0] == "E":
        want = ("raised", tr.final_status[1][1])
    else:
        want = ("returned",)
    if probe != want:
        fail("bare-subscribe", probe=probe, expected=want, status=tr.final_status)
    return bad


def shrink(hist, still_fails):
    """greedy delta debugging on the history tree: drop top-level operations, script
    entries, nested operations, while `still_fails(hist)` holds"""
    top, scripts = list(hist[0]), {o: [list(r) for r in rs] for o, rs in hist[1].items()}
    changed = True
    while changed:
        changed = False
        for i in range(len(top)):
            cand = (top[:i] + top[i + 1:], scripts)
            if still_fails(cand):
                top = cand[0]
                changed = True
                break
        if changed:
            continue
        for o in list(scripts):
            cand_s = {k: v for k, v in scripts.items() if k != o}
            if still_fails((top, cand_s)):
                scripts = cand_s
                changed = True
                break
            for j in range(len(scripts[o])):
                for q in range(len(scripts[o][j])):
                    cand_s = {k: [list(r) for r in v] for k, v in scripts.items()}
                    del cand_s[o][j][q]
                    if still_fails((top, cand_s)):
                        scripts = cand_s
                        changed = True
                        break
                if changed:
                    break
            if changed:
                break
    return (top, scripts)


def hist_size(hist):
    return len(hist[0]) + sum(len(r) for rs in hist[1].values() for r in rs)


def hist_json(hist):
    return {"top": [list(o) for o in hist[0]],
            "scripts": {str(o): [[list(x) for x in r] for r in rs] for o, rs in hist[1].items()}}


def hist_from_json(d):
    return ([tuple(o) for o in d["top"]],
            {int(o): [[tuple(x) for x in r] for r in rs] for o, rs in d["scripts"].items()})



def correspond(pid, name, imports, case_ty, cases, prelude, shard=400):
    """lib.correspondence + a retry of shards that failed to EVALUATE (negative markers): scratch
    files are compiled outside the build lock, so a concurrent `make` of another check that is
    rewriting the .vo files they import makes coqc fail transiently.  Real disagreements (non-negative
    indices) are never retried."""
    import time
    bad, logs = lib.correspondence(pid, name, imports, case_ty, "model", "out_eqb", cases, shard=shard,
                                   prelude=prelude)
    for attempt in range(3):
        failed = [-1 - b for b in bad if b < 0]
        if not failed:
            break
        time.sleep(5 + 10 * attempt)
        with lib.Lock("build"):
            pass                                  # wait for a build in progress to finish
        bad = [b for b in bad if b >= 0]
        logs = []
        for base in failed:
            b2, l2 = lib.correspondence(pid, f"{name}r{attempt}_{base}_", imports, case_ty, "model", "out_eqb",
                                        cases[base:base + shard], shard=shard, prelude=prelude)
            bad += [(base + x) if x >= 0 else (-1 - base) for x in b2]
            logs += l2
    return bad, logs

# --------------------------------------------------------------------------
# the check shared by C20 / C21 / C23
# --------------------------------------------------------------------------

SYNC = {
    "C20": dict(kind="subject", cls="subject_cls", title="Subject"),
    "C21": dict(kind="behavior", cls="(behavior_cls 0)", title="BehaviorSubject"),
    "C23": dict(kind="async", cls="(async_cls 0)", title="AsyncSubject"),
}
SYNC_IMPORTS = "Base.Prelude Ops.Machine Subjects.Subject Subjects.Behavior Subjects.Async"
FUEL = 20000


def sync_cases(pid, tier, rng):
    """(history, v0) list: exhaustive small scopes first, then seeded random trees"""
    kind = SYNC[pid]["kind"]
    a, b = 0, 2                     # pool ids of None and False
    alpha = [("sub", 0), ("sub", 1), ("unsub", 0), ("next", a), ("next", b), ("err", 11), ("done",), ("dispose",)]
    L = 3 if tier == "quick" else 4
    cases = [(h, a) for h in enum_flat(alpha, L)]
    n_flat = len(cases)
    tail = [("next", a), ("err", 11), ("done",), ("dispose",), ("unsub", 1), ("sub", 3)]
    reactions = [("unsub", 0), ("unsub", 1), ("unsub", 2), ("sub", 3), ("next", b), ("err", 12), ("done",),
                 ("dispose",)]
    cases += [(h, b) for h in enum_reentrant([("sub", 0), ("sub", 1), ("sub", 2)], tail, reactions,
                                             2 if tier == "quick" else 3)]
    n_re = len(cases) - n_flat
    nrand = 700 if tier == "quick" else 12000
    for _ in range(nrand):
        cases.append((gen_history(rng), rng.choice(VALS)))
    return cases, {"exhaustive_flat": n_flat, "exhaustive_reentrant": n_re, "random": nrand,
                   "flat_scope": f"all sequences of length <= {L} over {alpha}",
                   "reentrant_scope": f"sub0 sub1 sub2 ++ all tails of length <= {2 if tier == 'quick' else 3} over "
                                      f"{tail}, observer 0 or 1 reacting in its first callback with one of {reactions}"}


def check_sync(chk, pid):
    import lib
    cfg = SYNC[pid]
    kind = cfg["kind"]
    proved = chk.build_and_prove()
    tier = chk.tier if proved and not chk.broken else "thorough"
    if tier != chk.tier:
        chk.cov["search"] = "theorem file or build broke: case set enlarged to the thorough scope"
    cases, scope = sync_cases(pid, tier, chk.rng)
    gal, H, nontrivial = [], new_hist(), set()
    seen_sigs = set()
    for (h, v0) in cases:
        rec, probe = run_sync(kind, h, v0)
        chk.cov["evaluations"] += 1
        hist_stats(h, rec, H)
        if is_nontrivial(rec):
            nontrivial.add(hist_key(h) + repr(v0))
        for sig, detail in oracle_sync(kind, h, v0, rec, probe):
            if sig in seen_sigs:        # one shrunk witness per signature (shrinking is the expensive part)
                continue
            seen_sigs.add(sig)
            def still(hh, _sig=sig):
                r2, p2 = run_sync(kind, hh, v0)
                return any(s == _sig for s, _ in oracle_sync(kind, hh, v0, r2, p2))
            hm = shrink(h, still)
            r2, p2 = run_sync(kind, hm, v0)
            d2 = [d for s, d in oracle_sync(kind, hm, v0, r2, p2) if s == sig][0]
            chk.violation(f"{cfg['title']}|{sig}",
                          {"class": cfg["title"], "initial_value_id": v0, "history": hist_json(hm),
                           "pool": [repr(v) for v in POOL.values],
                           "implementation_log": g_log(r2), "oracle": d2,
                           "expected": "see harness/subj.py:oracle_sync docstring"},
                          size=hist_size(hm))
        gal.append((f"({gz(v0)}, {g_hist(h)})", f"({g_log(rec)}, true)"))
    prelude = (f"Definition model (c : Z * history Z) := run_history {cfg['cls']} (fst c) {FUEL} (snd c).\n"
               "Definition out_eqb (a b : list (@event Z) * bool) := "
               "list_eqb event_eqb (fst a) (fst b) && Bool.eqb (snd a) (snd b).\n")
    bad, logs = correspond(pid, "k1", SYNC_IMPORTS, "(Z * history Z) * (list (@event Z) * bool)", gal, prelude)
    chk.cov["traces_validated_against_impl"] = len(gal)
    chk.cov["disagreements_checked"] = len(gal)
    if bad:
        firsts = [i for i in bad if i >= 0][:3]
        detail = {"n_disagreements": len(bad), "logs": logs[:1],
                  "first (initial value, history) / implementation log": [gal[i] for i in firsts]}
        if firsts:
            detail["model_says"] = lib.coq_show(pid, SYNC_IMPORTS, f"model {gal[firsts[0]][0]}", prelude)
            detail["history"] = hist_json(cases[firsts[0]][0])
        chk.tie_broken(f"correspondence K1: Subjects model of {cfg['title']} vs implementation", detail)
    chk.cov["distinct_nontrivial"] = len(nontrivial)
    chk.cov["exhaustive"] = True
    chk.cov["rule"] = ("exhaustive small scopes (" + scope["flat_scope"] + "; " + scope["reentrant_scope"] +
                       ") + seeded random call trees (2-6 observers, up to 12 top-level calls, reaction scripts "
                       "of up to 3 callbacks x 2 nested calls per observer; values from a pool headed by None, 0, "
                       "False, '', (), 0.0).  non-trivial = distinct (history, initial value) with at least two "
                       "deliveries reaching at least two different observers")
    chk.cov["input_distribution"] = dict(H, **{k: v for k, v in scope.items() if isinstance(v, int)})
    step = max(1, len(cases) // 5)
    chk.add_samples([{"history": hist_json(h), "initial_value_id": v0} for (h, v0) in cases[scope["exhaustive_flat"] - 1::step]])
    return chk.finish(
        trusted_extra=["K1 driver harness/subj.py (logging observers, try/except around every call, "
                       "attribution of deliveries to the innermost open call)",
                       "Observable.subscribe / AutoDetachObserver / SingleAssignmentDisposable / InnerSubscription "
                       "are modelled inside the engine (Subjects/Subject.v) and covered by the same correspondence"],
        assumptions=["single thread (the statement's histories are sequential call trees)",
                     "observer callbacks do not raise into the subject (every nested call is wrapped in "
                     "try/except by the driver); raising callbacks are C09's subject",
                     "exact closed-form theorems (refinement to the broadcast specification, per-observer view) "
                     "are for histories of top-level calls; for call trees the theorems are the safety "
                     "properties (grammar, unsubscription effective at once, disposal) and the tree behaviour "
                     "is otherwise covered by correspondence + oracle"])


def replay_sync(chk, pid, path):
    import json
    d = json.load(open(path))
    if "history" not in d:
        print(json.dumps(d, indent=1))
        return 1
    kind = SYNC[pid]["kind"]
    h, v0 = hist_from_json(d["history"]), d.get("initial_value_id", 0)
    rec, probe = run_sync(kind, h, v0)
    bad = oracle_sync(kind, h, v0, rec, probe)
    print("history", h, "initial value id", v0)
    print("implementation log", g_log(rec), "bare-subscribe probe", probe)
    for s, dd in bad:
        print("ORACLE FAILS", s, dd)
    return 1 if bad else 0


# --------------------------------------------------------------------------
# C22: ReplaySubject on a virtual-time scheduler
# --------------------------------------------------------------------------

REPLAY_IMPORTS = "Base.Prelude Ops.Machine Subjects.Subject Subjects.Replay Subjects.ReplaySched"


def oracle_replay(hist, bs, w, rec, probe, sync=False):
    """C22 on the observed run.  For every observer o (first subscribe call S, made at virtual
    time T):
      replay(o) = the values of the on_next calls that took effect before S, restricted to the
                  last `bs` of them and to those whose age T - t is <= `w`, in order, followed by
                  the terminal notification if the subject had ended before S;
      later(o)  = the notifications of the emissions that took effect after S, in call order;
      what o received must be a PREFIX of  replay(o) ++ later(o)  cut after its first terminal
      (nothing duplicated, reordered or invented, replay first) and must be ALL of it unless o
      unsubscribed; nothing is delivered to o after its unsubscribe call returned;  after dispose(): subscribe is answered with DisposedException only,
      emissions raise it;  grammar per observer."""
    tr = Trace(rec)
    bad = []
    reentrant = any(c["parent"] is not None for c in tr.order)

    def fail(what, **d):
        bad.append((f"{what}|reentrant={int(reentrant)}|sync={int(sync)}",
                    dict(d, what=what, buffer_size=bs, window=w, scheduler="CurrentThreadScheduler" if sync
                         else "VirtualTimeScheduler")))

    for o in tr.observers:
        got = [n for (_, n, _) in tr.view[o]]
        if not wellformed(got):
            fail("grammar", observer=o, received=got)
        S = tr.sub.get(o)
        if S is None:
            if got:
                fail("delivery-to-never-subscribed", observer=o, received=got)
            continue
        st = tr.status_at[S["id"]]
        if st == "disposed":
            if got != [("E", DISPOSED)]:
                fail("subscribe-after-dispose", observer=o, received=got)
            continue
        vals = [(c["now"], c["op"][1]) for c in tr.accepted if c["op"][0] == "next" and c["start"] < S["start"]]
        if bs is not None:
            vals = vals[max(0, len(vals) - bs):] if bs > 0 else []
        if w is not None:
            vals = [(t, v) for (t, v) in vals if S["now"] - t <= w]
        expect = [("N", v) for (_, v) in vals]
        if st != "live":
            expect.append(st[1])
        expect += [note_of(c["op"]) for c in tr.accepted if c["start"] > S["start"]]
        for i, n in enumerate(expect):
            if n[0] != "N":
                expect = expect[:i + 1]
                break
        unsubscribed = any(c["op"] == ("unsub", o) and S["end"] is not None and c["start"] > S["end"]
                           for c in tr.order)
        if unsubscribed:
            u = min(c["end"] for c in tr.order
                    if c["op"] == ("unsub", o) and S["end"] is not None and c["start"] > S["end"])
            late = [n for (i, n, _) in tr.view[o] if i > u]
            if late:
                fail("delivery-after-unsubscribe", observer=o, received_after=late)
        if not _is_prefix(got, expect):
            fail("not-a-prefix-of-replay-then-later", observer=o, received=got, expected=expect,
                 subscribed_at=S["now"])
        elif not unsubscribed and got != expect:
            fail("incomplete", observer=o, received=got, expected=expect, subscribed_at=S["now"])
    for c in tr.order:
        k = c["op"][0]
        st = tr.status_at[c["id"]]
        if k in ("next", "err", "done") and st == "disposed":
            if c["raised"] != DISPOSED:
                fail("emit-after-dispose-did-not-raise", call=c["op"], raised=c["raised"])
        elif c["raised"] is not None:
            fail("call-raised", call=c["op"], raised=c["raised"])
    # a bare subscribe(): DisposedException is raised by _subscribe_core itself; a stored error is
    # only queued on the scheduler (not drained by the probe), so nothing is raised
    want = ("raised", DISPOSED) if tr.final_status == "disposed" else ("returned",)
    if sync and tr.final_status not in ("disposed", "live") and tr.final_status[1][0] == "E":
        want = ("raised", tr.final_status[1][1])     # the stored error is delivered inline and re-raised
    if probe != want:
        fail("bare-subscribe", probe=probe, expected=want, status=tr.final_status)
    return bad


def replay_cases(tier, rng):
    a, b = 0, 2
    alpha = [("sub", 0), ("sub", 1), ("next", a), ("next", b), ("adv", 1), ("adv", 2), ("done",), ("unsub", 0)]
    if tier == "quick":
        L, configs = 3, [(None, None), (0, None), (1, None), (2, 1), (None, 1), (1, 2), (2, 0)]
    else:
        L, configs = 4, [(bs, w) for bs in (None, 0, 1, 2, 3) for w in (None, 0, 1, 2)]
    cases = [(h, bs, w) for (bs, w) in configs for h in enum_flat(alpha, L)]
    n_flat = len(cases)
    nrand = 900 if tier == "quick" else 15000
    for _ in range(nrand):
        cases.append((gen_history(rng, adv=True), rng.choice([None, 0, 1, 2, 3, 4]),
                      rng.choice([None, None, 0, 1, 2, 3, 5, 100])))
    return cases, {"exhaustive_flat": n_flat, "random": nrand,
                   "flat_scope": f"all sequences of length <= {L} over {alpha} x (buffer_size, window) in {configs}"}


def replay_sync_cases(tier, rng):
    """histories for the default (trampoline) scheduler: no clock advances, no window.
    Exhaustive: two live subscribers, every tail of <= 2 emissions, one of them reacting inside its
    first or second callback with one call (emit / complete / fail / unsubscribe / subscribe / dispose)."""
    a, b, c = 0, 2, 1
    cases = []
    tail = [("next", a), ("next", b), ("done",), ("err", 11), ("sub", 2), ("unsub", 1)]
    reactions = [("next", c), ("done",), ("err", 12), ("unsub", 0), ("unsub", 1), ("sub", 3), ("dispose",)]
    configs = [None, 0, 1, 2] if tier == "quick" else [None, 0, 1, 2, 3]
    L = 2 if tier == "quick" else 3
    for bs in configs:
        for n in range(1, L + 1):
            for t in itertools.product(tail, repeat=n):
                for who in (0, 1):
                    for r in reactions:
                        for when in (0, 1):
                            sc = [[], [r]] if when else [[r]]
                            cases.append((([("sub", 0), ("sub", 1)] + list(t), {who: sc}), bs, None))
    n_ex = len(cases)
    alpha = [("sub", 0), ("sub", 1), ("next", a), ("next", b), ("done",), ("unsub", 0), ("dispose",)]
    for bs in (None, 1):
        cases += [(h, bs, None) for h in enum_flat(alpha, 3)]
    n_flat = len(cases) - n_ex
    nrand = 700 if tier == "quick" else 12000
    for _ in range(nrand):
        cases.append((gen_history(rng, adv=False), rng.choice([None, 0, 1, 2, 3, 4]),
                      rng.choice([None, None, 1000000])))
    return cases, {"sync_exhaustive_reentrant": n_ex, "sync_exhaustive_flat": n_flat, "sync_random": nrand}


def check_replay(chk):
    import lib
    from lib import gopt
    pid = "C22"
    proved = chk.build_and_prove()
    tier = chk.tier if proved and not chk.broken else "thorough"
    if tier != chk.tier:
        chk.cov["search"] = "theorem file or build broke: case set enlarged to the thorough scope"
    cases, scope = replay_cases(tier, chk.rng)
    gal, H, nontrivial, kept = [], new_hist(), set(), []
    seen_sigs = set()
    H.update({"spinning_discarded": 0, "buffer_size": {}, "window": {}, "age_equals_window": 0,
              "replayed_values": 0})
    for (h, bs, w) in cases:
        rec, probe, ok = run_replay(h, bs, w)
        chk.cov["evaluations"] += 1
        if not ok:
            H["spinning_discarded"] += 1
            continue
        hist_stats(h, rec, H)
        H["buffer_size"][str(bs)] = H["buffer_size"].get(str(bs), 0) + 1
        H["window"][str(w)] = H["window"].get(str(w), 0) + 1
        tr = Trace(rec)
        if w is not None:
            for o, S in tr.sub.items():
                if any(c["op"][0] == "next" and c["start"] < S["start"] and S["now"] - c["now"] == w
                       for c in tr.accepted):
                    H["age_equals_window"] += 1
                    break
        if any(len(tr.view[o]) >= 2 for o in tr.observers) and is_nontrivial(rec):
            nontrivial.add(hist_key(h) + repr((bs, w)))
        for sig, detail in oracle_replay(h, bs, w, rec, probe):
            if sig in seen_sigs:
                continue
            seen_sigs.add(sig)
            def still(hh, _sig=sig):
                r2, p2, ok2 = run_replay(hh, bs, w)
                return ok2 and any(s == _sig for s, _ in oracle_replay(hh, bs, w, r2, p2))
            hm = shrink(h, still)
            r2, p2, _ = run_replay(hm, bs, w)
            d2 = [d for s, d in oracle_replay(hm, bs, w, r2, p2) if s == sig][0]
            chk.violation(f"ReplaySubject|{sig}",
                          {"class": "ReplaySubject", "buffer_size": bs, "window": w, "history": hist_json(hm),
                           "pool": [repr(v) for v in POOL.values],
                           "implementation_log": g_log(r2, "R", "RE"), "oracle": d2,
                           "expected": "see harness/subj.py:oracle_replay docstring"},
                          size=hist_size(hm))
        gal.append((f"(({gopt(bs)}, {gopt(w)}), {g_hist(h, 'R')})", f"({g_log(rec, 'R', 'RE')}, true)"))
        kept.append((h, bs, w))
    # ---- the same property with the default scheduler (CurrentThreadScheduler trampoline)
    scases, sscope = replay_sync_cases(tier, chk.rng)
    gal2, kept2 = [], []
    for (h, bs, w), (a_, b_) in zip(kept, gal):
        gal2.append((f"(false, {a_})", b_))
        kept2.append(("vt", h, bs, w))
    H["sync"] = new_hist()
    H["sync"]["trampoline_not_idle_discarded"] = 0
    nontrivial_sync = set()
    for (h, bs, w) in scases:
        rec, probe, ok = run_replay_sync(h, bs, w)
        chk.cov["evaluations"] += 1
        if not ok:
            H["sync"]["trampoline_not_idle_discarded"] += 1
            continue
        hist_stats(h, rec, H["sync"])
        tr = Trace(rec)
        if any(len(tr.view[o]) >= 2 for o in tr.observers) and is_nontrivial(rec):
            nontrivial_sync.add(hist_key(h) + repr((bs, w)))
        for sig, detail in oracle_replay(h, bs, w, rec, probe, sync=True):
            if sig in seen_sigs:
                continue
            seen_sigs.add(sig)
            def still(hh, _sig=sig):
                r2, p2, ok2 = run_replay_sync(hh, bs, w)
                return ok2 and any(s == _sig for s, _ in oracle_replay(hh, bs, w, r2, p2, sync=True))
            hm = shrink(h, still)
            r2, p2, _ = run_replay_sync(hm, bs, w)
            d2 = [d for s, d in oracle_replay(hm, bs, w, r2, p2, sync=True) if s == sig][0]
            chk.violation(f"ReplaySubject|{sig}",
                          {"class": "ReplaySubject", "scheduler": "default (CurrentThreadScheduler)",
                           "buffer_size": bs, "window": w, "history": hist_json(hm),
                           "pool": [repr(v) for v in POOL.values],
                           "implementation_log": g_log(r2, "R", "RE"), "oracle": d2,
                           "expected": "see harness/subj.py:oracle_replay docstring (per-subscriber order = "
                                       "retained values then later notifications in call order)"},
                          size=hist_size(hm))
        gal2.append((f"(true, (({gopt(bs)}, {gopt(w)}), {g_hist(h, 'R')}))",
                     f"({g_log(rec, 'R', 'RE')}, true)"))
        kept2.append(("sync", h, bs, w))
    prelude2 = (f"Definition model (c : bool * ((option Z * option Z) * rhistory Z)) := "
                f"run_shistory (fst c) (fst (fst (snd c))) (snd (fst (snd c))) {FUEL} (snd (snd c)).\n"
                "Definition out_eqb (a b : list (@revent Z) * bool) := "
                "list_eqb revent_eqb (fst a) (fst b) && Bool.eqb (snd a) (snd b).\n")
    bad2, logs2 = correspond(pid, "k1s", REPLAY_IMPORTS,
                             "(bool * ((option Z * option Z) * rhistory Z)) * (list (@revent Z) * bool)",
                             gal2, prelude2)
    if bad2:
        firsts = [i for i in bad2 if i >= 0][:3]
        detail = {"n_disagreements": len(bad2), "logs": logs2[:1],
                  "first (sync?, ((buffer_size, window), history)) / implementation log": [gal2[i] for i in firsts]}
        if firsts:
            detail["model_says"] = lib.coq_show(pid, REPLAY_IMPORTS, f"model {gal2[firsts[0]][0]}", prelude2)
            detail["mode, history, buffer_size, window"] = (kept2[firsts[0]][0], hist_json(kept2[firsts[0]][1]),
                                                            kept2[firsts[0]][2], kept2[firsts[0]][3])
        chk.tie_broken("correspondence K1: Subjects/ReplaySched.v (both scheduler modes) vs ReplaySubject", detail)
    chk.cov["traces_validated_against_impl"] = len(gal2)
    chk.cov["disagreements_checked"] = len(gal2)
    chk.cov["distinct_nontrivial"] = len(nontrivial) + len(nontrivial_sync)
    chk.cov["distinct_nontrivial_by_scheduler"] = {"VirtualTimeScheduler": len(nontrivial),
                                                   "CurrentThreadScheduler": len(nontrivial_sync)}
    scope.update(sscope)
    chk.cov["exhaustive"] = True
    chk.cov["rule"] = ("TWO scheduler modes.  (a) default CurrentThreadScheduler (trampoline; drains run inline at top "
                       "level, queued when scheduled from inside a callback): exhaustive `sub0 sub1 ++ tails of <= 2/3 "
                       "emissions` with observer 0 or 1 reacting in its 1st or 2nd callback with one of next/done/err/"
                       "unsub0/unsub1/sub3/dispose, buffer_size None,0,1,2(,3); exhaustive flat histories of length "
                       "<= 3; seeded random call trees.  (b) VirtualTimeScheduler: "
                       "exhaustive small scope (" + scope["flat_scope"] + ") + seeded random call trees (as C20, plus "
                       "clock advances 0..5 ticks) with buffer_size in None,0..4 and window in None,0,1,2,3,5,100 "
                       "ticks.  The subject runs on a VirtualTimeScheduler drained after every top-level call.  "
                       "non-trivial = distinct (history, configuration) with deliveries to >= 2 observers, one "
                       "of which received >= 2 notifications")
    chk.cov["input_distribution"] = dict(H, **{k: v for k, v in scope.items() if isinstance(v, int)})
    step = max(1, len(kept) // 5)
    chk.add_samples([{"history": hist_json(h), "buffer_size": bs, "window": w} for (h, bs, w) in kept[step - 1::step]])
    return chk.finish(
        trusted_extra=["K1 driver harness/subj.py; two scheduler modes: (a) the DEFAULT CurrentThreadScheduler "
                       "(real trampoline; nothing is drained by the driver), (b) a real VirtualTimeScheduler drained by "
                       "the driver with start() after every top-level call; the FIFO of either is modelled (r_sched) "
                       "and covered by the correspondence with Subjects/ReplaySched.v",
                       "ScheduledObserver, SerialDisposable, RemovableDisposable, AutoDetachObserver modelled in "
                       "Subjects/Replay.v"],
        assumptions=["single thread; observer callbacks do not raise",
                     "fewer than 100 scheduler actions per drain (VirtualTimeScheduler.start bumps the clock "
                     "after 100 actions at one instant; such runs are discarded and counted: spinning_discarded)",
                     "buffer_size >= 0 or None; clock advances >= 0; window in whole ticks",
                     "default-scheduler mode: the scheduler clock is the wall clock, so only window None or "
                     "10**6 s is used there (time windows are exercised in virtual-time mode); other schedulers "
                     "(ImmediateScheduler, event loops, thread pools) are not exercised"])


def replay_replay(chk, path):
    import json
    d = json.load(open(path))
    if "history" not in d:
        print(json.dumps(d, indent=1))
        return 1
    h = hist_from_json(d["history"])
    sync = str(d.get("scheduler", "")).startswith("default")
    if sync:
        rec, probe, ok = run_replay_sync(h, d["buffer_size"], d["window"])
    else:
        rec, probe, ok = run_replay(h, d["buffer_size"], d["window"])
    bad = oracle_replay(h, d["buffer_size"], d["window"], rec, probe, sync=sync)
    print("scheduler", "default CurrentThreadScheduler" if sync else "VirtualTimeScheduler")
    print("history", h, "buffer_size", d["buffer_size"], "window", d["window"])
    print("implementation log", g_log(rec, "R", "RE"), "bare-subscribe probe", probe)
    for s, dd in bad:
        print("ORACLE FAILS", s, dd)
    return 1 if bad else 0
