"""K1 (history replay) machinery shared by C20-C23: Subject, BehaviorSubject,
AsyncSubject (synchronous delivery) and ReplaySubject (delivery through a
ScheduledObserver on a VirtualTimeScheduler that the driver drains after every
top-level operation).

A history is a TREE of calls:
    top     : [op]                     operations issued by the driver
    scripts : {o: [[op], [op], ...]}   what observer o does from inside its k-th callback
    op      : ('sub', o) | ('unsub', o) | ('next', value_id) | ('err', code) | ('done',) |
              ('dispose',) | ('adv', d)                      (adv: ReplaySubject only)
Driver rules (mirrored by the Coq engines Subjects/Subject.v and Subjects/Replay.v):
  * every operation, nested ones included, runs inside try/except; an exception
    is logged as ('raised', code) -- callbacks never raise into the library;
  * ('sub', o) with an id used before is skipped; ('unsub', o) while subscribe()
    of o has not returned (no handle yet) is skipped;
  * subscribers are observer OBJECTS with all three handlers; Observable.subscribe
    wraps them in an AutoDetachObserver.

The record list a run produces is richer than what the model is compared on:
every 'got' carries the id of the innermost open call (the oracle's attribution
of a delivery to the call that made it)."""
from __future__ import annotations

import itertools

import k2
import lib
from lib import gz

POOL = k2.Pool(k2.POOL)
NONE_ID = POOL.id(None)
DISPOSED = k2.LIB_ERRORS["DisposedException"]


# --------------------------------------------------------------------------
# driver
# --------------------------------------------------------------------------

class LogObserver:
    """observer object handed to subject.subscribe()"""

    def __init__(self, drv, o):
        self.drv, self.o = drv, o

    def _cb(self, n):
        d = self.drv
        d.rec.append({"t": "got", "o": self.o, "n": n, "call": d.stack[-1] if d.stack else None,
                      "drain": d.in_drain})
        k = d.calls[self.o]
        d.calls[self.o] = k + 1
        sc = d.scripts.get(self.o, [])
        if k < len(sc):
            for op in sc[k]:
                d.do(op, in_cb=(self.o, k))

    def on_next(self, v):
        self._cb(("N", POOL.id(v)))

    def on_error(self, e):
        self._cb(("E", k2.err_id(e)))

    def on_completed(self):
        self._cb(("C",))


class Driver:
    def __init__(self, subject, scripts, scheduler=None):
        self.subject, self.scripts, self.scheduler = subject, scripts, scheduler
        self.rec = []
        self.handles, self.calls, self.stack = {}, {}, []
        self.ncalls = 0
        self.in_drain = False
        self.clock_expected = 0

    def do(self, op, in_cb=None):
        cid = self.ncalls
        self.ncalls += 1
        self.rec.append({"t": "call", "id": cid, "op": op, "parent": self.stack[-1] if self.stack else None,
                         "in_cb": in_cb, "now": self.clock_expected})
        self.stack.append(cid)
        raised = None
        try:
            k = op[0]
            s = self.subject
            if k == "sub":
                o = op[1]
                if o not in self.calls:
                    self.calls[o] = 0
                    h = s.subscribe(LogObserver(self, o))
                    self.handles[o] = h
            elif k == "unsub":
                h = self.handles.get(op[1])
                if h is not None:
                    h.dispose()
            elif k == "next":
                s.on_next(POOL.val(op[1]))
            elif k == "err":
                s.on_error(k2.UserError(op[1]))
            elif k == "done":
                s.on_completed()
            elif k == "dispose":
                s.dispose()
            elif k == "adv":
                self.scheduler.sleep(op[1])
                self.clock_expected += op[1]
            else:
                raise AssertionError(op)
        except Exception as e:   # noqa: BLE001  (the driver's try/except around every operation)
            raised = k2.err_id(e)
        self.stack.pop()
        self.rec.append({"t": "ret", "id": cid, "raised": raised})

    def drain(self):
        """run everything the virtual-time scheduler holds (ReplaySubject only)"""
        from reactivex.scheduler import VirtualTimeScheduler
        self.in_drain = True
        self.rec.append({"t": "drain"})
        VirtualTimeScheduler.start(self.scheduler)
        self.in_drain = False


def make_subject(kind, v0=None, buffer_size=None, window=None, scheduler=None):
    from reactivex.subject import AsyncSubject, BehaviorSubject, ReplaySubject, Subject
    if kind == "subject":
        return Subject()
    if kind == "behavior":
        return BehaviorSubject(POOL.val(v0))
    if kind == "async":
        return AsyncSubject()
    if kind == "replay":
        return ReplaySubject(buffer_size, window, scheduler)
    raise AssertionError(kind)


def run_sync(kind, hist, v0=None):
    """-> (records, probe) ; probe = what a bare subject.subscribe() does at the end
    ('raised', code) | ('returned',)"""
    top, scripts = hist
    s = make_subject(kind, v0)
    d = Driver(s, scripts)
    for op in top:
        d.do(op)
    return d.rec, bare_probe(s)


def bare_probe(s):
    """the literal reading of 'subscribing raises': a subscriber without error handler"""
    try:
        s.subscribe()
        return ("returned",)
    except Exception as e:   # noqa: BLE001
        return ("raised", k2.err_id(e))


def run_replay(hist, buffer_size, window):
    """ReplaySubject on a VirtualTimeScheduler (clock in seconds = ticks, starts at 0).
    After every top-level operation the scheduler is drained with start(): all
    pending ScheduledObserver.run actions are due at the current clock, so they
    run in FIFO order and the clock does not move.  -> (records, probe, ok) where ok
    is False if the clock moved on its own (VirtualTimeScheduler's anti-spinning
    bump after 100 actions at one instant), which the model does not cover."""
    from reactivex.scheduler import VirtualTimeScheduler
    top, scripts = hist
    sch = VirtualTimeScheduler()
    s = make_subject("replay", buffer_size=buffer_size, window=window, scheduler=sch)
    d = Driver(s, scripts, scheduler=sch)
    for op in top:
        d.do(op)
        d.drain()
    ok = float(sch._clock) == float(d.clock_expected)
    return d.rec, bare_probe(s), ok


# --------------------------------------------------------------------------
# Gallina
# --------------------------------------------------------------------------

def g_op(op, pre="O"):
    k = op[0]
    if k == "sub":
        return f"{pre}Sub {op[1]}%nat"
    if k == "unsub":
        return f"{pre}Unsub {op[1]}%nat"
    if k == "next":
        return f"{pre}Next {gz(op[1])}"
    if k == "err":
        return f"{pre}Err {gz(op[1])}"
    if k == "done":
        return f"{pre}Done"
    if k == "dispose":
        return f"{pre}Dispose"
    if k == "adv":
        return f"{pre}Advance {gz(op[1])}"
    raise AssertionError(op)


def g_ops(ops, pre="O"):
    return "[" + "; ".join(g_op(o, pre) for o in ops) + "]"


def g_hist(hist, pre="O"):
    top, scripts = hist
    sc = "; ".join(f"({o}%nat, [" + "; ".join(g_ops(r, pre) for r in rs) + "])" for o, rs in sorted(scripts.items()))
    return f"({g_ops(top, pre)}, [{sc}])"


def g_note(n):
    if n[0] == "N":
        return f"Next {gz(n[1])}"
    if n[0] == "E":
        return f"Err {gz(n[1])}"
    return "Done"


def g_log(rec, pre="O", epre="E"):
    out = []
    for r in rec:
        if r["t"] == "call":
            out.append(f"{epre}Op ({g_op(r['op'], pre)})")
        elif r["t"] == "got":
            out.append(f"{epre}Got {r['o']}%nat ({g_note(r['n'])})")
        elif r["t"] == "ret" and r["raised"] is not None:
            out.append(f"{epre}Raised {gz(r['raised'])}")
    return "[" + "; ".join(out) + "]"


# --------------------------------------------------------------------------
# generators
# --------------------------------------------------------------------------

VALS = [0, 1, 2, 3, 4, 5, 8, 10]      # pool ids: None 0 False '' () 0.0 1 'a'


def gen_op(rng, nobs, nested=False, adv=False, used=None):
    r = rng.random()
    if adv and not nested and r < 0.14:
        return ("adv", rng.choice([0, 1, 1, 2, 3, 5]))
    r = rng.random()
    if r < 0.24:
        return ("sub", rng.randrange(nobs))
    if r < 0.38:
        return ("unsub", rng.randrange(nobs))
    if r < 0.78:
        return ("next", rng.choice(VALS))
    if r < 0.85:
        return ("err", rng.choice([11, 12]))
    if r < 0.94:
        return ("done",)
    return ("dispose",)


def gen_history(rng, adv=False, flat=None):
    nobs = rng.choice([2, 3, 4, 5])
    n = rng.choice([1, 2, 3, 4, 5, 6, 7, 8, 10])
    top = []
    # most histories start by subscribing somebody
    if rng.random() < 0.7:
        top.append(("sub", 0))
    for _ in range(n):
        top.append(gen_op(rng, nobs, adv=adv))
    if rng.random() < 0.35:                       # late subscriber at the very end
        top.append(("sub", nobs))
        nobs += 1
    scripts = {}
    if flat is None:
        flat = rng.random() < 0.3
    if not flat:
        for o in range(nobs):
            if rng.random() < 0.55:
                scripts[o] = [[gen_op(rng, nobs + 1, nested=True) for _ in range(rng.choice([0, 1, 1, 1, 2]))]
                              for _ in range(rng.choice([1, 2, 3]))]
    return (top, scripts)


def enum_flat(alphabet, maxlen):
    for n in range(maxlen + 1):
        for t in itertools.product(alphabet, repeat=n):
            yield (list(t), {})


def enum_reentrant(prefix, alphabet, reactions, tail_len):
    """prefix ++ every tail of length <= tail_len, with observer 0 (and 1) reacting
    inside their first callback with one operation of `reactions`"""
    for n in range(1, tail_len + 1):
        for t in itertools.product(alphabet, repeat=n):
            for who in (0, 1):
                for r in reactions:
                    yield (list(prefix) + list(t), {who: [[r]]})


def is_nontrivial(rec):
    """at least two deliveries to at least two distinct observers"""
    got = [r for r in rec if r["t"] == "got"]
    return len(got) >= 2 and len({r["o"] for r in got}) >= 2


def hist_key(hist):
    top, scripts = hist
    return repr((top, sorted(scripts.items())))


def hist_stats(hist, rec, h):
    top, scripts = hist
    h["len"][len(top)] = h["len"].get(len(top), 0) + 1
    nested = [r for r in rec if r["t"] == "call" and r["in_cb"] is not None]
    h["reentrant"] += 1 if nested else 0
    for r in nested:
        k = "nested_" + r["op"][0]
        h[k] = h.get(k, 0) + 1
    for r in rec:
        if r["t"] == "call" and r["op"][0] == "next" and r["op"][1] < 6:
            h["falsy_values"] += 1
            break
    if any(r["t"] == "ret" and r["raised"] is not None for r in rec):
        h["raised"] += 1
    if any(r["t"] == "call" and r["op"][0] == "dispose" for r in rec):
        h["with_dispose"] += 1


def new_hist():
    return {"len": {}, "reentrant": 0, "falsy_values": 0, "raised": 0, "with_dispose": 0}


# --------------------------------------------------------------------------
# oracle helpers (independent of the model): call intervals and attribution
# --------------------------------------------------------------------------

class Trace:
    """index of one run's records"""

    def __init__(self, rec):
        self.rec = rec
        self.calls = {}       # cid -> dict(op, start, end, raised, parent)
        for i, r in enumerate(rec):
            if r["t"] == "call":
                self.calls[r["id"]] = {"op": r["op"], "start": i, "end": None, "raised": None,
                                       "parent": r["parent"], "now": r.get("now", 0), "id": r["id"]}
            elif r["t"] == "ret":
                self.calls[r["id"]]["end"] = i
                self.calls[r["id"]]["raised"] = r["raised"]
        self.order = sorted(self.calls.values(), key=lambda c: c["start"])
        self.observers = sorted({r["o"] for r in rec if r["t"] == "got"} |
                                {c["op"][1] for c in self.order if c["op"][0] == "sub"})
        # first subscribe call per observer (later ones are skipped by the driver)
        self.sub = {}
        for c in self.order:
            if c["op"][0] == "sub" and c["op"][1] not in self.sub:
                self.sub[c["op"][1]] = c
        self.view = {o: [(i, r["n"], r["call"]) for i, r in enumerate(rec) if r["t"] == "got" and r["o"] == o]
                     for o in self.observers}
        # subject status at the start of every call: 'live' | ('term', note) | 'disposed'
        self.status_at = {}
        status = "live"
        self.accepted = []     # emission calls that took effect (subject live at their start)
        for c in self.order:
            self.status_at[c["id"]] = status
            k = c["op"][0]
            if k == "dispose":
                status = "disposed"
            elif status == "live":
                if k == "err":
                    status = ("term", ("E", c["op"][1]))
                    self.accepted.append(c)
                elif k == "done":
                    status = ("term", ("C",))
                    self.accepted.append(c)
                elif k == "next":
                    self.accepted.append(c)
        self.final_status = status

    def ended_at(self, o):
        """index of the first record at which o stops being subscribed by its own doing or by a
        terminal it received: start of an unsub(o) call that finds a handle, or a terminal delivery"""
        sub = self.sub.get(o)
        best = None
        for c in self.order:
            if c["op"] == ("unsub", o) and sub is not None and sub["end"] is not None and c["start"] > sub["end"]:
                best = c["start"]
                break
        for (i, n, _) in self.view.get(o, []):
            if n[0] != "N":
                best = i if best is None else min(best, i)
                break
        return best


def wellformed(notes):
    for i, n in enumerate(notes):
        if n[0] != "N" and i != len(notes) - 1:
            return False
    return True


def note_of(op):
    if op[0] == "next":
        return ("N", op[1])
    if op[0] == "err":
        return ("E", op[1])
    return ("C",)
