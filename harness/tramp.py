"""Driver for C30 (trampoline / current-thread scheduling).

A *history* is JSON-able data (all times are integer MICROSECONDS):

  command   ["sched", sched, when, label, body] | ["cancel", r] | ["sleep", d] | ["raise", e] |
            ["required", sched] | ["ensure", sched, label, body]
  sched     ["TS", i]  TrampolineScheduler instance i (one trampoline, shared by all threads)
            ["CT", i]  CurrentThreadScheduler() instance i (one trampoline per calling thread)
            ["CTS"]    CurrentThreadScheduler.singleton() (thread-local trampoline)
  when      ["now"] | ["rel", d] | ["abs", t]     optionally followed by the REPRESENTATION in which the time
            is handed to the scheduler: "f" = float seconds, "i" = int seconds (whole seconds only);
            default = timedelta / datetime.  The representation does not exist in the model (Core/Trampoline.v
            works in microseconds): the same history must give the same observations whatever the representation.
  body      list of commands: what the action does when it runs

Cancellation uses the PUBLIC handle: the disposable returned by schedule / schedule_relative /
schedule_absolute (/ ensure_trampoline) is kept per item once the call has returned, and
["cancel", r] disposes it; only while the scheduling call of item r has not returned yet (the
action cancels itself or is cancelled by an action run inline by the same call) the internal
ScheduledItem.cancel() is used.  Every schedule call passes a fresh `state` token; the action
records whether it received exactly that object (`state` events of the raw trace).

`run_k1` executes one history on ONE fresh thread of the real schedulers;
`run_k3` executes one history per logical thread under the deterministic
controller of harness/k3.py with a given chooser.  Both return the observation
list (alphabet of Core/Trampoline.v `oev`) and a raw trace for the oracle.

What is rebound in the imported modules (harness side only, no source change):
  reactivex.scheduler.scheduler.default_now        -> controlled clock
  reactivex.scheduler.trampoline.Condition         -> wait(timeout) advances the controlled clock
  reactivex.scheduler.trampoline.Lock (K3 only)    -> k3.CLock (acquisition = yield point)
  reactivex.scheduler.trampolinescheduler.ScheduledItem -> recording subclass (observation only:
      keeps the items in creation order so that the r-th item can be cancelled by index)
"""
from __future__ import annotations

import contextlib
import logging
import sys
import threading
from datetime import timedelta

import lib

US = 1_000_000
ENV = None


class UserErr(Exception):
    def __init__(self, code):
        super().__init__(f"user error {code}")
        self.code = code


# --------------------------------------------------------------------------
# environment
# --------------------------------------------------------------------------

class Env:
    def __init__(self, c0, ctrl=None):
        from reactivex.internal.constants import UTC_ZERO
        self.utc0 = UTC_ZERO
        self.clock = c0
        self.ctrl = ctrl
        self.items = []
        self.trace = []
        self.obs = []
        self.scheds = {}
        self.active = {}       # id(trampoline) -> number of its actions being executed
        self.depth = {}        # logical thread -> number of harness actions on its stack
        self.keep = []         # trampolines seen (kept alive so that id() stays unique)
        self.tids = {}
        self.handles = {}      # item id -> disposable RETURNED by the schedule call (once it has returned)
        self.toks = {}         # logical thread -> stack of open schedule calls ({"id": item id})
        self.cancel_via = {"handle": 0, "item": 0}
        self.reps = {"timedelta/datetime": 0, "float": 0, "int": 0}
        self.state_ok, self.state_bad = 0, 0

    def stats(self):
        """last event of every raw trace: how cancels were issued, time representations, state tokens"""
        return ("stats", dict(self.cancel_via), dict(self.reps), self.state_ok, self.state_bad)

    def me(self):
        if self.ctrl is not None:
            return self.ctrl.tid()
        return self.tids.get(threading.get_ident(), 0)

    def now(self):
        return self.utc0 + timedelta(microseconds=self.clock)

    def us(self, dt):
        td = dt - self.utc0
        return (td.days * 86400 + td.seconds) * US + td.microseconds

    def sched(self, ref):
        from reactivex.scheduler import CurrentThreadScheduler
        if ref[0] == "CTS":
            return CurrentThreadScheduler.singleton()
        return self.scheds[(ref[0], ref[1])]

    def tramp_id(self, scheduler):
        tr = scheduler.get_trampoline()
        self.keep.append(tr)
        return id(tr)

    def yield_point(self, skip=0):
        if self.ctrl is not None:
            t = self.ctrl.me()
            if t is not None:
                self.ctrl.yield_point("call")
                t.skip = skip


class FakeCondition:
    """K1: single thread; wait(timeout) = the time passes"""

    def __init__(self, lock=None):
        self.lock = lock

    def wait(self, timeout=None):
        ENV.clock += int(round(timeout * US))
        return False

    def notify(self, n=1):
        pass


class CCondition:
    """K3: controlled condition variable on a k3.CLock.  wait releases the lock and parks the
    thread at a yield point; when the thread is chosen again it has either been notified or its
    timeout has elapsed (the clock moves to the deadline)."""

    def __init__(self, lock=None):
        self.lock = lock
        self.waiters = []

    def wait(self, timeout=None):
        c = ENV.ctrl
        t = c.me()
        rec = {"notified": False, "until": ENV.clock + int(round(timeout * US))}
        depth = self.lock.depth
        self.lock.depth, self.lock.owner = 0, None
        t.held -= 1
        self.waiters.append(rec)
        c.yield_point("call")
        self.waiters.remove(rec)
        if not rec["notified"]:
            ENV.clock = max(ENV.clock, rec["until"])
        if self.lock.owner is not None:
            raise AssertionError("lock held when a waiter resumes (coarse mode)")
        self.lock.owner, self.lock.depth = t, depth
        t.held += 1
        return rec["notified"]

    def notify(self, n=1):
        for rec in self.waiters[:n]:
            rec["notified"] = True


@contextlib.contextmanager
def patched(env, k3mode=False):
    global ENV
    lib.import_repo()
    import reactivex.scheduler.scheduler as m_sched
    import reactivex.scheduler.trampoline as m_tr
    import reactivex.scheduler.trampolinescheduler as m_ts
    from reactivex.scheduler.scheduleditem import ScheduledItem

    class RecItem(ScheduledItem):
        def __init__(self, scheduler, state, action, duetime):
            super().__init__(scheduler, state, action, duetime)
            e = ENV
            self.rec_id = len(e.items)
            e.items.append(self)
            toks = e.toks.get(e.me())
            if toks and "id" not in toks[-1]:
                toks[-1]["id"] = self.rec_id      # the item of the innermost open schedule call of this thread
            kind = getattr(scheduler, "_verif_kind", "CTS")
            e.trace.append(("create", self.rec_id, e.me(), e.tramp_id(scheduler), kind,
                            getattr(action, "label", None), e.us(duetime), e.clock))

    saved = [(m_sched, "default_now", m_sched.default_now), (m_tr, "Condition", m_tr.Condition),
             (m_tr, "Lock", m_tr.Lock), (m_ts, "ScheduledItem", m_ts.ScheduledItem)]
    old_env = ENV
    ENV = env
    rx_log = logging.getLogger("Rx")
    old_level = rx_log.level
    rx_log.setLevel(logging.ERROR)        # "Do not schedule blocking work!" warnings
    try:
        m_sched.default_now = env.now
        m_ts.ScheduledItem = RecItem
        if k3mode:
            import k3
            m_tr.Lock = k3.CLock
            m_tr.Condition = CCondition
        else:
            m_tr.Condition = FakeCondition
        yield
    finally:
        for m, n, v in saved:
            setattr(m, n, v)
        rx_log.setLevel(old_level)
        ENV = old_env


def make_scheds(env, hists):
    from reactivex.scheduler import CurrentThreadScheduler, TrampolineScheduler

    def walk(cs):
        for c in cs:
            if c[0] in ("sched", "required", "ensure"):
                ref = c[1]
                if ref[0] != "CTS" and (ref[0], ref[1]) not in env.scheds:
                    s = TrampolineScheduler() if ref[0] == "TS" else CurrentThreadScheduler()
                    s._verif_kind = ref[0]
                    env.scheds[(ref[0], ref[1])] = s
            if c[0] == "sched":
                walk(c[4])
            elif c[0] == "ensure":
                walk(c[3])
    for h in hists:
        walk(h)


# --------------------------------------------------------------------------
# spies
# --------------------------------------------------------------------------

class StateToken:
    def __init__(self, label):
        self.label = label


def make_action(env, label, body, token=None):
    def action(scheduler, state=None):
        tid = env.me()
        if token is not None:
            # `state` pass-through (the statement of C30 is silent about it: recorded, see props/C30.py)
            if state is token:
                env.state_ok += 1
            else:
                env.state_bad += 1
                env.trace.append(("state", label, tid, repr(state)))
        inline = sys._getframe(1).f_code.co_name == "ensure_trampoline"
        d = env.depth.get(tid, 0)
        trid = env.tramp_id(scheduler)
        if inline:
            env.obs.append(("inline", label, tid, env.clock, d))
            env.trace.append(("inline", label, tid, env.clock, d))
        else:
            dk = env.active.get(trid, 0)
            env.active[trid] = dk + 1
            env.obs.append(("run", label, tid, env.clock, dk, d))
            env.trace.append(("start", label, tid, trid, env.clock, dk, d))
        env.depth[tid] = d + 1
        raised = True
        try:
            exec_body(env, body)
            raised = False
        finally:
            env.depth[tid] = d
            if not inline:
                env.active[trid] -= 1
            env.obs.append(("end", label))
            env.trace.append(("end", label, tid, trid, raised, inline))
        return None
    action.label = label
    return action


def exec_body(env, body):
    for c in body:
        exec_cmd(env, c)


def exec_cmd(env, c):
    k = c[0]
    if k == "sched":
        env.yield_point()
        s = env.sched(c[1])
        token = StateToken(c[3])
        act = make_action(env, c[3], c[4], token)
        w = c[2]
        rep = w[2] if len(w) > 2 and w[0] != "now" else None
        if rep == "i" and w[1] % US:
            rep = None
        if w[0] != "now":
            env.reps[{"f": "float", "i": "int"}.get(rep, "timedelta/datetime")] += 1
        # the due time ASKED for (a lower bound: the clock read here is not later than the scheduler's own)
        asked = env.clock if w[0] == "now" else env.clock + max(0, w[1]) if w[0] == "rel" else w[1]
        env.trace.append(("request", c[3], asked))
        tok = {}
        toks = env.toks.setdefault(env.me(), [])
        toks.append(tok)
        try:
            if w[0] == "now":
                h = s.schedule(act, token)
            elif w[0] == "rel":
                h = s.schedule_relative(as_time(w[1], rep, timedelta(microseconds=w[1])), act, token)
            else:
                h = s.schedule_absolute(as_time(w[1], rep, env.utc0 + timedelta(microseconds=w[1])), act, token)
        finally:
            toks.pop()
        if "id" in tok:
            env.handles[tok["id"]] = h
    elif k == "cancel":
        env.yield_point()
        if c[1] < len(env.items):
            h = env.handles.get(c[1])
            via = "item" if h is None else "handle"
            env.cancel_via[via] += 1
            env.trace.append(("cancel", c[1], env.me(), via))
            if h is None:
                env.items[c[1]].cancel()      # the scheduling call has not returned yet: no public handle exists
            else:
                h.dispose()
    elif k == "sleep":
        env.yield_point()
        env.clock += max(0, c[1])
    elif k == "raise":
        env.yield_point()
        raise UserErr(c[1])
    elif k == "required":
        env.yield_point(skip=1)
        b = env.sched(c[1]).schedule_required()
        env.obs.append(("required", env.me(), bool(b)))
        env.trace.append(("required", env.me(), bool(b)))
    elif k == "ensure":
        env.yield_point(skip=1)
        tok = {}
        toks = env.toks.setdefault(env.me(), [])
        toks.append(tok)
        try:
            h = env.sched(c[1]).ensure_trampoline(make_action(env, c[2], c[3]))
        finally:
            toks.pop()
        if "id" in tok and h is not None:
            env.handles[tok["id"]] = h
    else:
        raise ValueError(c)


def as_time(us, rep, default):
    """the time `us` microseconds in the representation asked for"""
    if rep == "f":
        return us / US
    if rep == "i" and us % US == 0:
        return us // US
    return default


def thread_main(env, tid, hist):
    for c in hist:
        try:
            exec_cmd(env, c)
        except UserErr as e:
            env.obs.append(("exc", tid, e.code))
            env.trace.append(("exc", tid, e.code))
        except Exception as e:      # noqa: BLE001  the scheduler itself raised on a legal call: a finding
            env.obs.append(("exc", tid, -1))
            env.trace.append(("crash", tid, repr(e)))
    env.trace.append(("done", tid))


# --------------------------------------------------------------------------
# runs
# --------------------------------------------------------------------------

class Hang(BaseException):
    pass


def run_k1(c0, hist, timeout=10.0):
    """one history on one fresh thread -> (obs, trace)"""
    env = Env(c0)
    box = {}

    def body():
        env.tids[threading.get_ident()] = 0
        try:
            thread_main(env, 0, hist)
        except BaseException as e:      # noqa: reported by the caller
            box["error"] = e
    with patched(env):
        make_scheds(env, [hist])
        th = threading.Thread(target=body, daemon=True)
        th.start()
        th.join(timeout)
        if th.is_alive():
            env.obs.append(("hang",))
            env.trace.append(("hang",))
    if "error" in box:
        raise box["error"]
    env.trace.append(env.stats())
    return env.obs, env.trace


def run_k3(c0, hists, chooser, max_steps=4000):
    """one history per logical thread under the K3 controller -> (schedule, obs, trace, done)"""
    import k3
    ctrl = k3.Controller({}, fine=False, max_steps=max_steps)
    env = Env(c0, ctrl)
    with patched(env, k3mode=True):
        make_scheds(env, hists)
        for i, h in enumerate(hists):
            ctrl.spawn(lambda i=i, h=h: thread_main(env, i, h))
        try:
            sched = ctrl.run(chooser)
            done = True
        except k3.Deadlock:
            sched = [c for c, _ in ctrl.trace]
            done = False
            env.trace.append(("deadlock",))
    env.trace.append(env.stats())
    return sched, env.obs, env.trace, done, ctrl.trace


# --------------------------------------------------------------------------
# oracle: a direct predicate of the property on the implementation's trace
# --------------------------------------------------------------------------

def oracle(trace, nthreads):
    """-> list of (signature, detail).  Checks, on the raw trace of the implementation:
    nested / wrong-thread / early / cancelled-ran / order / lost / hang / scheduler-raised (an exception
    that is not the one a `raise` command of the history throws leaves a scheduler call)."""
    bad = []
    items = {}          # id -> dict
    by_label = {}
    started, cancelled, dropped = set(), set(), set()
    pend = {}           # trampoline -> list of ids created and not yet started
    raised_on = set()   # trampolines whose drain loop was left by an exception
    past = set()        # trampolines that ever got an item whose due time was already past

    def flag(sig, detail):
        bad.append((sig, detail))

    asked = {}          # label -> due time asked for by the history (independent of the item's duetime)
    for ev in trace:
        k = ev[0]
        if k == "request":
            asked[ev[1]] = ev[2]
        elif k == "create":
            _, i, tid, trid, kind, label, due, clk = ev
            items[i] = {"tid": tid, "tr": trid, "kind": kind, "label": label, "due": due, "clk": clk}
            by_label[label] = i
            pend.setdefault(trid, []).append(i)
            if due < clk:
                past.add(trid)
        elif k == "cancel":
            cancelled.add(ev[1])
        elif k == "start":
            _, label, tid, trid, clk, dk, d = ev
            i = by_label.get(label)
            if i is None:
                flag("unknown-action", {"label": label})
                continue
            it = items[i]
            if dk != 0:
                flag("nested", {"label": label, "depth_on_this_trampoline": dk})
            if it["kind"] in ("CT", "CTS") and tid != it["tid"]:
                flag("wrong-thread", {"label": label, "scheduled_on": it["tid"], "ran_on": tid})
            if clk < it["due"]:
                flag("early", {"label": label, "due": it["due"], "clock": clk})
            elif label in asked and clk < asked[label]:
                flag("early", {"label": label, "due_asked_for": asked[label], "due_of_the_item": it["due"],
                               "clock": clk})
            if i in cancelled:
                flag("cancelled-ran", {"label": label})
            if i in started:
                flag("ran-twice", {"label": label})
            exclusive = it["kind"] in ("CT", "CTS") or nthreads == 1
            if exclusive and it["tr"] not in past:
                for j in pend.get(it["tr"], []):
                    if j != i and j not in cancelled and j not in dropped:
                        o = items[j]
                        if (o["due"], j) < (it["due"], i):
                            flag("order", {"ran": label, "before_pending": o["label"],
                                           "ran_due": it["due"], "pending_due": o["due"]})
            started.add(i)
            if i in pend.get(it["tr"], []):
                pend[it["tr"]].remove(i)
        elif k == "end":
            _, label, tid, trid, raised, inline = ev
            if raised:
                if not inline:
                    # the exception reaches the drain loop of this trampoline: its queue is abandoned
                    i = by_label.get(label)
                    tr = items[i]["tr"] if i is not None else trid
                    raised_on.add(tr)
                    for j in pend.get(tr, []):
                        dropped.add(j)
                    pend[tr] = []
        elif k == "crash":
            flag("scheduler-raised", {"thread": ev[1], "exception": ev[2]})
        elif k == "hang":
            flag("hang", {})
        elif k == "deadlock":
            flag("deadlock", {})
    if not any(e[0] in ("hang", "deadlock") for e in trace):
        for i, it in items.items():
            if i not in started and i not in cancelled and i not in dropped:
                exclusive = it["kind"] in ("CT", "CTS") or nthreads == 1
                if not exclusive and it["tr"] in raised_on:
                    # shared trampoline whose drain loop was left by an exception while another thread
                    # was enqueuing: the exception path abandons the queue (not covered by the statement)
                    continue
                flag("lost", {"label": it["label"], "thread": it["tid"], "scheduler": it["kind"]})
    return bad


# --------------------------------------------------------------------------
# Gallina printers
# --------------------------------------------------------------------------

gz, gnat = lib.gz, lib.gnat


def g_sched(s):
    return "CTS" if s[0] == "CTS" else f"({s[0]} {gnat(s[1])})"


def g_when(w):
    return "Now" if w[0] == "now" else f"({'Rel' if w[0] == 'rel' else 'Abs'} {gz(w[1])})"


def g_cmd(c):
    k = c[0]
    if k == "sched":
        return f"(CSched {g_sched(c[1])} {g_when(c[2])} {gz(c[3])} {g_body(c[4])})"
    if k == "cancel":
        return f"(CCancel {gnat(c[1])})"
    if k == "sleep":
        return f"(CSleep {gz(c[1])})"
    if k == "raise":
        return f"(CRaise {gz(c[1])})"
    if k == "required":
        return f"(CRequired {g_sched(c[1])})"
    if k == "ensure":
        return f"(CEnsure {g_sched(c[1])} {gz(c[2])} {g_body(c[3])})"
    raise ValueError(c)


def g_body(b):
    return "[" + "; ".join(g_cmd(c) for c in b) + "]"


def g_obs(obs):
    out = []
    for o in obs:
        if o[0] == "run":
            out.append(f"ORun {gz(o[1])} {gnat(o[2])} {gz(o[3])} {gnat(o[4])} {gnat(o[5])}")
        elif o[0] == "end":
            out.append(f"OEnd {gz(o[1])}")
        elif o[0] == "inline":
            out.append(f"OInline {gz(o[1])} {gnat(o[2])} {gz(o[3])} {gnat(o[4])}")
        elif o[0] == "required":
            out.append(f"ORequired {gnat(o[1])} {lib.gbool(o[2])}")
        elif o[0] == "exc":
            out.append(f"OExc {gnat(o[1])} {gz(o[2])}")
        elif o[0] == "hang":
            out.append("OFuel")
        else:
            raise ValueError(o)
    return "[" + "; ".join(out) + "]"


def size_cmd(c):
    if c[0] == "sched":
        return 1 + sum(size_cmd(x) for x in c[4])
    if c[0] == "ensure":
        return 1 + sum(size_cmd(x) for x in c[3])
    return 1


def hsize(h):
    return sum(size_cmd(c) for c in h)


def relabel(hists):
    """give every action a unique label (creation order of the syntax tree)"""
    n = [0]

    def c(x):
        if x[0] == "sched":
            lab = n[0]
            n[0] += 1
            return ["sched", x[1], x[2], lab, [c(y) for y in x[4]]]
        if x[0] == "ensure":
            lab = n[0]
            n[0] += 1
            return ["ensure", x[1], lab, [c(y) for y in x[3]]]
        return x
    return [[c(x) for x in h] for h in hists]


def has(h, kinds):
    for c in h:
        if c[0] in kinds:
            return True
        if c[0] == "sched" and has(c[4], kinds):
            return True
        if c[0] == "ensure" and has(c[3], kinds):
            return True
    return False


def vary_rep(h, rng, p=0.5):
    """the same history with some relative / absolute times handed over as float or int seconds"""
    def w(x):
        if x[0] == "now" or rng.random() >= p:
            return x
        rep = rng.choice(["f", "f", "i"])
        if rep == "i" and x[1] % US:
            rep = "f"
        return [x[0], x[1], rep]

    def c(x):
        if x[0] == "sched":
            return ["sched", x[1], w(x[2]), x[3], [c(y) for y in x[4]]]
        if x[0] == "ensure":
            return ["ensure", x[1], x[2], [c(y) for y in x[3]]]
        return x
    return [c(x) for x in h]


class Gen:
    def __init__(self, rng, scheds, unit=US, max_depth=3, p_raise=0.04):
        self.rng, self.scheds, self.unit, self.max_depth, self.p_raise = rng, scheds, unit, max_depth, p_raise
        self.n = 0

    def when(self):
        r, u = self.rng, self.unit
        x = r.random()
        if x < 0.45:
            return ["now"]
        if x < 0.9:
            return ["rel", r.choice([0, u, u, 2 * u, 3 * u, -u])]
        return ["abs", r.choice([0, u, 2 * u, 5 * u])]

    def cmd(self, depth):
        r = self.rng
        x = r.random()
        if x < 0.55 or depth == 0 and x < 0.7:
            self.n += 1
            body = self.body(depth + 1) if depth < self.max_depth else []
            return ["sched", r.choice(self.scheds), self.when(), 0, body]
        if x < 0.72:
            return ["cancel", r.randrange(0, max(2, self.n + 2))]
        if x < 0.82:
            return ["sleep", r.choice([self.unit, 2 * self.unit, self.unit // 2 or 1])]
        if x < 0.82 + self.p_raise:
            return ["raise", r.randrange(1, 4)]
        if x < 0.92:
            return ["required", r.choice(self.scheds)]
        self.n += 1
        return ["ensure", r.choice(self.scheds), 0, self.body(depth + 1) if depth < self.max_depth else []]

    def body(self, depth):
        return [self.cmd(depth) for _ in range(self.rng.choice([0, 1, 1, 2, 2, 3]))]

    def history(self, n):
        return [self.cmd(0) for _ in range(n)]
