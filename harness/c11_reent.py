"""C11 -- ORACLE-ONLY re-entrant family for flat_map / flat_map_indexed / map+merge_all / concat_map /
map+merge(max_concurrent=1..3).

What the machines and the other C11 families do not reach: an outer element that arrives RE-ENTRANTLY, i.e. the
outer's on_next is called from inside a downstream on_next (feedback loop, "fetch the next page") WHILE an inner that
emits synchronously inside its own subscribe() is being subscribed.  At that moment the operator is in the middle of
its own on_next for the previous outer element: whatever bookkeeping it does AFTER subscribing the inner (counting it,
registering it) is not done yet, so the re-entrant arrival sees a stale count -- the limit of max_concurrent is
exceeded, the inner that should wait is spliced into the middle of the running one and concat_map is no longer the
ordered concatenation.  The same holds for completions, errors and disposal requested from inside on_next.

Scenario (self-contained, JSON):
  operator  "flat_map" | "flat_map_indexed" | "map+merge_all" | "concat_map" | "map+merge(max_concurrent)"
  mc        None | 1 | 2 | 3         (concat_map: 1)
  inners    [spec]: {"kind": "sync", "values": [...], "end": "C" | "E" | "open"}  -- emits the list inside subscribe(),
                        then completes / fails / stays open (silent, but subscribed, for good)
                    {"kind": "hot"} | {"kind": "hot", "initial": v}  -- a hand-driven hot probe; with "initial" every
                        new subscriber is first handed the probe's current value (initial, or the last one pushed)
                        inside subscribe(); a terminated probe terminates a new subscriber at once
  script    top-level actions, executed one after the other
  reactions [[value, action]]: the first time the subscriber RECEIVES an element equal to value (same repr), it
            executes the action from inside its on_next (every entry fires at most once, entries in table order)
  action    ["arrive", j]  the outer emits inner j (each inner can be sent at most once: a second request is skipped)
            ["push", m, v] | ["complete", m] | ["error", m]  hot probe m emits / completes / fails
            ["outer_complete"] | ["outer_error"] | ["dispose"] (the subscriber disposes its subscription)

Reference (`reference`): the property text executed directly -- an arriving inner is subscribed at once unless
max_concurrent inners are subscribed, in which case it waits; when a subscribed inner completes, the longest-waiting
one is subscribed (arrival order); every notification of a subscribed inner is forwarded at the moment it is made;
the first error (outer or subscribed inner) ends everything; the result completes once the outer has completed and no
inner is subscribed or waiting; nothing is delivered after the end or after dispose.  The reference keeps the set of
SUBSCRIBED inners itself (an inner counts from the moment its subscribe() is entered), so it has no window between
"subscribed" and "counted".  Compared: the complete subscriber log (with the top-level step number); the order in
which inners were subscribed while the subscriber was alive (= arrival order); independently of the reference, the
number of inners subscribed at any moment while the subscriber is alive never exceeds max_concurrent (measured by the
probes: an inner counts from the entry of its subscribe() until it terminates or its subscription is disposed); after
every top-level step the set of subscribed inners equals the reference's, and after the subscriber's end nothing
(outer included) is subscribed.  Left open (the statement is silent): subscriptions opened and released again after the
subscriber's end inside the same top-level step.  The outer and the inners are probes written here (not Subjects), so
the family depends on no other part of the library than Observable.subscribe and the operators under test.
"""
import copy
import json

import lib


class HarnessBug(Exception):
    """an inconsistency of this module (never caused by the library)"""


OPS = [("flat_map", None), ("flat_map_indexed", None), ("map+merge_all", None), ("concat_map", 1), ("concat_map", 1),
       ("map+merge(max_concurrent)", 1), ("map+merge(max_concurrent)", 2), ("map+merge(max_concurrent)", 2),
       ("map+merge(max_concurrent)", 3)]
VALUES = [0, None, "", False, 1, 2, 3, 4, 5, 6, "a", "b", "c", 0.5]


# ------------------------------------------------------------------------------------------------ generator
def _gen_action(rng, n, hots, vals, reaction):
    r = rng.random()
    if r < (0.60 if reaction else 0.32):
        return ["arrive", rng.randrange(n)]
    if r < (0.66 if reaction else 0.40):
        return ["outer_complete"]
    if hots and r < 0.80:
        return ["push", rng.choice(hots), rng.choice(vals)]
    if hots and r < 0.91:
        return ["complete", rng.choice(hots)]
    if hots and r < 0.94:
        return ["error", rng.choice(hots)]
    if r < 0.965:
        return ["dispose"]
    if r < 0.98:
        return ["outer_error"]
    return ["arrive", rng.randrange(n)]


def gen(rng):
    op, mc = rng.choice(OPS)
    n = rng.choice([2, 3, 3, 4, 4, 5])
    vals = rng.sample(VALUES, rng.choice([4, 5, 6, 7]))
    inners = []
    for _ in range(n):
        if rng.random() < 0.6:
            inners.append({"kind": "sync", "values": [rng.choice(vals) for _ in range(rng.choice([1, 2, 2, 2, 3]))],
                           "end": rng.choice(["C", "C", "C", "C", "E", "open"])})
        elif rng.random() < 0.35:
            inners.append({"kind": "hot", "initial": rng.choice(vals)})
        else:
            inners.append({"kind": "hot"})
    if not any(s["kind"] == "sync" for s in inners):
        inners[0] = {"kind": "sync", "values": [rng.choice(vals), rng.choice(vals)], "end": rng.choice(["C", "C", "E"])}
    hots = [m for m, s in enumerate(inners) if s["kind"] == "hot"]
    # reactions: keyed by values that can actually be received
    seen_vals = [v for s in inners for v in s.get("values", [])] + [s["initial"] for s in inners if "initial" in s]
    reactions = []
    for _ in range(rng.choice([1, 2, 2, 3, 4])):
        v = rng.choice(seen_vals) if seen_vals and rng.random() < 0.85 else rng.choice(vals)
        reactions.append([v, _gen_action(rng, n, hots, vals, True)])
    syncs = [m for m, s in enumerate(inners) if s["kind"] == "sync"]
    script = [["arrive", rng.choice(syncs) if rng.random() < 0.7 else rng.randrange(n)]]
    length = rng.randint(3, 10)
    outer_over = False
    while len(script) < length:
        a = _gen_action(rng, n, hots, vals, False)
        late = len(script) >= length // 2
        if a[0] in ("outer_complete", "outer_error", "dispose") and not late:
            continue
        if outer_over and hots and rng.random() < 0.8:          # after the outer's end: what the inners still do
            a = rng.choice([["push", rng.choice(hots), rng.choice(vals)], ["complete", rng.choice(hots)],
                            ["complete", rng.choice(hots)]])
        if a[0] == "outer_complete":
            outer_over = True
        script.append(a)
    if not outer_over and rng.random() < 0.6:
        script.append(["outer_complete"])
        for _ in range(rng.choice([0, 1, 2])):
            if hots:
                script.append(["push", rng.choice(hots), rng.choice(vals)])
        for m in hots:
            if rng.random() < 0.7:
                script.append(["complete", m])
    return {"operator": op, "mc": mc, "inners": inners, "script": script, "reactions": reactions}


# ------------------------------------------------------------------------------------------------ reference
def reference(sc):
    """The property text, executed.  Returns (log [(step, kind, payload)], started [inner ids in start order],
    snapshots [sorted subscribed inner ids after each top-level step], finished-after-step [bool], facts)."""
    inners, reactions, mc = sc["inners"], sc["reactions"], sc["mc"]
    log, facts, started, snapshots, over = [], set(), [], [], []
    st = {"step": -1, "outer": "open", "finished": False}
    running, queue = [], []
    hot = {m: {"state": "open", "value": s.get("initial")} for m, s in enumerate(inners) if s["kind"] == "hot"}
    used = set()                 # inners already sent (or requested to be sent) through the outer
    fired = [False] * len(reactions)
    depth = [0]                  # > 0: inside the subscriber's on_next
    draining = [0]               # > 0: inside the subscribe() of an inner that emits synchronously

    def finish():
        st["finished"] = True
        del running[:]
        del queue[:]

    def deliver(kind, payload=None):
        if st["finished"]:
            return
        log.append((st["step"], kind, payload))
        if kind != "N":
            finish()
            return
        for i, (v, action) in enumerate(reactions):
            if not fired[i] and repr(v) == repr(payload):
                fired[i] = True
                depth[0] += 1
                facts.add("reaction:" + action[0])
                do(action)
                depth[0] -= 1

    def inner_next(j, v):
        if j in running:                     # subscribed (nothing is after the end: running is emptied)
            deliver("N", v)

    def inner_completed(j):
        if j not in running:
            return
        running.remove(j)
        if queue:
            facts.add("queued_inner_started")
            if depth[0]:
                facts.add("queued_inner_started_reentrantly")
            start(queue.pop(0))
        elif st["outer"] == "C" and not running:
            facts.add("completed_by_last_inner")
            deliver("C")

    def inner_error(j):
        if j in running:
            if len(running) > 1 or queue:
                facts.add("error_while_others_active_or_waiting")
            deliver("E", f"inner{j}")

    def start(j):
        running.append(j)
        started.append(j)
        if mc is not None and len(running) == mc:
            facts.add("limit_reached")
        spec = inners[j]
        if spec["kind"] == "sync":
            draining[0] += 1
            for v in spec["values"]:
                inner_next(j, v)
            draining[0] -= 1
            if spec["end"] == "C":
                inner_completed(j)
            elif spec["end"] == "E":
                inner_error(j)
        else:
            h = hot[j]
            if h["state"] == "C":
                inner_completed(j)
            elif h["state"] == "E":
                inner_error(j)
            elif "initial" in spec:
                draining[0] += 1
                inner_next(j, h["value"])
                draining[0] -= 1

    def do(a):
        if a[0] == "arrive":
            j = a[1]
            if j in used:
                return
            used.add(j)
            if st["outer"] != "open" or st["finished"]:
                return
            if depth[0]:
                facts.add("reentrant_arrival")
                if draining[0]:
                    facts.add("reentrant_arrival_while_inner_inside_subscribe")
            if mc is None or len(running) < mc:
                if depth[0] and draining[0]:
                    facts.add("reentrant_arrival_while_inner_inside_subscribe:started_at_once")
                start(j)
            else:
                if depth[0] and draining[0]:
                    facts.add("reentrant_arrival_while_inner_inside_subscribe:has_to_wait")
                queue.append(j)
                if len(queue) >= 2:
                    facts.add("two_or_more_waiting")
        elif a[0] == "push":
            h = hot[a[1]]
            if h["state"] == "open":
                h["value"] = a[2]
                inner_next(a[1], a[2])
        elif a[0] == "complete":
            h = hot[a[1]]
            if h["state"] == "open":
                h["state"] = "C"
                inner_completed(a[1])
        elif a[0] == "error":
            h = hot[a[1]]
            if h["state"] == "open":
                h["state"] = "E"
                inner_error(a[1])
        elif a[0] == "outer_complete":
            if st["outer"] == "open":
                st["outer"] = "C"
                if st["finished"]:
                    return
                if running:
                    facts.add("outer_completed_while_inners_running")
                    if depth[0]:
                        facts.add("outer_completed_reentrantly_while_inners_running")
                else:
                    deliver("C")
        elif a[0] == "outer_error":
            if st["outer"] == "open":
                st["outer"] = "E"
                if running and not st["finished"]:
                    facts.add("outer_error_while_inners_running")
                deliver("E", "outer")
        elif a[0] == "dispose":
            if running and not st["finished"]:
                facts.add("disposed_while_inners_running")
            finish()
        else:
            raise AssertionError(a)

    for k, a in enumerate(sc["script"]):
        st["step"] = k
        do(a)
        snapshots.append(sorted(running))
        over.append(st["finished"])
    return log, started, snapshots, over, facts


# ------------------------------------------------------------------------------------------------ driver
def run_impl(sc):
    """Drive the real operator.  Returns (log, problems [(step, text)], started [ids, while the subscriber was alive],
    snapshots, most inners subscribed at once while alive)."""
    import reactivex as rx
    from reactivex import operators as ops
    from reactivex.disposable import Disposable
    inners, reactions, mc = sc["inners"], sc["reactions"], sc["mc"]
    log, problems = [], []
    step = [-1]
    live = {}                    # inner id (None = outer) -> number of live subscriptions
    started = []                 # inner ids in the order they were subscribed while the subscriber was alive
    over = [False]               # the subscriber received its terminal or asked for disposal
    most = [0]

    def entered(m):
        """subscribe() of inner m entered"""
        live[m] = live.get(m, 0) + 1
        if m is None or over[0]:
            return
        started.append(m)
        now = sorted(k for k, c in live.items() if k is not None for _ in range(c))
        most[0] = max(most[0], len(now))
        if mc is not None and len(now) > mc and not any(p[2] == "bound" for p in problems):
            problems.append((step[0], f"{len(now)} inners subscribed at the same moment (inners {now}) although "
                                      f"max_concurrent = {mc}", "bound"))

    class Probe:
        """hand-driven hot source (own observer list, remembers its end)"""

        def __init__(self, m, spec):
            self.m, self.spec = m, spec
            self.observers, self.state, self.value = [], "open", spec.get("initial")
            self.observable = rx.Observable(self.subscribe)

        def subscribe(self, observer, scheduler=None):
            entered(self.m)
            if self.state != "open":
                live[self.m] -= 1                      # terminated: nothing more will be emitted
                if self.state == "C":
                    observer.on_completed()
                else:
                    observer.on_error(Exception(f"inner{self.m}"))
                return Disposable()
            rec = [observer]
            self.observers.append(rec)

            def dispose():
                if rec in self.observers:          # not yet removed by the probe's own end
                    self.observers.remove(rec)
                    live[self.m] -= 1
            d = Disposable(dispose)                # runs its action once
            if "initial" in self.spec:
                observer.on_next(self.value)
            return d

        def on_next(self, v):
            if self.state == "open":
                self.value = v
                for rec in list(self.observers):
                    if rec in self.observers:
                        rec[0].on_next(v)

        def _end(self, state, call):
            if self.state == "open":
                self.state = state
                recs, self.observers = list(self.observers), []
                for rec in recs:
                    live[self.m] -= 1
                    call(rec[0])

        def on_completed(self):
            self._end("C", lambda o: o.on_completed())

        def on_error(self, label):
            self._end("E", lambda o: o.on_error(Exception(label)))

    class Sync:
        def __init__(self, m, spec):
            self.m, self.spec = m, spec
            self.observable = rx.Observable(self.subscribe)

        def subscribe(self, observer, scheduler=None):
            entered(self.m)
            gone = [False]

            def leave():
                if not gone[0]:
                    gone[0] = True
                    live[self.m] -= 1
            d = Disposable(leave)
            for v in self.spec["values"]:
                observer.on_next(v)
            if self.spec["end"] == "C":
                leave()                                # finished: nothing more will be emitted
                observer.on_completed()
            elif self.spec["end"] == "E":
                leave()
                observer.on_error(Exception(f"inner{self.m}"))
            return d

    members = [Sync(m, s) if s["kind"] == "sync" else Probe(m, s) for m, s in enumerate(inners)]
    outer = Probe(None, {})
    used = set()
    fired = [False] * len(reactions)
    sub = [None]
    which = sc["operator"]

    def do(a):
        if a[0] == "arrive":
            if a[1] in used:
                return
            used.add(a[1])
            outer.on_next(a[1])
        elif a[0] == "push":
            members[a[1]].on_next(a[2])
        elif a[0] == "complete":
            members[a[1]].on_completed()
        elif a[0] == "error":
            members[a[1]].on_error(f"inner{a[1]}")
        elif a[0] == "outer_complete":
            outer.on_completed()
        elif a[0] == "outer_error":
            outer.on_error("outer")
        elif a[0] == "dispose":
            over[0] = True
            sub[0].dispose()
        else:
            raise HarnessBug(a)

    def guarded(a, where):
        try:
            do(a)
        except HarnessBug:
            raise
        except Exception as e:       # nothing in a scenario raises on a correct tree (incl. the library's asserts)
            log.append((step[0], "RAISED", f"{where} {a}: {type(e).__name__}: {e}"[:300]))

    def on_next(v):
        log.append((step[0], "N", v))
        for i, (rv, action) in enumerate(reactions):
            if not fired[i] and repr(rv) == repr(v):
                fired[i] = True
                guarded(action, "reaction")

    def on_error(e):
        over[0] = True
        log.append((step[0], "E", str(e)))

    def on_completed():
        over[0] = True
        log.append((step[0], "C", None))

    pick = lambda j: members[j].observable
    src = outer.observable
    if which == "flat_map":
        o = src.pipe(ops.flat_map(pick))
    elif which == "flat_map_indexed":
        o = src.pipe(ops.flat_map_indexed(lambda j, _i: members[j].observable))
    elif which == "map+merge_all":
        o = src.pipe(ops.map(pick), ops.merge_all())
    elif which == "concat_map":
        o = src.pipe(ops.concat_map(pick))
    elif which == "map+merge(max_concurrent)":
        o = src.pipe(ops.map(pick), ops.merge(max_concurrent=mc))
    else:
        raise HarnessBug(which)
    snapshots = []
    try:
        sub[0] = o.subscribe(on_next, on_error, on_completed)
    except Exception as e:
        log.append((-1, "RAISED", f"subscribe: {type(e).__name__}: {e}"[:300]))
        return log, problems, started, snapshots, most[0]
    for k, a in enumerate(sc["script"]):
        step[0] = k
        guarded(a, "step")
        snapshots.append(sorted(m for m, c in live.items() if m is not None for _ in range(c)))
        if over[0]:
            held = [f"inner {m}" for m in snapshots[-1]] + (["outer"] if live.get(None, 0) > 0 else [])
            if held:
                problems.append((k, f"still subscribed after the subscriber's end: {held}", "leak"))
        if any(c < 0 for c in live.values()):
            raise HarnessBug(("probe accounting", live))
        if problems:
            break
    return log, problems, started, snapshots, most[0]


def check(sc):
    """None if the implementation agrees with the reference, else (kind, text, got, expected)."""
    e_log, e_started, e_snap, e_over, _ = reference(sc)
    exp = {"subscriber log (step, kind, payload)": [list(x) for x in e_log],
           "inners in the order they are subscribed": e_started,
           "subscribed inners after each step": e_snap}
    try:
        status, res = lib.with_timeout(5, run_impl, sc)
    except HarnessBug:
        raise
    except Exception as e:           # e.g. RecursionError surfacing outside a guarded call
        return ("raised", f"{type(e).__name__}: {e}"[:300], None, exp)
    if status != "ok":
        return ("timeout", "the scenario did not finish in 5 s", None, exp)
    log, problems, started, snap, most = res
    got = {"subscriber log (step, kind, payload)": [list(x) for x in log],
           "inners in the order they are subscribed": started,
           "subscribed inners after each step": snap,
           "most inners subscribed at the same moment": most}
    raised = [x for x in log if x[1] == "RAISED"]
    if raised:
        return ("raised", f"an exception escaped from the library at step {raised[0][0]}: {raised[0][2]}", got, exp)
    bound = [p for p in problems if p[2] == "bound"]
    if bound:                              # independent of the reference
        return ("limit-exceeded", f"step {bound[0][0]}: {bound[0][1]}", got, exp)
    if repr(log) != repr(e_log):           # repr: 0 / False / 0.0 are different elements
        i = next((i for i, (a, b) in enumerate(zip(log, e_log)) if repr(a) != repr(b)), min(len(log), len(e_log)))
        g = log[i] if i < len(log) else "nothing"
        e = e_log[i] if i < len(e_log) else "nothing"
        if i < len(log) and log[i][1] == "C" and (i >= len(e_log) or e_log[i][1] != "C" or e_log[i][0] != log[i][0]):
            kind = "early-completion"
        elif i >= len(log):
            kind = "lost"
        elif log[i][1] == "N" and sorted(map(repr, log)) == sorted(map(repr, e_log)):
            kind = "order"
        elif log[i][1] == "N":
            kind = "extra-element"
        else:
            kind = "notifications"
        return (kind, f"subscriber's notification #{i}: got {g}, expected {e}", got, exp)
    if started != e_started:
        return ("start-order", f"inners were subscribed in the order {started}, expected {e_started}", got, exp)
    for k, s in enumerate(snap):
        if not e_over[k] and s != e_snap[k]:
            return ("subscribed-set", f"after step {k} the inners {s} are subscribed, expected {e_snap[k]}", got, exp)
    if problems:
        return ("leak", f"step {problems[0][0]}: {problems[0][1]}", got, exp)
    return None


def size(sc):
    return (len(sc["script"]) + len(sc["reactions"]) + len(sc["inners"])
            + sum(len(s.get("values", [])) for s in sc["inners"]))


def shrink(sc, kind):
    """Greedy: drop script steps, reaction entries, inner values while the same kind of mismatch remains."""
    sc = copy.deepcopy(sc)

    def still(c):
        bad = check(c)
        return bad is not None and bad[0] == kind
    again = True
    while again:
        again = False
        cands = []
        for i in range(len(sc["script"])):
            c = copy.deepcopy(sc)
            del c["script"][i]
            cands.append(c)
        for i in range(len(sc["reactions"])):
            c = copy.deepcopy(sc)
            del c["reactions"][i]
            cands.append(c)
        for m, s in enumerate(sc["inners"]):
            for i in range(len(s.get("values", []))):
                c = copy.deepcopy(sc)
                del c["inners"][m]["values"][i]
                cands.append(c)
            if "initial" in s:
                c = copy.deepcopy(sc)
                del c["inners"][m]["initial"]
                cands.append(c)
            if s.get("end") in ("C", "E"):
                c = copy.deepcopy(sc)
                c["inners"][m]["end"] = "open"
                cands.append(c)
        for c in cands:
            if c["script"] and still(c):
                sc, again = c, True
                break
    return sc


LEGEND = ("inners[j]: sync = emits 'values' inside subscribe() and then completes (C) / fails (E) / stays open; hot = "
          "hand-driven probe (with 'initial': hands its current value to a new subscriber inside subscribe()).  "
          "script = top-level actions; reactions = [value, action]: executed by the subscriber from inside its "
          "on_next the first time it receives that value.  ['arrive', j] = the outer emits j, which the projection "
          "maps to inner j (at most once per inner).  mc = max_concurrent (None: unlimited).  'expected' is the "
          "property text executed directly: an arriving inner is subscribed at once unless mc inners are subscribed "
          "(an inner counts from the moment its subscribe() is entered until it terminates), otherwise it waits and "
          "is subscribed, in arrival order, when a subscribed inner completes; every element of a subscribed inner is "
          "forwarded when it is made; first error ends everything; completion when the outer and all inners completed.")


def scenarios(chk):
    n = 20000 if chk.tier == "quick" else 200000
    hist, fact_hist = {}, {}
    nontrivial = set()
    shrunk, worst = {}, {}
    timeouts = done = 0
    for _ in range(n):
        if timeouts >= 3:                              # a hanging library: three witnesses are enough
            break
        sc = gen(chk.rng)
        chk.cov["evaluations"] += 1
        done += 1
        e_log, _, _, _, facts = reference(sc)
        key = sc["operator"] + (f"={sc['mc']}" if sc["operator"].endswith(")") else "")
        hist[key] = hist.get(key, 0) + 1
        for f in facts:
            fact_hist[f] = fact_hist.get(f, 0) + 1
        bad = check(sc)
        if bad:
            sig = f"C11|reent|{sc['operator']}|{bad[0]}"
            timeouts += bad[0] == "timeout"
            if shrunk.get(sig, 0) < 3 and bad[0] != "timeout":     # minimise the first few per signature, keep the smallest
                shrunk[sig] = shrunk.get(sig, 0) + 1
                sc = shrink(sc, bad[0])
                bad = check(sc)
                facts = reference(sc)[4]
            if sig in worst and worst[sig][2] <= size(sc):
                continue
            worst[sig] = (sig, dict(sc, family="reent_scenarios", mismatch=bad[0], what=bad[1], got=bad[2],
                                    expected=bad[3], facts=sorted(facts), legend=LEGEND), size(sc))
        elif "reentrant_arrival_while_inner_inside_subscribe" in facts and len(e_log) >= 2:
            nontrivial.add(json.dumps(sc, sort_keys=True, default=repr))
    for sig, rep, sz in worst.values():
        chk.violation(sig, rep, size=sz)
    chk.cov["distinct_nontrivial"] += len(nontrivial)
    chk.cov["input_distribution"]["reent_scenarios"] = dict(sorted(hist.items()))
    chk.cov["reent_scenarios"] = {"cases": done, "distinct_nontrivial": len(nontrivial),
                                  "per_operator": dict(sorted(hist.items())),
                                  "cases_with": dict(sorted(fact_hist.items()))}
    chk.cov["rule"] += ("; plus oracle-only scenarios (reent_scenarios, harness/c11_reent.py): flat_map / "
                        "flat_map_indexed / map+merge_all / concat_map / map+merge(max_concurrent=1..3) over a "
                        "hand-driven outer probe and 2-5 inners that are synchronous sources (emit a list and complete "
                        "/ fail / stay open inside subscribe()) or hot probes (optionally replaying their current "
                        "value on subscribe), a seeded top-level script and a reaction table executed by the "
                        "subscriber RE-ENTRANTLY from its on_next (make the outer emit a new inner, complete / fail "
                        "the outer, push / complete / fail a hot inner, dispose), so that outer elements arrive while "
                        "an inner is still inside its own subscribe(); complete subscriber logs, the order in which "
                        "inners are subscribed and the set of subscribed inners after every step are compared with an "
                        "independent interpreter of the property text, and the probes count the inners subscribed at "
                        "any moment (never more than max_concurrent while the subscriber is alive; nothing at all "
                        "after its end); non-trivial = oracle holds, an outer element arrived re-entrantly while an "
                        "inner was inside its subscribe(), >= 2 notifications")


def replay_case(rep, path):
    sc = {k: rep[k] for k in ("operator", "mc", "inners", "script", "reactions")}
    bad = check(sc)
    if bad:
        print(json.dumps(dict(sc, mismatch=bad[0], what=bad[1], got=bad[2], expected=bad[3]), indent=1, default=repr))
        print(f"VIOLATION property=C11 replay={path}")
        return 1
    print(f"[C11] replay {path}: implementation agrees with the reference semantics on this case")
    return 0
