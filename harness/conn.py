"""K1/K2 machinery of C24: ConnectableObservable, ref_count / share, auto_connect, publish,
publish_value, replay, multicast (subject form and subject_factory + mapper form), mounted on a
hand-driven source that records its own subscribe / unsubscribe instants.

A history is a TREE of calls (as in harness/subj.py):
    top     : [op]                     operations issued by the driver
    scripts : {o: [[op], ...]}         what subscriber o does from inside its k-th callback
    op      : ('sub', o) | ('unsub', o)            subscriber o subscribes to / disposes its handle of
                                                   the multicast observable
              ('connect',) | ('disc', j)           connectable.connect() / dispose the disposable that
                                                   the j-th connect() call returned
              ('next', value_id) | ('err', code) | ('done',)   the SOURCE emits to whoever is subscribed
              ('adv', d)                           the virtual clock moves (replay flavours)
A configuration:
    subject : ('subject',) | ('behavior', v0) | ('async',) | ('replay', buffer_size, window)
    via     : how the connectable is made: 'publish' | 'publish_value' | 'replay' | 'multicast'
    mode    : ('plain',) | ('refcount',) | ('share',) | ('auto', n) | ('mapper', which)
              ('auto', None) = auto_connect() with its DEFAULT argument (the model reads it as 1)
    cold    : notifications the source emits synchronously inside every subscribe() (a cold
              prefix; [] = purely hot)
    sched   : bool (default False): every subscribe() / connect() of the history is given a
              subscribe-time scheduler (the replay flavours: their VirtualTimeScheduler, otherwise a
              second VirtualTimeScheduler drained with it); the source records which scheduler IT
              is subscribed with ("given" / "none" / "other") next to its ssub record, the subject
              factory which one it is called with.  The model has no notion of it (the log must be
              the same with and without); the statement of C24 does not mention schedulers, so the
              forwarding is MEASURED (chk.cov["scheduler_forwarding"]), never a violation.
Driver rules (mirrored by Subjects/Connectable.v): every operation, nested ones included, runs
inside try/except; ('sub', o) with an id used before is skipped; ('unsub', o) without handle is
skipped; ('disc', j) without j-th handle is skipped; ('connect',) is skipped when the connectable
is not reachable (share, mapper); replay flavours run on a VirtualTimeScheduler drained after
every top-level operation.

Log records: call / ret(raised) / got(o, n) / cbend(o) / ssub(cid) / sunsub(cid) in one total order; cid
numbers the source's subscriptions in the order they were made; cbend marks the return of subscriber
o's callback (after the operations it issued from inside), used by the trace oracle `TraceExpect` only."""
from __future__ import annotations

import itertools

import k2
import lib
import subj
from lib import gz, gopt
from subj import POOL, g_note

DISPOSED = k2.LIB_ERRORS["DisposedException"]


# --------------------------------------------------------------------------
# the source
# --------------------------------------------------------------------------

class Source:
    def __init__(self, drv, cold):
        import reactivex
        from reactivex.disposable import Disposable
        self.drv = drv
        self.recs = []                 # [observer, live]

        def subscribe(observer, scheduler=None):
            cid = len(self.recs)
            rec = [observer, True]
            self.recs.append(rec)
            drv.rec.append({"t": "ssub", "cid": cid, "sched": drv.sched_tag(scheduler)})
            for n in cold:
                deliver(observer, n)

            def dispose():
                if rec[1]:
                    rec[1] = False
                    drv.rec.append({"t": "sunsub", "cid": cid})
            return Disposable(dispose)
        self.observable = reactivex.Observable(subscribe)

    def push(self, n):
        for rec in list(self.recs):
            if rec[1]:
                deliver(rec[0], n)


def deliver(observer, n):
    if n[0] == "N":
        observer.on_next(POOL.val(n[1]))
    elif n[0] == "E":
        observer.on_error(k2.UserError(n[1]))
    else:
        observer.on_completed()


class LogObserver:
    def __init__(self, drv, o):
        self.drv, self.o = drv, o

    def _cb(self, n):
        d = self.drv
        d.rec.append({"t": "got", "o": self.o, "n": n, "call": d.stack[-1] if d.stack else None})
        k = d.calls[self.o]
        d.calls[self.o] = k + 1
        sc = d.scripts.get(self.o, [])
        if k < len(sc):
            for op in sc[k]:
                d.do(op, in_cb=(self.o, k))
        d.rec.append({"t": "cbend", "o": self.o})

    def on_next(self, v):
        self._cb(("N", POOL.id(v)))

    def on_error(self, e):
        self._cb(("E", k2.err_id(e)))

    def on_completed(self):
        self._cb(("C",))


MAPPERS = {
    "id": lambda c: c,
    # uses the connectable twice: two subscriptions to the subject, ONE to the source
    "merge2": lambda c: __import__("reactivex").merge(c, c),
}


class Driver:
    def __init__(self, cfg, scripts):
        import reactivex
        from reactivex import operators as ops
        from reactivex.scheduler import VirtualTimeScheduler
        from reactivex.subject import AsyncSubject, BehaviorSubject, ReplaySubject, Subject
        self.cfg, self.scripts = cfg, scripts
        self.rec = []
        self.handles, self.calls, self.stack, self.chandles = {}, {}, [], []
        self.ncalls = 0
        sk = cfg["subject"]
        self.scheduler = VirtualTimeScheduler() if sk[0] == "replay" else None
        # the subscribe-time scheduler handed to every subscribe() / connect() (cfg["sched"])
        self.sub_sched = None
        if cfg.get("sched"):
            self.sub_sched = self.scheduler if self.scheduler is not None else VirtualTimeScheduler()
        self.factory_args = []
        self.source = Source(self, cfg.get("cold", []))
        src = self.source.observable
        mode, via = cfg["mode"], cfg["via"]

        def fresh_subject(arg="build"):
            if arg != "build":
                self.factory_args.append(self.sched_tag(arg))
            if sk[0] == "subject":
                return Subject()
            if sk[0] == "behavior":
                return BehaviorSubject(POOL.val(sk[1]))
            if sk[0] == "async":
                return AsyncSubject()
            return ReplaySubject(sk[1], sk[2], self.scheduler)
        self.connectable = None
        if mode[0] == "mapper":
            m = MAPPERS[mode[1]]
            if via == "publish":
                assert sk[0] == "subject"
                self.obs = src.pipe(ops.publish(m))
            elif via == "publish_value":
                assert sk[0] == "behavior"
                self.obs = src.pipe(ops.publish_value(POOL.val(sk[1]), m))
            elif via == "replay":
                assert sk[0] == "replay"
                self.obs = src.pipe(ops.replay(sk[1], sk[2], mapper=m, scheduler=self.scheduler))
            else:
                self.obs = src.pipe(ops.multicast(subject_factory=fresh_subject, mapper=m))
            return
        if via == "publish":
            assert sk[0] == "subject"
            mk = ops.publish()
        elif via == "publish_value":
            assert sk[0] == "behavior"
            mk = ops.publish_value(POOL.val(sk[1]))
        elif via == "replay":
            assert sk[0] == "replay"
            mk = ops.replay(sk[1], sk[2], scheduler=self.scheduler)
        else:
            mk = ops.multicast(fresh_subject("build"))
        if mode[0] == "share":
            assert via == "publish"
            self.obs = src.pipe(ops.share())
            return
        self.connectable = src.pipe(mk)
        if mode[0] == "plain":
            self.obs = self.connectable
        elif mode[0] == "refcount":
            self.obs = self.connectable.pipe(ops.ref_count())
        elif mode[0] == "auto":
            # auto_connect(0) connects here, before any operation of the history
            self.obs = (self.connectable.auto_connect() if mode[1] is None
                        else self.connectable.auto_connect(mode[1]))
        else:
            raise AssertionError(mode)

    def sched_tag(self, scheduler):
        if scheduler is None:
            return "none"
        return "given" if scheduler is self.sub_sched else "other"

    def do(self, op, in_cb=None):
        cid = self.ncalls
        self.ncalls += 1
        self.rec.append({"t": "call", "id": cid, "op": op, "parent": self.stack[-1] if self.stack else None,
                         "in_cb": in_cb})
        self.stack.append(cid)
        raised = None
        try:
            k = op[0]
            if k == "sub":
                o = op[1]
                if o not in self.calls:
                    self.calls[o] = 0
                    if self.sub_sched is not None:
                        h = self.obs.subscribe(LogObserver(self, o), scheduler=self.sub_sched)
                    else:
                        h = self.obs.subscribe(LogObserver(self, o))
                    self.handles[o] = h
            elif k == "unsub":
                h = self.handles.get(op[1])
                if h is not None:
                    h.dispose()
            elif k == "connect":
                if self.connectable is not None:
                    self.chandles.append(self.connectable.connect(self.sub_sched) if self.sub_sched is not None
                                         else self.connectable.connect())
            elif k == "disc":
                if op[1] < len(self.chandles):
                    self.chandles[op[1]].dispose()
            elif k == "next":
                self.source.push(("N", op[1]))
            elif k == "err":
                self.source.push(("E", op[1]))
            elif k == "done":
                self.source.push(("C",))
            elif k == "adv":
                if self.scheduler is not None:
                    self.scheduler.sleep(op[1])
            else:
                raise AssertionError(op)
        except Exception as e:   # noqa: BLE001  (the driver's try/except around every operation)
            raised = k2.err_id(e)
        self.stack.pop()
        self.rec.append({"t": "ret", "id": cid, "raised": raised})

    def drain(self):
        from reactivex.scheduler import VirtualTimeScheduler
        if self.scheduler is not None:
            VirtualTimeScheduler.start(self.scheduler)
        if self.sub_sched is not None and self.sub_sched is not self.scheduler:
            VirtualTimeScheduler.start(self.sub_sched)


def run_case(cfg, hist):
    """-> records (one total order)"""
    top, scripts = hist
    try:
        d = Driver(cfg, scripts)
    except Exception as e:   # noqa: BLE001
        return [{"t": "build-raised", "raised": k2.err_id(e)}]
    d.drain()
    for op in top:
        d.do(op)
        d.drain()
    if d.factory_args:
        d.rec.append({"t": "meta", "factory_args": d.factory_args})
    return d.rec


# --------------------------------------------------------------------------
# Gallina
# --------------------------------------------------------------------------

def g_cop(op):
    k = op[0]
    if k == "sub":
        return f"CSub {op[1]}%nat"
    if k == "unsub":
        return f"CUnsub {op[1]}%nat"
    if k == "connect":
        return "CConnect"
    if k == "disc":
        return f"CDisc {op[1]}%nat"
    if k == "next":
        return f"CNext {gz(op[1])}"
    if k == "err":
        return f"CErr {gz(op[1])}"
    if k == "done":
        return "CDone"
    if k == "adv":
        return f"CAdv {gz(op[1])}"
    raise AssertionError(op)


def g_cops(ops):
    return "[" + "; ".join(g_cop(o) for o in ops) + "]"


def g_hist(hist):
    top, scripts = hist
    sc = "; ".join(f"({o}%nat, [" + "; ".join(g_cops(r) for r in rs) + "])" for o, rs in sorted(scripts.items()))
    return f"({g_cops(top)}, [{sc}])"


def g_config(cfg):
    sk, mode = cfg["subject"], cfg["mode"]
    if sk[0] == "subject":
        fl = "FSync KSubject 0"
    elif sk[0] == "behavior":
        fl = f"FSync KBehavior {gz(sk[1])}"
    elif sk[0] == "async":
        fl = "FSync KAsync 0"
    else:
        fl = f"FReplay {gopt(sk[1])} {gopt(sk[2])}"
    if mode[0] == "plain":
        md = "MPlain"
    elif mode[0] in ("refcount", "share"):
        md = "MRefCount"
    elif mode[0] == "auto":
        md = f"(MAuto {1 if mode[1] is None else mode[1]}%nat)"
    else:
        raise AssertionError(mode)
    reach = "false" if mode[0] == "share" else "true"
    cold = "[" + "; ".join(g_note(n) for n in cfg.get("cold", [])) + "]"
    return f"(Config ({fl}) {md} {reach} {cold})"


def g_xlog(rec):
    out = []
    for r in rec:
        t = r["t"]
        if t == "call":
            out.append(f"XOp ({g_cop(r['op'])})")
        elif t == "got":
            out.append(f"XGot {r['o']}%nat ({g_note(r['n'])})")
        elif t == "ret" and r["raised"] is not None:
            out.append(f"XRaised {gz(r['raised'])}")
        elif t == "ssub":
            out.append(f"XSSub {r['cid']}%nat")
        elif t == "sunsub":
            out.append(f"XSUnsub {r['cid']}%nat")
        elif t == "build-raised":
            out.append(f"XRaised {gz(r['raised'])}")
    return "[" + "; ".join(out) + "]"


def g_flavour(cfg):
    sk = cfg["subject"]
    if sk[0] == "subject":
        return "FSync KSubject 0"
    if sk[0] == "behavior":
        return f"FSync KBehavior {gz(sk[1])}"
    if sk[0] == "async":
        return "FSync KAsync 0"
    return f"FReplay {gopt(sk[1])} {gopt(sk[2])}"


def g_mapper_case(cfg, hist):
    cold = "[" + "; ".join(g_note(n) for n in cfg.get("cold", [])) + "]"
    return f"(({g_flavour(cfg)}), {cold}, {g_cops(hist[0])})"


MAPPER_CASE_TY = "(flavour Z * list (ev Z) * list (@cop Z)) * (list (xevent Z) * bool)"


IMPORTS = ("Base.Prelude Ops.Machine Subjects.Subject Subjects.Behavior Subjects.Async Subjects.Family "
           "Subjects.Replay Subjects.Connectable")
FUEL = 20000
PRELUDE = (f"Definition model (c : config Z * history Z) := run_config 0 (fst c) {FUEL} (snd c).\n"
           "Definition out_eqb (a b : list (xevent Z) * bool) := "
           "list_eqb xevent_eqb (fst a) (fst b) && Bool.eqb (snd a) (snd b).\n")
CASE_TY = "(config Z * history Z) * (list (xevent Z) * bool)"
MAPPER_PRELUDE = (f"Definition model (c : flavour Z * list (ev Z) * list (@cop Z)) := "
                  f"run_mapper 0 (fst (fst c)) (snd (fst c)) {FUEL} (snd c).\n"
                  "Definition out_eqb (a b : list (xevent Z) * bool) := "
                  "list_eqb xevent_eqb (fst a) (fst b) && Bool.eqb (snd a) (snd b).\n")


# --------------------------------------------------------------------------
# generators
# --------------------------------------------------------------------------

VALS = subj.VALS                       # pool ids: None 0 False '' () 0.0 1 'a'
NOTES = [("N", v) for v in (0, 1, 2, 3)] + [("C",), ("E", 11)]


def gen_config(rng, mapper=False):
    r = rng.random()
    if r < 0.35:
        sk, via = ("subject",), rng.choice(["publish", "publish", "multicast"])
    elif r < 0.6:
        sk, via = ("behavior", rng.choice(VALS)), rng.choice(["publish_value", "publish_value", "multicast"])
    elif r < 0.72:
        sk, via = ("async",), "multicast"
    else:
        sk = ("replay", rng.choice([None, 0, 1, 2, 3]), rng.choice([None, None, None, 0, 1, 2, 5]))
        via = rng.choice(["replay", "replay", "multicast"])
    if mapper:
        mode = ("mapper", rng.choice(["id", "merge2"]))
    else:
        r = rng.random()
        if r < 0.3:
            mode = ("plain",)
        elif r < 0.6:
            mode = ("refcount",)
        elif r < 0.7 and via == "publish":
            mode = ("share",)
        elif r < 0.7:
            mode = ("refcount",)
        else:
            mode = ("auto", rng.choice([0, 1, 1, 2, 2, 3, None]))
    cold = []
    if rng.random() < 0.25:
        cold = [rng.choice(NOTES[:4]) for _ in range(rng.choice([1, 1, 2]))]
        if rng.random() < 0.5:
            cold.append(rng.choice(NOTES[4:]))
    return {"subject": sk, "via": via, "mode": mode, "cold": cold, "sched": rng.random() < 0.4}


def gen_op(rng, nobs, cfg, nested=False, manual=True):
    r = rng.random()
    if cfg["subject"][0] == "replay" and not nested and r < 0.08:
        return ("adv", rng.choice([0, 1, 1, 2, 3]))
    r = rng.random()
    if r < 0.26:
        return ("sub", rng.randrange(nobs))
    if r < 0.42:
        return ("unsub", rng.randrange(nobs))
    if manual and r < 0.52:
        return ("connect",)
    if manual and r < 0.60:
        return ("disc", rng.choice([0, 0, 1, 2]))
    if r < 0.86:
        return ("next", rng.choice(VALS))
    if r < 0.91:
        return ("err", rng.choice([11, 12]))
    return ("done",)


def gen_history(rng, cfg, flat=None):
    nobs = rng.choice([2, 3, 4, 5])
    n = rng.choice([1, 2, 3, 4, 5, 6, 7, 8, 10, 12])
    # manual connect()/dispose: always for the plain connectable, sometimes next to ref_count / auto_connect
    manual = cfg["mode"][0] == "plain" or (cfg["mode"][0] in ("refcount", "auto") and rng.random() < 0.2)
    top = [gen_op(rng, nobs, cfg, manual=manual) for _ in range(n)]
    if rng.random() < 0.35:
        top.append(("sub", nobs))
        nobs += 1
    scripts = {}
    if flat is None:
        flat = rng.random() < 0.6
    if not flat:
        for o in range(nobs):
            if rng.random() < 0.5:
                scripts[o] = [[gen_op(rng, nobs + 1, cfg, nested=True, manual=manual)
                               for _ in range(rng.choice([0, 1, 1, 1, 2]))]
                              for _ in range(rng.choice([1, 2, 3]))]
    return (top, scripts)


# --------------------------------------------------------------------------
# oracle (independent of the model): the statement of C24 evaluated on the records
# --------------------------------------------------------------------------

def split_ops(rec):
    """top-level operations with what happened during each: [(op, [records])]; records before
    the first call (auto_connect(0) connects when the observable is built) under op None"""
    out, cur, depth = [(None, [])], None, 0
    for r in rec:
        if r["t"] == "call" and r["parent"] is None:
            out.append((r["op"], []))
        out[-1][1].append(r)
    return out


def retained(buf, bs, w, now):
    vals = list(buf)
    if bs is not None:
        vals = vals[max(0, len(vals) - bs):] if bs > 0 else []
    if w is not None:
        vals = [(t, v) for (t, v) in vals if now - t <= w]
    return [("N", v) for (_, v) in vals]


class Expect:
    """What the PROPERTY says must happen on a history of top-level operations, computed from the
    history alone: the source is subscribed once per connection and only while connected;
    ref_count / share connect when the number of subscribers goes 0 -> 1 and disconnect when it
    returns to 0; auto_connect(n) connects when the n-th subscriber arrives, once; a subscriber
    receives what the shared subject receives from its subscription on, after the current value
    (publish_value) / the retained values (replay); a subject that has ended greets a newcomer
    with the terminal notification only (replay: retained values first; AsyncSubject: its last
    value first)."""

    def __init__(self, cfg):
        self.cfg = cfg
        self.kind = cfg["subject"][0]
        self.mode = cfg["mode"][0]
        self.n_auto = (1 if cfg["mode"][1] is None else cfg["mode"][1]) if self.mode == "auto" else None
        self.cold = cfg.get("cold", [])
        self.connected = False          # a connection exists (connect() .. its disposal)
        self.conn_id = -1               # number of the current connection
        self.src_open = False           # the source subscription of the current connection is alive
        self.next_cid = 0
        self.status = "live"            # or ('term', note)
        self.value = cfg["subject"][1] if self.kind == "behavior" else None
        self.has_value = False
        self.buf = []                   # replay: every accepted (time, value)
        self.clock = 0
        self.subs = []                  # current subscribers of the subject, in order
        self.used = set()
        self.count = 0                  # ref_count: current subscribers of the ref-counted observable
        self.rc_conn = None             # ref_count: the connection its last 0 -> 1 connect() returned
        self.rc_claim = False
        self.open_question = False      # the statement no longer determines the outcome (see `left`)
        self.rc_members = set()
        self.arrivals = 0
        self.handles = []               # connection number each connect() call returned
        self.got = {}                   # o -> expected notifications
        self.src = []                   # expected source events of the current operation
        if self.mode == "auto" and self.n_auto == 0:
            self.connect()

    # -- the subject ---------------------------------------------------
    def give(self, o, notes):
        self.got.setdefault(o, []).extend(notes)

    def feed(self, n):
        if self.status != "live":
            return
        if n[0] == "N":
            self.value, self.has_value = n[1], True
            self.buf.append((self.clock, n[1]))
            if self.kind != "async":
                for o in list(self.subs):
                    self.give(o, [n])
            return
        self.status = ("term", n)
        last = [("N", self.value)] if (self.kind == "async" and n[0] == "C" and self.has_value) else []
        leaving, self.subs = self.subs, []
        for o in leaving:
            self.give(o, last + [n])
        for o in leaving:
            self.left(o)

    def greeting(self):
        if self.status == "live":
            if self.kind == "behavior":
                return [("N", self.value)]
            if self.kind == "replay":
                return retained(self.buf, self.cfg["subject"][1], self.cfg["subject"][2], self.clock)
            return []
        t = self.status[1]
        if self.kind == "replay":
            return retained(self.buf, self.cfg["subject"][1], self.cfg["subject"][2], self.clock) + [t]
        if self.kind == "async" and t[0] == "C" and self.has_value:
            return [("N", self.value), t]
        return [t]

    # -- the connection ------------------------------------------------
    def connect(self):
        if self.connected:
            return
        self.connected, self.src_open = True, True
        self.conn_id = self.next_cid
        self.next_cid += 1
        if self.rc_claim:                       # made by ref_count's 0 -> 1 connect()
            self.rc_conn, self.rc_claim = self.conn_id, False
        self.src.append(("ssub", self.conn_id))
        for n in self.cold:
            self.from_source(n)

    def from_source(self, n):
        if not self.src_open:
            return
        self.feed(n)
        if n[0] != "N" and self.src_open:
            self.src_open = False
            self.src.append(("sunsub", self.conn_id))

    def disconnect(self):
        if not self.connected:
            return
        self.connected = False
        if self.src_open:
            self.src_open = False
            self.src.append(("sunsub", self.conn_id))

    def left(self, o):
        """o stops being a subscriber of the ref-counted observable"""
        if self.mode in ("refcount", "share") and o in self.rc_members:
            self.rc_members.discard(o)
            self.count -= 1
            if self.count == 0:
                if self.connected and self.rc_conn != self.conn_id:
                    # manual connect() / dispose next to ref_count replaced the connection ref_count made:
                    # the count is back to 0 but the live connection is the caller's own.  The statement
                    # does not say whose it is to end (the code leaves it alone): accept either, stop here
                    self.open_question = True
                    return
                self.disconnect()

    # -- the history ----------------------------------------------------
    def op(self, op):
        self.src = []
        k = op[0]
        if k == "sub":
            o = op[1]
            if o in self.used:
                return
            self.used.add(o)
            first = False
            if self.mode in ("refcount", "share"):
                self.count += 1
                self.rc_members.add(o)
                first = self.count == 1
            elif self.mode == "auto":
                self.arrivals += 1
                first = self.arrivals == self.n_auto
            self.give(o, self.greeting())
            if self.status == "live":
                self.subs.append(o)
            if first:
                self.rc_claim = self.mode in ("refcount", "share")
                self.connect()
                if self.rc_claim:               # connect() found a connection in place: ref_count holds that one
                    self.rc_conn, self.rc_claim = self.conn_id, False
            if o not in self.subs:
                self.left(o)
        elif k == "unsub":
            o = op[1]
            if o in self.subs:
                self.subs.remove(o)
            if o in self.used:
                self.left(o)
        elif k == "connect":
            if self.mode != "share":
                self.connect()
                self.handles.append(self.conn_id)
        elif k == "disc":
            if op[1] < len(self.handles) and self.handles[op[1]] == self.conn_id:
                self.disconnect()
        elif k in ("next", "err", "done"):
            self.from_source(subj.note_of(op))
        elif k == "adv":
            if self.kind == "replay" and op[1] >= 0:
                self.clock += op[1]



class Abstain(Exception):
    pass


class TraceExpect:
    """The source-subscription clauses of C24 on ARBITRARY call trees, judged on the implementation's
    own record stream (calls and returns -- nested ones included --, callbacks and their returns,
    source subscribe / unsubscribe events in one total order).  The stream says WHERE the subscribers
    re-entered the operators (which callback fired, which operations it issued); what the source
    must see is computed from the statement alone:

      * the source is subscribed (`ssub`) only when no connection exists, and only inside a call that
        connects: connect() (reachable connectable), the subscribe() that takes the ref_count / share
        subscriber count from 0 to 1, the subscribe() that is the n-th arrival of auto_connect(n)
        (auto_connect(0): when the observable is built) -- `unlicensed-source-subscription`;
      * every such call ends with a connection in place: if none exists when it returns and none was
        made and disposed again by a call nested in it, the obligation passes to the enclosing call;
        when the outermost operation returns without one the edge was missed (`missing-connect`);
      * the source is unsubscribed (`sunsub`) exactly when (a) the handle of the CURRENT connection is
        disposed by ('disc', j), (b) the ref_count / share count returns to 0 -- a subscriber leaves by
        disposing its handle, or at the end of the callback that gave it the terminal notification,
        or, if that happened inside its own subscribe(), when that call ends --, and then it is the
        very next event; (c) the source itself ended (cold prefix with a terminal, err / done through
        the live connection): before the delivering call returns.  Anything else is
        `unlicensed-source-unsubscription`; an expected one that does not come is `missing-disconnect`
        / `subscription-outlives-source`.

    Where the statement does not determine the outcome the oracle ABSTAINS (stops judging the case):
    an operation raised; a handle returned by a connect() nested in the set-up of the connection
    (the code returns the previous handle or None there) is disposed or is the one ref_count holds.
    The count is the number of subscribe() calls entered minus the subscribers that left; it is not
    told when within subscribe() the code increments it, so an ssub is accepted in ANY open connecting
    call, not only the innermost."""

    def __init__(self, cfg):
        self.mode = cfg["mode"][0]
        self.n_auto = (1 if cfg["mode"][1] is None else cfg["mode"][1]) if self.mode == "auto" else None
        self.reach = self.mode not in ("share", "mapper")
        self.cold_term = any(n[0] != "N" for n in cfg.get("cold", []))
        self.connected, self.src_open, self.conn_id, self.next_cid = False, False, -1, 0
        self.establishing = 0
        self.used, self.returned, self.members = set(), set(), set()
        self.count = self.arrivals = 0
        self.pending_leave = set()
        self.rc_handle = None
        self.chandles = []
        self.frames = []
        self.cbs = []
        self.expect_now = None
        self.stats = {"nested_calls": 0, "nested_in_subscribe": 0, "nested_in_source_emission": 0,
                      "nested_in_connect": 0, "nested_at_drain": 0, "ssub_in_nested_call": 0,
                      "sunsub_in_nested_call": 0, "deferred_leave": 0}
        self.i = -1

    # -- helpers -------------------------------------------------------
    class Bad(Exception):
        def __init__(self, what, **d):
            super().__init__(what)
            self.what, self.d = what, d

    def frame(self, op, trigger=False):
        return {"op": op, "trigger": trigger, "rc": False, "manual": False, "done": False, "made": None,
                "must_close": [], "disc_inside": False, "sub_o": None, "settled": False}

    def disconnect(self):
        self.connected = False
        for f in self.frames:
            f["disc_inside"] = True
        if self.src_open:
            self.expect_now = ("sunsub", self.conn_id)

    def leave(self, o):
        if self.mode in ("refcount", "share") and o in self.members:
            self.members.discard(o)
            self.count -= 1
            if self.count == 0:
                if self.rc_handle == "unknown":
                    raise Abstain("ref_count disposes a handle that a connect() nested in a connection set-up returned")
                if self.rc_handle is not None and self.rc_handle == self.conn_id and self.connected:
                    self.disconnect()

    def settle(self, f):
        """the connecting part of a call is over: edge obligation, and which handle it holds"""
        if f["settled"] or not f["trigger"]:
            return
        f["settled"] = True
        handle = "unknown"
        if f["done"]:
            handle = f["made"]
        elif self.connected:
            if self.establishing == 0:
                handle = self.conn_id
        elif not f["disc_inside"]:
            outer = [g for g in self.frames if g is not f]
            if not outer:
                raise self.Bad("missing-connect", during=f["op"], count=self.count, arrivals=self.arrivals)
            # a nested call: the statement does not say at which point of the enclosing operation the edge
            # is taken -- the obligation passes to the enclosing call (never happens with the code as it is)
            outer[-1]["trigger"] = True
            self.stats["obligation_passed_outwards"] = self.stats.get("obligation_passed_outwards", 0) + 1
        if f["rc"]:
            self.rc_handle = handle
        if f["manual"]:
            self.chandles.append(handle)

    def close(self, f):
        o = f["sub_o"]
        self.settle(f)
        if o is not None:
            if o in self.pending_leave:
                self.pending_leave.discard(o)
                self.leave(o)
                if self.expect_now is not None:
                    raise self.Bad("missing-disconnect", during=f["op"], expected=self.expect_now)
            self.returned.add(o)
        if f["done"]:
            self.establishing -= 1
        for c in f["must_close"]:
            if self.src_open and self.conn_id == c:
                raise self.Bad("subscription-outlives-source", during=f["op"], cid=c)

    # -- the stream ------------------------------------------------------
    def run(self, rec):
        """-> (None | (what, detail), abstained reason | None)"""
        try:
            self.frames.append(self.frame(("build",), trigger=self.mode == "auto" and self.n_auto == 0))
            build = True
            for self.i, r in enumerate(rec):
                if build and r["t"] == "call":
                    self.close(self.frames.pop())
                    build = False
                self.feed(r)
            if build:
                self.close(self.frames.pop())
            if self.expect_now is not None:
                raise self.Bad("missing-disconnect", expected=self.expect_now)
        except self.Bad as b:
            return (b.what, dict(b.d, record_index=self.i)), None
        except Abstain as a:
            return None, str(a)
        return None, None

    def feed(self, r):
        t = r["t"]
        if self.expect_now is not None:
            if t == "sunsub" and ("sunsub", r["cid"]) == self.expect_now:
                self.expect_now = None
                self.src_open = False
                if len(self.frames) > 1:
                    self.stats["sunsub_in_nested_call"] += 1
                return
            raise self.Bad("missing-disconnect", expected=self.expect_now, got=(t, r.get("cid")))
        if t == "call":
            self.call(r)
        elif t == "ret":
            f = self.frames.pop()
            if r["raised"] is not None:
                raise Abstain("an operation raised")
            self.close(f)
        elif t == "got":
            self.cbs.append((r["o"], r["n"][0] != "N"))
        elif t == "cbend":
            o, terminal = self.cbs.pop()
            if terminal and o in self.members:
                if o in self.returned:
                    self.leave(o)
                else:
                    self.pending_leave.add(o)
                    self.stats["deferred_leave"] += 1
        elif t == "ssub":
            self.ssub(r["cid"])
        elif t == "sunsub":
            self.sunsub(r["cid"])

    def call(self, r):
        op = r["op"]
        k = op[0]
        f = self.frame(op)
        if self.cbs:
            self.stats["nested_calls"] += 1
            outer = self.frames[0]["op"][0] if self.frames else None
            key = {"sub": "nested_in_subscribe", "connect": "nested_in_connect", "next": "nested_in_source_emission",
                   "err": "nested_in_source_emission", "done": "nested_in_source_emission",
                   None: "nested_at_drain"}.get(outer)
            if key:
                self.stats[key] += 1
        if k == "sub":
            o = op[1]
            if o not in self.used:
                self.used.add(o)
                f["sub_o"] = o
                if self.mode in ("refcount", "share"):
                    self.count += 1
                    self.members.add(o)
                    f["trigger"] = f["rc"] = self.count == 1
                elif self.mode == "auto":
                    self.arrivals += 1
                    f["trigger"] = self.arrivals == self.n_auto
        elif k == "unsub":
            if op[1] in self.returned:
                self.frames.append(f)
                self.leave(op[1])
                return
        elif k == "connect":
            if self.reach:
                f["trigger"] = f["manual"] = True
        elif k == "disc":
            if op[1] < len(self.chandles):
                h = self.chandles[op[1]]
                if h == "unknown":
                    raise Abstain("dispose of a handle that a connect() nested in a connection set-up returned")
                if h == self.conn_id and self.connected:
                    self.frames.append(f)
                    self.disconnect()
                    return
        elif k in ("err", "done"):
            c = self.conn_id
            if self.src_open and not any(c in g["must_close"] for g in self.frames):
                # (a terminal already in flight: the source's observer is stopped, this one is dropped)
                maker = [g for g in self.frames if g["made"] == c]
                # inside the cold prefix of connection c the subscription is released when the
                # source's subscribe() returns, i.e. before the call that made c returns
                (maker[0] if maker else f)["must_close"].append(c)
        self.frames.append(f)

    def ssub(self, cid):
        if self.connected:
            raise self.Bad("source-subscribed-while-connected", cid=cid, connection=self.conn_id)
        fs = [f for f in self.frames if f["trigger"] and not f["done"] and not f["settled"]]
        if not fs:
            raise self.Bad("unlicensed-source-subscription", cid=cid,
                           open_calls=[f["op"] for f in self.frames], count=self.count, arrivals=self.arrivals)
        f = fs[-1]
        f["done"], f["made"] = True, cid
        self.connected = self.src_open = True
        self.conn_id = cid
        self.establishing += 1
        if self.cold_term:
            f["must_close"].append(cid)
        if f is not self.frames[0]:
            self.stats["ssub_in_nested_call"] += 1

    def sunsub(self, cid):
        if self.src_open and cid == self.conn_id and any(cid in f["must_close"] for f in self.frames):
            self.src_open = False               # the source ended: its subscription is released
            return
        f = self.frames[-1] if self.frames else None
        if f is not None and f["sub_o"] in self.pending_leave:
            self.settle(f)
            self.pending_leave.discard(f["sub_o"])
            self.leave(f["sub_o"])
            if self.expect_now == ("sunsub", cid):
                self.expect_now = None
                self.src_open = False
                return
        raise self.Bad("unlicensed-source-unsubscription", cid=cid, connected=self.connected,
                       connection=self.conn_id, count=self.count,
                       open_calls=[g["op"] for g in self.frames])


class MapperTraceExpect:
    """subject_factory + mapper form on ANY call tree, same technique as TraceExpect: every
    subscribe() of a new subscriber is its own multicast invocation, so it subscribes the source
    exactly once, inside that call (`mapper-missing-source-subscription` /
    `unlicensed-source-subscription`), whatever the mapper does with the connectable; that
    subscription is released exactly when its subscriber leaves (disposes its handle; at the end of
    the callback that gave it the terminal notification, or at the end of its subscribe() if that
    happened inside it) -- the very next event -- or when the source ended (before the delivering
    call returns)."""
    Bad = TraceExpect.Bad

    def __init__(self, cfg):
        self.cold_term = any(n[0] != "N" for n in cfg.get("cold", []))
        self.used, self.returned, self.left, self.pending_leave = set(), set(), set(), set()
        self.cid_of, self.open = {}, set()
        self.frames, self.cbs = [], []
        self.expect_now = None
        self.stats = {"nested_calls": 0, "ssub_in_nested_call": 0, "sunsub_in_nested_call": 0, "deferred_leave": 0}
        self.i = -1

    def leave(self, o):
        if o in self.left:
            return
        self.left.add(o)
        c = self.cid_of.get(o)
        if c in self.open:
            self.expect_now = ("sunsub", c)

    def close(self, f):
        o = f["sub_o"]
        if o is not None:
            if not f["done"]:
                raise self.Bad("mapper-missing-source-subscription", during=f["op"])
            if o in self.pending_leave:
                self.pending_leave.discard(o)
                self.leave(o)
                if self.expect_now is not None:
                    raise self.Bad("missing-disconnect", during=f["op"], expected=self.expect_now)
            self.returned.add(o)
        for c in f["must_close"]:
            if c in self.open:
                raise self.Bad("subscription-outlives-source", during=f["op"], cid=c)

    def run(self, rec):
        try:
            for self.i, r in enumerate(rec):
                self.feed(r)
            if self.expect_now is not None:
                raise self.Bad("missing-disconnect", expected=self.expect_now)
        except self.Bad as b:
            return (b.what, dict(b.d, record_index=self.i)), None
        except Abstain as a:
            return None, str(a)
        return None, None

    def feed(self, r):
        t = r["t"]
        if self.expect_now is not None:
            if t == "sunsub" and ("sunsub", r["cid"]) == self.expect_now:
                self.expect_now = None
                self.open.discard(r["cid"])
                if len(self.frames) > 1:
                    self.stats["sunsub_in_nested_call"] += 1
                return
            raise self.Bad("missing-disconnect", expected=self.expect_now, got=(t, r.get("cid")))
        if t == "call":
            op = r["op"]
            f = {"op": op, "sub_o": None, "done": False, "made": None, "must_close": []}
            if self.cbs:
                self.stats["nested_calls"] += 1
            if op[0] == "sub" and op[1] not in self.used:
                self.used.add(op[1])
                f["sub_o"] = op[1]
            elif op[0] in ("err", "done"):
                for c in sorted(self.open):
                    if not any(c in g["must_close"] for g in self.frames):
                        maker = [g for g in self.frames if g["made"] == c]
                        (maker[0] if maker else f)["must_close"].append(c)
            self.frames.append(f)
            if op[0] == "unsub" and op[1] in self.returned:
                self.leave(op[1])
        elif t == "ret":
            f = self.frames.pop()
            if r["raised"] is not None:
                raise Abstain("an operation raised")
            self.close(f)
        elif t == "got":
            self.cbs.append((r["o"], r["n"][0] != "N"))
        elif t == "cbend":
            o, terminal = self.cbs.pop()
            if terminal and o not in self.left:
                if o in self.returned:
                    self.leave(o)
                else:
                    self.pending_leave.add(o)
                    self.stats["deferred_leave"] += 1
        elif t == "ssub":
            fs = [f for f in self.frames if f["sub_o"] is not None and not f["done"]]
            if not fs:
                raise self.Bad("unlicensed-source-subscription", cid=r["cid"], open_calls=[f["op"] for f in self.frames])
            f = fs[-1]
            f["done"], f["made"] = True, r["cid"]
            self.cid_of[f["sub_o"]] = r["cid"]
            self.open.add(r["cid"])
            if self.cold_term:
                f["must_close"].append(r["cid"])
            if f is not self.frames[0]:
                self.stats["ssub_in_nested_call"] += 1
        elif t == "sunsub":
            c = r["cid"]
            if c in self.open and any(c in f["must_close"] for f in self.frames):
                self.open.discard(c)
                return
            f = self.frames[-1] if self.frames else None
            if f is not None and f["sub_o"] in self.pending_leave and f["done"]:
                self.pending_leave.discard(f["sub_o"])
                self.leave(f["sub_o"])
                if self.expect_now == ("sunsub", c):
                    self.expect_now = None
                    self.open.discard(c)
                    return
            raise self.Bad("unlicensed-source-unsubscription", cid=c, open=sorted(self.open),
                           open_calls=[g["op"] for g in self.frames])


TRACE_STATS = {}


def oracle(cfg, hist, rec):
    """-> list of (signature, detail)"""
    top, scripts = hist
    bad = []
    mode = cfg["mode"][0]
    flat = not scripts

    def fail(what, **d):
        bad.append((f"{what}|{mode}|{cfg['subject'][0]}|flat={int(flat)}", dict(d, what=what)))

    if rec and rec[0]["t"] == "build-raised":
        fail("build-raised", raised=rec[0]["raised"])
        return bad
    # 1. at most one source subscription at any time; unsubscribe matches the open one
    #    (subject_factory + mapper: one per subscriber, each disposed at most once)
    open_cid, last = None, -1
    if mode == "mapper":
        seen, closed = set(), set()
        for r in rec:
            if r["t"] == "ssub":
                if r["cid"] != len(seen):
                    fail("source-subscription-numbering", cid=r["cid"])
                seen.add(r["cid"])
            elif r["t"] == "sunsub":
                if r["cid"] not in seen or r["cid"] in closed:
                    fail("source-unsubscribed-without-subscription", cid=r["cid"])
                closed.add(r["cid"])
    for r in ([] if mode == "mapper" else rec):
        if r["t"] == "ssub":
            if open_cid is not None:
                fail("source-subscribed-twice", open=open_cid, again=r["cid"])
            if r["cid"] != last + 1:
                fail("source-subscription-numbering", cid=r["cid"])
            open_cid, last = r["cid"], r["cid"]
        elif r["t"] == "sunsub":
            if open_cid != r["cid"]:
                fail("source-unsubscribed-without-subscription", open=open_cid, cid=r["cid"])
            open_cid = None
    # 2. who may subscribe the source: connect() (plain), subscribe() (ref_count, share, auto_connect)
    stack = []
    calls = {}
    for r in rec:
        if r["t"] == "call":
            calls[r["id"]] = r
            stack.append(r["id"])
        elif r["t"] == "ret":
            stack.pop()
        elif r["t"] == "ssub":
            inner = calls[stack[-1]]["op"][0] if stack else None
            manual = any(c["op"][0] == "connect" for c in calls.values())
            if mode == "mapper":
                allowed = ("sub",)
            elif mode == "plain":
                allowed = ("connect",)
            elif mode == "auto" and cfg["mode"][1] == 0 and inner is None:   # (auto_connect() default: None != 0)
                continue
            else:
                allowed = ("sub", "connect") if manual else ("sub",)
            if inner not in allowed:
                fail("source-subscribed-outside-connect", during=inner)
    # 3. per-subscriber grammar
    views = {}
    for r in rec:
        if r["t"] == "got":
            views.setdefault(r["o"], []).append(r["n"])
    for o, v in views.items():
        if not subj.wellformed(v):
            fail("grammar", observer=o, received=v)
    for r in rec:
        if r["t"] == "ret" and r["raised"] is not None and flat:
            fail("call-raised", raised=r["raised"])
    # 3b. the source-subscription clauses on ANY tree, judged on the record stream (TraceExpect)
    if True:
        te = MapperTraceExpect(cfg) if mode == "mapper" else TraceExpect(cfg)
        verdict, abstained = te.run(rec)
        st = TRACE_STATS.setdefault(("mapper-" if mode == "mapper" else "") + ("flat" if flat else "tree"), {})
        for k, v in dict(te.stats, judged=int(abstained is None), abstained=int(abstained is not None)).items():
            st[k] = st.get(k, 0) + v
        if abstained is not None:
            st.setdefault("abstained_why", {})
            st["abstained_why"][abstained] = st["abstained_why"].get(abstained, 0) + 1
        if verdict is not None:
            cat = {"auto": "auto-connect-instant", "refcount": "ref-count-edges", "share": "ref-count-edges",
                   "mapper": "mapper-source-events"}.get(mode, "source-events")
            fail(f"trace:{cat}:{verdict[0]}", **verdict[1])
    if not flat:
        return bad
    # 4. histories of top-level calls: the exact expectation
    if mode == "mapper":
        if cfg["mode"][1] == "merge2" and cfg.get("cold"):
            # merge subscribes its inner sources through the trampoline, after connect(): what of the cold
            # prefix the subscriber sees is the mapper's business; source events judged by MapperTraceExpect
            return bad
        return bad + oracle_mapper(cfg, top, rec, fail)
    ex = Expect(cfg)
    ops = split_ops(rec)
    pre = [(r["t"], r["cid"]) for r in ops[0][1] if r["t"] in ("ssub", "sunsub")]
    if pre != ex.src:
        fail("source-events-at-build", got=pre, expected=ex.src)
    for i, (op, rs) in enumerate(ops[1:]):
        ex.op(op)
        if ex.open_question:
            st = TRACE_STATS.setdefault("flat", {})
            st["flat_expectation_stopped_at_an_open_question"] = st.get("flat_expectation_stopped_at_an_open_question", 0) + 1
            break
        got = [(r["t"], r["cid"]) for r in rs if r["t"] in ("ssub", "sunsub")]
        if got != ex.src:
            what = "source-events"
            if mode == "auto":
                what = "auto-connect-instant"
            elif mode in ("refcount", "share"):
                what = "ref-count-edges"
            fail(what, index=i, op=op, got=got, expected=ex.src)
            break
    else:
        for o in sorted(set(views) | set(ex.got)):
            if views.get(o, []) != ex.got.get(o, []):
                fail("subscriber-sequence", observer=o, received=views.get(o, []), expected=ex.got.get(o, []))
    return bad


def oracle_mapper(cfg, top, rec, fail):
    """multicast(subject_factory, mapper): every subscription is its own multicast invocation:
    its own subject, ONE source subscription made by that subscribe() call (however often the
    mapper uses the connectable), disposed when the subscriber leaves or the source ends."""
    bad_before = 0
    kind, which = cfg["subject"][0], cfg["mode"][1]
    dup = 2 if which == "merge2" else 1
    ops = split_ops(rec)
    owner, opened = {}, {}          # cid -> o ; o -> cid
    used, active = set(), []
    expect = {}
    last = {}
    ncid = 0
    for i, (op, rs) in enumerate(ops[1:]):
        src = [(r["t"], r["cid"]) for r in rs if r["t"] in ("ssub", "sunsub")]
        want = []
        k = op[0]
        if k == "sub" and op[1] not in used:
            o = op[1]
            used.add(o)
            active.append(o)
            opened[o] = ncid
            want.append(("ssub", ncid))
            ncid += 1
            expect[o] = [("N", cfg["subject"][1])] * dup if kind == "behavior" else []
            last[o] = None
            alive = True
            for n in cfg.get("cold", []):
                if alive:
                    alive = mapper_feed(kind, dup, expect, last, o, n)
            if not alive:
                active.remove(o)
                want.append(("sunsub", opened[o]))
        elif k == "unsub" and op[1] in active:
            active.remove(op[1])
            want.append(("sunsub", opened[op[1]]))
        elif k in ("next", "err", "done"):
            n = subj.note_of(op)
            for o in list(active):
                if not mapper_feed(kind, dup, expect, last, o, n):
                    active.remove(o)
                    want.append(("sunsub", opened[o]))
        if sorted(src) != sorted(want):
            fail("mapper-source-events", index=i, op=op, got=src, expected=want)
            return []
    views = {}
    for r in rec:
        if r["t"] == "got":
            views.setdefault(r["o"], []).append(r["n"])
    for o in sorted(set(views) | set(expect)):
        if views.get(o, []) != expect.get(o, []):
            fail("mapper-subscriber-sequence", observer=o, received=views.get(o, []), expected=expect.get(o, []))
    return []


def mapper_feed(kind, dup, expect, last, o, n):
    """-> still alive"""
    if n[0] == "N":
        if kind == "async":
            last[o] = n
        else:
            expect[o].extend([n] * dup)
        return True
    if kind == "async" and n[0] == "C" and last[o] is not None:
        expect[o].extend([last[o]] * dup)
    expect[o].append(n)
    return False


# --------------------------------------------------------------------------
# the check
# --------------------------------------------------------------------------

def cfg_json(cfg):
    return {"subject": list(cfg["subject"]), "via": cfg["via"], "mode": list(cfg["mode"]),
            "cold": [list(n) for n in cfg.get("cold", [])], "sched": bool(cfg.get("sched"))}


def cfg_from_json(d):
    return {"subject": tuple(d["subject"]), "via": d["via"], "mode": tuple(d["mode"]),
            "cold": [tuple(n) for n in d.get("cold", [])], "sched": bool(d.get("sched"))}


def small_configs(tier):
    S, B, R = ("subject",), ("behavior", 0), ("replay", 1, None)
    out = [dict(subject=S, via="publish", mode=m, cold=[]) for m in
           [("plain",), ("refcount",), ("share",), ("auto", 0), ("auto", 1), ("auto", 2), ("auto", 3)]]
    out += [dict(subject=B, via="publish_value", mode=m, cold=[]) for m in [("plain",), ("refcount",), ("auto", 2)]]
    out += [dict(subject=R, via="replay", mode=m, cold=[]) for m in [("plain",), ("refcount",), ("auto", 1)]]
    out += [dict(subject=("async",), via="multicast", mode=("refcount",), cold=[]),
            dict(subject=S, via="multicast", mode=("refcount",), cold=[("N", 2), ("C",)]),
            dict(subject=S, via="publish", mode=("plain",), cold=[("N", 0)]),
            dict(subject=S, via="publish", mode=("auto", None), cold=[])]      # auto_connect() default argument
    if tier != "quick":
        out += [dict(subject=("replay", 2, 1), via="replay", mode=("refcount",), cold=[("N", 2)]),
                dict(subject=B, via="multicast", mode=("auto", 1), cold=[("N", 0), ("E", 11)]),
                dict(subject=("async",), via="multicast", mode=("plain",), cold=[])]
    return out


def gen_cases(tier, rng):
    a, b = 0, 2                     # pool ids of None and False
    cases = []
    scope = {}
    L = 3 if tier == "quick" else 4
    for cfg in small_configs(tier):
        m = cfg["mode"][0]
        if m == "plain":
            alpha = [("sub", 0), ("sub", 1), ("unsub", 0), ("connect",), ("disc", 0), ("disc", 1), ("next", a), ("done",)]
        elif m == "auto":
            alpha = [("sub", 0), ("sub", 1), ("sub", 2), ("unsub", 0), ("unsub", 1), ("next", a), ("done",)]
        else:
            alpha = [("sub", 0), ("sub", 1), ("unsub", 0), ("unsub", 1), ("next", a), ("next", b), ("done",), ("err", 11)]
        ll = L + 1 if (m == "auto" and cfg["mode"][1] in (2, 3) and cfg["via"] == "publish") else L
        for h in subj.enum_flat(alpha, ll):
            cases.append((cfg, h))
    scope["exhaustive_flat"] = len(cases)
    # the same configurations with a subscribe-time scheduler given to every subscribe() / connect()
    for cfg in small_configs(tier):
        m = cfg["mode"][0]
        alpha = ([("sub", 0), ("sub", 1), ("unsub", 0), ("connect",), ("disc", 0), ("next", a), ("done",)]
                 if m == "plain" else [("sub", 0), ("sub", 1), ("sub", 2), ("unsub", 0), ("unsub", 1), ("next", a),
                                       ("done",)])
        for h in subj.enum_flat(alpha, 2 if tier == "quick" else 3):
            cases.append((dict(cfg, sched=True), h))
    scope["flat_with_scheduler"] = len(cases) - scope["exhaustive_flat"]
    n_before = len(cases)
    # re-entrant: observer 0 (or 1) reacts inside its first callback
    reactions = [("unsub", 0), ("unsub", 1), ("sub", 2), ("connect",), ("disc", 0), ("next", b), ("done",)]
    tail = [("next", a), ("done",), ("unsub", 1), ("sub", 3), ("connect",), ("disc", 0)]
    for cfg in small_configs("quick")[:13]:
        for h in subj.enum_reentrant([("sub", 0), ("sub", 1)], tail, reactions, 2 if tier == "quick" else 3):
            cases.append((cfg, h))
    scope["exhaustive_reentrant"] = len(cases) - n_before
    # re-entrant, targeted at the edges: the reaction comes from the GREETING callback (publish_value: inside
    # subscribe(), before ref_count / auto_connect connect) or from a COLD-PREFIX callback (inside connect()),
    # of the first (count 0 -> 1) or the second subscriber; a second reaction from a source-emission callback
    n_before = len(cases)
    S, B = ("subject",), ("behavior", 0)
    tcfgs = [dict(subject=B, via="publish_value", mode=m, cold=[]) for m in [("plain",), ("refcount",), ("auto", 1)]]
    tcfgs += [dict(subject=S, via="publish", mode=m, cold=[("N", 0)]) for m in [("plain",), ("refcount",), ("auto", 2)]]
    tcfgs += [dict(subject=S, via="publish", mode=("refcount",), cold=[("N", 0), ("C",)])]
    if tier != "quick":
        tcfgs += [dict(subject=B, via="publish_value", mode=("auto", 2), cold=[]),
                  dict(subject=("replay", 1, None), via="replay", mode=("refcount",), cold=[("N", 0)])]
    r1s = [("sub", 2), ("unsub", 1), ("connect",), ("disc", 0), ("done",), ("next", b)]
    r2s = [None, "unsub-self"] + ([("sub", 3), ("connect",)] if tier != "quick" else [])
    tails = [[], [("next", a)], [("done",)], [("unsub", 0)]] + ([[("next", a), ("unsub", 1)], [("connect",)]]
                                                                 if tier != "quick" else [])
    for cfg in tcfgs:
        prefix = [("sub", 0), ("sub", 1)] + ([("connect",)] if cfg["mode"][0] == "plain" else [])
        for tail in tails:
            for who in (0, 1):
                for r1 in r1s:
                    for r2 in r2s:
                        second = [] if r2 is None else [("unsub", who)] if r2 == "unsub-self" else [r2]
                        cases.append((cfg, (prefix + tail, {who: [[r1], second]})))
    scope["targeted_reentrant"] = len(cases) - n_before
    nrand = 1500 if tier == "quick" else 25000
    for _ in range(nrand):
        cfg = gen_config(rng)
        cases.append((cfg, gen_history(rng, cfg)))
    scope["random"] = nrand
    nmap = 400 if tier == "quick" else 5000
    for _ in range(nmap):
        cfg = gen_config(rng, mapper=True)
        tree = rng.random() < 0.3       # re-entrant: source events by MapperTraceExpect only
        if cfg["mode"][1] == "merge2" and not (tree or rng.random() < 0.2):
            cfg["cold"] = []          # merge subscribes its inner sources through the trampoline (after connect)
        cases.append((cfg, gen_history(rng, cfg, flat=not tree)))
    scope["random_mapper_form"] = nmap
    scope["flat_len"] = L
    return cases, scope


def nontrivial(rec):
    return (sum(1 for r in rec if r["t"] == "ssub") >= 1 and sum(1 for r in rec if r["t"] == "got") >= 2)


def run_check(chk):
    pid = "C24"
    proved = chk.build_and_prove()
    tier = chk.tier if proved and not chk.broken else "thorough"
    if tier != chk.tier:
        chk.cov["search"] = "theorem file or build broke: case set enlarged to the thorough scope"
    cases, scope = gen_cases(tier, chk.rng)
    mgal, midx, nsig = [], [], {}
    gal, idx, H, nt = [], [], {"mode": {}, "subject": {}, "reentrant": 0, "cold": 0, "falsy_values": 0,
                               "reconnect": 0, "late_subscriber_after_end": 0, "with_subscribe_time_scheduler": 0,
                               "auto_connect_default_argument": 0, "mapper_form_reentrant": 0,
                               "mapper_merge2_cold": 0}, set()
    TRACE_STATS.clear()
    fwd = {}
    for ci, (cfg, h) in enumerate(cases):
        rec = run_case(cfg, h)
        chk.cov["evaluations"] += 1
        H["mode"][cfg["mode"][0]] = H["mode"].get(cfg["mode"][0], 0) + 1
        H["subject"][cfg["subject"][0]] = H["subject"].get(cfg["subject"][0], 0) + 1
        H["reentrant"] += 1 if h[1] else 0
        H["cold"] += 1 if cfg.get("cold") else 0
        H["auto_connect_default_argument"] += 1 if cfg["mode"] == ("auto", None) else 0
        H["mapper_form_reentrant"] += 1 if cfg["mode"][0] == "mapper" and h[1] else 0
        H["mapper_merge2_cold"] += 1 if cfg["mode"] == ("mapper", "merge2") and cfg.get("cold") else 0
        if cfg.get("sched"):
            H["with_subscribe_time_scheduler"] += 1
            md = cfg["mode"]
            key = ("auto_connect(0)" if md == ("auto", 0) else "auto_connect(n>0 or default)" if md[0] == "auto"
                   else f"mapper {md[1]} via {cfg['via']}" if md[0] == "mapper" else md[0])
            row = fwd.setdefault(key, {"source_subscribed_with": {}, "subject_factory_called_with": {}})
            for r in rec:
                if r["t"] == "ssub":
                    row["source_subscribed_with"][r["sched"]] = row["source_subscribed_with"].get(r["sched"], 0) + 1
                elif r["t"] == "meta":
                    for tag in r["factory_args"]:
                        row["subject_factory_called_with"][tag] = row["subject_factory_called_with"].get(tag, 0) + 1
        H["falsy_values"] += 1 if any(r["t"] == "got" and r["n"][0] == "N" and r["n"][1] < 6 for r in rec) else 0
        H["reconnect"] += 1 if sum(1 for r in rec if r["t"] == "ssub") >= 2 else 0
        ops_by_id = {r["id"]: r["op"] for r in rec if r["t"] == "call"}
        H["late_subscriber_after_end"] += 1 if any(
            r["t"] == "got" and r["n"][0] != "N" and r["call"] is not None and ops_by_id[r["call"]][0] == "sub"
            for r in rec) else 0
        if nontrivial(rec):
            nt.add(repr((cfg_json(cfg), subj.hist_key(h))))
        for sig, detail in oracle(cfg, h, rec):
            nsig[sig] = nsig.get(sig, 0) + 1
            if nsig[sig] > 3:               # a defect hits thousands of cases: shrink the first few only
                continue

            def still(hh, _sig=sig):
                return any(s == _sig for s, _ in oracle(cfg, hh, run_case(cfg, hh)))
            hm = subj.shrink(h, still)
            r2 = run_case(cfg, hm)
            d2 = [d for s, d in oracle(cfg, hm, r2) if s == sig][0]
            chk.violation(sig, {"config": cfg_json(cfg), "history": subj.hist_json(hm),
                                "pool": [repr(v) for v in POOL.values], "implementation_log": g_xlog(r2),
                                "oracle": d2, "expected": "see harness/conn.py: Expect / oracle docstrings"},
                          size=subj.hist_size(hm))
        if cfg["mode"][0] != "mapper":
            gal.append((f"({g_config(cfg)}, {g_hist(h)})", f"({g_xlog(rec)}, true)"))
            idx.append(ci)
        elif cfg["mode"][1] == "id" and not h[1] and cfg["subject"][0] != "replay":
            # (ReplaySubject instances share ONE scheduler, drained once per operation, which the
            #  per-instance model does not reproduce; besides,
            #  replay(mapper=..) hands the SUBSCRIBE-time scheduler to its ReplaySubject -- the factory's
            #  parameter shadows the operator's `scheduler` -- so deliveries go through the default
            #  CurrentThreadScheduler, which the replay engine does not model: oracle only)
            mgal.append((g_mapper_case(cfg, h), f"({g_xlog(rec)}, true)"))
            midx.append(ci)
    bad, logs = subj.correspond(pid, "k1", IMPORTS, CASE_TY, gal, PRELUDE)
    mbad, mlogs = subj.correspond(pid, "k1m", IMPORTS, MAPPER_CASE_TY, mgal, MAPPER_PRELUDE)
    if mbad:
        firsts = [i for i in mbad if i >= 0][:3]
        detail = {"n_disagreements": len(mbad), "logs": mlogs[:1],
                  "first (flavour, cold prefix, history) / implementation log": [mgal[i] for i in firsts]}
        if firsts:
            detail["model_says"] = lib.coq_show(pid, IMPORTS, f"model {mgal[firsts[0]][0]}", MAPPER_PRELUDE)
            detail["config"] = cfg_json(cases[midx[firsts[0]]][0])
            detail["history"] = subj.hist_json(cases[midx[firsts[0]]][1])
        chk.tie_broken("correspondence K1/K2: Subjects/Connectable.v run_mapper vs multicast(subject_factory, mapper) "
                       "/ publish(mapper) / publish_value(v, mapper) / replay(mapper=...)", detail)
    chk.cov["traces_validated_against_impl"] = len(gal) + len(mgal)
    chk.cov["disagreements_checked"] = len(gal) + len(mgal)
    if bad:
        firsts = [i for i in bad if i >= 0][:3]
        detail = {"n_disagreements": len(bad), "logs": logs[:1],
                  "first (config, history) / implementation log": [gal[i] for i in firsts]}
        if firsts:
            detail["model_says"] = lib.coq_show(pid, IMPORTS, f"model {gal[firsts[0]][0]}", PRELUDE)
            detail["config"] = cfg_json(cases[idx[firsts[0]]][0])
            detail["history"] = subj.hist_json(cases[idx[firsts[0]]][1])
        chk.tie_broken("correspondence K1/K2: Subjects/Connectable.v vs ConnectableObservable / ref_count / "
                       "auto_connect / publish / publish_value / replay / multicast", detail)
    chk.cov["distinct_nontrivial"] = len(nt)
    chk.cov["trace_oracle"] = {k: dict(v) for k, v in TRACE_STATS.items()}
    chk.cov["scheduler_forwarding"] = dict(
        fwd, note="MEASURED only: the statement of C24 does not mention the subscribe-time scheduler.  "
                  "'given' = the scheduler handed to the subscribe() / connect() call of the history; with the "
                  "code as it is the source always gets it (auto_connect(0) connects at build time: 'none'), "
                  "auto_connect drops it only towards the SUBJECT (source.subscribe(observer)), which ignores it")
    chk.cov["exhaustive"] = True
    chk.cov["rule"] = (f"exhaustive: all histories of top-level calls of length <= {scope['flat_len']} "
                       "(auto_connect(2)/(3) on publish: +1) over 7-8 operations (2-3 subscribers, connect, dispose of the 1st/2nd "
                       "connection handle, values None/False, completion, error) for 16 configurations (publish x "
                       "plain/ref_count/share/auto_connect(0..3); publish_value and replay(1) x plain/ref_count/"
                       "auto_connect; AsyncSubject; cold prefixes); exhaustive one-reaction re-entrant trees "
                       "(sub0 sub1 ++ tails, subscriber 0/1 reacting in its first callback); seeded random trees "
                       "over random configurations (all subject kinds, replay buffer 0-3 / window 0-5 ticks with "
                       "clock advances, cold prefixes with/without terminal, manual connect next to ref_count); "
                       "random histories for the subject_factory + mapper form (identity mapper on synchronous subjects: model tie; otherwise oracle only; "
                       "30% of them re-entrant trees, merge2 also over cold sources: source events by MapperTraceExpect).  "
                       "Added: every small configuration again with a subscribe-time scheduler given to every "
                       "subscribe() / connect() (flat, length <= 2; 40% of the random cases too): same log required, "
                       "which scheduler reaches the source / the subject factory is measured (`scheduler_forwarding`); "
                       "auto_connect() with its default argument (exhaustive flat + random); targeted re-entrant trees "
                       "(reaction from the greeting callback inside subscribe() before the connect, or from a cold-prefix "
                       "callback inside connect(), of the first or second subscriber, plus a reaction from a "
                       "source-emission callback); on EVERY case, flat or tree, the trace oracle TraceExpect judges each "
                       "source subscribe / unsubscribe event of the record stream (licensed by a connecting call / a "
                       "disconnecting edge, obligations met before the call returns; `trace_oracle` counts judged / "
                       "abstained cases and where the nested calls came from).  non-trivial = "
                       "distinct (configuration, history) with at least one source subscription and two deliveries")
    chk.cov["input_distribution"] = dict(H, **{k: v for k, v in scope.items() if isinstance(v, int)})
    step = max(1, len(cases) // 5)
    chk.add_samples([{"config": cfg_json(c), "history": subj.hist_json(h)} for (c, h) in cases[step - 1::step]])
    return chk.finish(
        trusted_extra=["K1/K2 driver harness/conn.py (hand-driven source logging its subscribe/unsubscribe instants, "
                       "logging subscribers, try/except around every call); replay flavours on a real "
                       "VirtualTimeScheduler drained after every top-level call",
                       "the subject engines Subjects/Subject.v and Subjects/Replay.v (C20-C23) are reused, stepped one "
                       "instruction at a time; the AutoDetachObserver wrappers of all layers are collapsed into the "
                       "engine's wrapper, covered by the same correspondence"],
        assumptions=["single thread; subscriber callbacks do not raise",
                     "re-entrant trees: the exact expectation is for the SOURCE events (TraceExpect, on the "
                     "implementation's own callback structure); what each subscriber receives on a tree is compared "
                     "with the model only.  The trace oracle abstains when a handle returned by a connect() nested in "
                     "a connection set-up is used (the statement does not say what that call returns)",
                     "the subscribe-time scheduler is outside the statement: its forwarding is measured, not judged",
                     "the source is passive: it emits only when the history says so (plus a cold prefix inside "
                     "subscribe()) and never refuses a subscription",
                     "ref_count / auto_connect edge theorems and the per-subscriber view theorem are for histories of "
                     "top-level calls (no call-backs into the operators from inside a notification) without manual "
                     "connect() next to ref_count / auto_connect; the connection theorems (one source subscription at "
                     "a time, none while disconnected) hold for arbitrary call trees",
                     "subject_factory + mapper form: modelled (Subjects/Connectable.v run_mapper: one plain connectable per "
                     "subscriber) and tied for the identity mapper with Subject / BehaviorSubject / AsyncSubject factories on "
                     "histories of top-level calls; ReplaySubject factories and a mapper using the connectable twice are "
                     "checked by the oracle on the implementation only",
                     "fewer than 100 scheduler actions per drain (replay flavours)"])


def replay_check(chk, path):
    import json
    d = json.load(open(path))
    if "history" not in d:
        print(json.dumps(d, indent=1))
        return 1
    cfg, h = cfg_from_json(d["config"]), subj.hist_from_json(d["history"])
    rec = run_case(cfg, h)
    bad = oracle(cfg, h, rec)
    print("config", cfg)
    print("history", h)
    print("implementation log", g_xlog(rec))
    for s, dd in bad:
        print("ORACLE FAILS", s, dd)
    if bad:
        print(f"VIOLATION property=C24 replay={path}")
    return 1 if bad else 0
