"""K1/K2 machinery of C24: ConnectableObservable, ref_count / share, auto_connect, publish,
publish_value, replay, multicast (subject form and subject_factory + mapper form), mounted on a
hand-driven source that records its own subscribe / unsubscribe instants.

A history is a TREE of calls (as in harness/subj.py):
    top     : [op]                     operations issued by the driver
    scripts : {o: [[op], ...]}         what subscriber o does from inside its k-th callback
    op      : ('sub', o) | ('unsub', o)            subscriber o subscribes to / disposes its handle of
                                                   the multicast observable
              ('connect',) | ('disc', j)           connectable.connect() / dispose the disposable that
                                                   the j-th connect() call returned
              ('next', value_id) | ('err', code) | ('done',)   the SOURCE emits to whoever is subscribed
              ('adv', d)                           the virtual clock moves (replay flavours)
A configuration:
    subject : ('subject',) | ('behavior', v0) | ('async',) | ('replay', buffer_size, window)
    via     : how the connectable is made: 'publish' | 'publish_value' | 'replay' | 'multicast'
    mode    : ('plain',) | ('refcount',) | ('share',) | ('auto', n) | ('mapper', which)
    cold    : notifications the source emits synchronously inside every subscribe() (a cold
              prefix; [] = purely hot)
Driver rules (mirrored by Subjects/Connectable.v): every operation, nested ones included, runs
inside try/except; ('sub', o) with an id used before is skipped; ('unsub', o) without handle is
skipped; ('disc', j) without j-th handle is skipped; ('connect',) is skipped when the connectable
is not reachable (share, mapper); replay flavours run on a VirtualTimeScheduler drained after
every top-level operation.

Log records: call / ret(raised) / got(o, n) / ssub(cid) / sunsub(cid) in one total order; cid numbers
the source's subscriptions in the order they were made."""
from __future__ import annotations

import itertools

import k2
import lib
import subj
from lib import gz, gopt
from subj import POOL, g_note

DISPOSED = k2.LIB_ERRORS["DisposedException"]


# --------------------------------------------------------------------------
# the source
# --------------------------------------------------------------------------

class Source:
    def __init__(self, drv, cold):
        import reactivex
        from reactivex.disposable import Disposable
        self.drv = drv
        self.recs = []                 # [observer, live]

        def subscribe(observer, scheduler=None):
            cid = len(self.recs)
            rec = [observer, True]
            self.recs.append(rec)
            drv.rec.append({"t": "ssub", "cid": cid})
            for n in cold:
                deliver(observer, n)

            def dispose():
                if rec[1]:
                    rec[1] = False
                    drv.rec.append({"t": "sunsub", "cid": cid})
            return Disposable(dispose)
        self.observable = reactivex.Observable(subscribe)

    def push(self, n):
        for rec in list(self.recs):
            if rec[1]:
                deliver(rec[0], n)


def deliver(observer, n):
    if n[0] == "N":
        observer.on_next(POOL.val(n[1]))
    elif n[0] == "E":
        observer.on_error(k2.UserError(n[1]))
    else:
        observer.on_completed()


class LogObserver:
    def __init__(self, drv, o):
        self.drv, self.o = drv, o

    def _cb(self, n):
        d = self.drv
        d.rec.append({"t": "got", "o": self.o, "n": n, "call": d.stack[-1] if d.stack else None})
        k = d.calls[self.o]
        d.calls[self.o] = k + 1
        sc = d.scripts.get(self.o, [])
        if k < len(sc):
            for op in sc[k]:
                d.do(op, in_cb=(self.o, k))

    def on_next(self, v):
        self._cb(("N", POOL.id(v)))

    def on_error(self, e):
        self._cb(("E", k2.err_id(e)))

    def on_completed(self):
        self._cb(("C",))


MAPPERS = {
    "id": lambda c: c,
    # uses the connectable twice: two subscriptions to the subject, ONE to the source
    "merge2": lambda c: __import__("reactivex").merge(c, c),
}


class Driver:
    def __init__(self, cfg, scripts):
        import reactivex
        from reactivex import operators as ops
        from reactivex.scheduler import VirtualTimeScheduler
        from reactivex.subject import AsyncSubject, BehaviorSubject, ReplaySubject, Subject
        self.cfg, self.scripts = cfg, scripts
        self.rec = []
        self.handles, self.calls, self.stack, self.chandles = {}, {}, [], []
        self.ncalls = 0
        sk = cfg["subject"]
        self.scheduler = VirtualTimeScheduler() if sk[0] == "replay" else None
        self.source = Source(self, cfg.get("cold", []))
        src = self.source.observable
        mode, via = cfg["mode"], cfg["via"]

        def fresh_subject(_=None):
            if sk[0] == "subject":
                return Subject()
            if sk[0] == "behavior":
                return BehaviorSubject(POOL.val(sk[1]))
            if sk[0] == "async":
                return AsyncSubject()
            return ReplaySubject(sk[1], sk[2], self.scheduler)
        self.connectable = None
        if mode[0] == "mapper":
            m = MAPPERS[mode[1]]
            if via == "publish":
                assert sk[0] == "subject"
                self.obs = src.pipe(ops.publish(m))
            elif via == "publish_value":
                assert sk[0] == "behavior"
                self.obs = src.pipe(ops.publish_value(POOL.val(sk[1]), m))
            elif via == "replay":
                assert sk[0] == "replay"
                self.obs = src.pipe(ops.replay(sk[1], sk[2], mapper=m, scheduler=self.scheduler))
            else:
                self.obs = src.pipe(ops.multicast(subject_factory=fresh_subject, mapper=m))
            return
        if via == "publish":
            assert sk[0] == "subject"
            mk = ops.publish()
        elif via == "publish_value":
            assert sk[0] == "behavior"
            mk = ops.publish_value(POOL.val(sk[1]))
        elif via == "replay":
            assert sk[0] == "replay"
            mk = ops.replay(sk[1], sk[2], scheduler=self.scheduler)
        else:
            mk = ops.multicast(fresh_subject())
        if mode[0] == "share":
            assert via == "publish"
            self.obs = src.pipe(ops.share())
            return
        self.connectable = src.pipe(mk)
        if mode[0] == "plain":
            self.obs = self.connectable
        elif mode[0] == "refcount":
            self.obs = self.connectable.pipe(ops.ref_count())
        elif mode[0] == "auto":
            # auto_connect(0) connects here, before any operation of the history
            self.obs = self.connectable.auto_connect(mode[1])
        else:
            raise AssertionError(mode)

    def do(self, op, in_cb=None):
        cid = self.ncalls
        self.ncalls += 1
        self.rec.append({"t": "call", "id": cid, "op": op, "parent": self.stack[-1] if self.stack else None,
                         "in_cb": in_cb})
        self.stack.append(cid)
        raised = None
        try:
            k = op[0]
            if k == "sub":
                o = op[1]
                if o not in self.calls:
                    self.calls[o] = 0
                    h = self.obs.subscribe(LogObserver(self, o))
                    self.handles[o] = h
            elif k == "unsub":
                h = self.handles.get(op[1])
                if h is not None:
                    h.dispose()
            elif k == "connect":
                if self.connectable is not None:
                    self.chandles.append(self.connectable.connect())
            elif k == "disc":
                if op[1] < len(self.chandles):
                    self.chandles[op[1]].dispose()
            elif k == "next":
                self.source.push(("N", op[1]))
            elif k == "err":
                self.source.push(("E", op[1]))
            elif k == "done":
                self.source.push(("C",))
            elif k == "adv":
                if self.scheduler is not None:
                    self.scheduler.sleep(op[1])
            else:
                raise AssertionError(op)
        except Exception as e:   # noqa: BLE001  (the driver's try/except around every operation)
            raised = k2.err_id(e)
        self.stack.pop()
        self.rec.append({"t": "ret", "id": cid, "raised": raised})

    def drain(self):
        from reactivex.scheduler import VirtualTimeScheduler
        if self.scheduler is not None:
            VirtualTimeScheduler.start(self.scheduler)


def run_case(cfg, hist):
    """-> records (one total order)"""
    top, scripts = hist
    try:
        d = Driver(cfg, scripts)
    except Exception as e:   # noqa: BLE001
        return [{"t": "build-raised", "raised": k2.err_id(e)}]
    d.drain()
    for op in top:
        d.do(op)
        d.drain()
    return d.rec


# --------------------------------------------------------------------------
# Gallina
# --------------------------------------------------------------------------

def g_cop(op):
    k = op[0]
    if k == "sub":
        return f"CSub {op[1]}%nat"
    if k == "unsub":
        return f"CUnsub {op[1]}%nat"
    if k == "connect":
        return "CConnect"
    if k == "disc":
        return f"CDisc {op[1]}%nat"
    if k == "next":
        return f"CNext {gz(op[1])}"
    if k == "err":
        return f"CErr {gz(op[1])}"
    if k == "done":
        return "CDone"
    if k == "adv":
        return f"CAdv {gz(op[1])}"
    raise AssertionError(op)


def g_cops(ops):
    return "[" + "; ".join(g_cop(o) for o in ops) + "]"


def g_hist(hist):
    top, scripts = hist
    sc = "; ".join(f"({o}%nat, [" + "; ".join(g_cops(r) for r in rs) + "])" for o, rs in sorted(scripts.items()))
    return f"({g_cops(top)}, [{sc}])"


def g_config(cfg):
    sk, mode = cfg["subject"], cfg["mode"]
    if sk[0] == "subject":
        fl = "FSync KSubject 0"
    elif sk[0] == "behavior":
        fl = f"FSync KBehavior {gz(sk[1])}"
    elif sk[0] == "async":
        fl = "FSync KAsync 0"
    else:
        fl = f"FReplay {gopt(sk[1])} {gopt(sk[2])}"
    if mode[0] == "plain":
        md = "MPlain"
    elif mode[0] in ("refcount", "share"):
        md = "MRefCount"
    elif mode[0] == "auto":
        md = f"(MAuto {mode[1]}%nat)"
    else:
        raise AssertionError(mode)
    reach = "false" if mode[0] == "share" else "true"
    cold = "[" + "; ".join(g_note(n) for n in cfg.get("cold", [])) + "]"
    return f"(Config ({fl}) {md} {reach} {cold})"


def g_xlog(rec):
    out = []
    for r in rec:
        t = r["t"]
        if t == "call":
            out.append(f"XOp ({g_cop(r['op'])})")
        elif t == "got":
            out.append(f"XGot {r['o']}%nat ({g_note(r['n'])})")
        elif t == "ret" and r["raised"] is not None:
            out.append(f"XRaised {gz(r['raised'])}")
        elif t == "ssub":
            out.append(f"XSSub {r['cid']}%nat")
        elif t == "sunsub":
            out.append(f"XSUnsub {r['cid']}%nat")
        elif t == "build-raised":
            out.append(f"XRaised {gz(r['raised'])}")
    return "[" + "; ".join(out) + "]"


def g_flavour(cfg):
    sk = cfg["subject"]
    if sk[0] == "subject":
        return "FSync KSubject 0"
    if sk[0] == "behavior":
        return f"FSync KBehavior {gz(sk[1])}"
    if sk[0] == "async":
        return "FSync KAsync 0"
    return f"FReplay {gopt(sk[1])} {gopt(sk[2])}"


def g_mapper_case(cfg, hist):
    cold = "[" + "; ".join(g_note(n) for n in cfg.get("cold", [])) + "]"
    return f"(({g_flavour(cfg)}), {cold}, {g_cops(hist[0])})"


MAPPER_CASE_TY = "(flavour Z * list (ev Z) * list (@cop Z)) * (list (xevent Z) * bool)"


IMPORTS = ("Base.Prelude Ops.Machine Subjects.Subject Subjects.Behavior Subjects.Async Subjects.Family "
           "Subjects.Replay Subjects.Connectable")
FUEL = 20000
PRELUDE = (f"Definition model (c : config Z * history Z) := run_config 0 (fst c) {FUEL} (snd c).\n"
           "Definition out_eqb (a b : list (xevent Z) * bool) := "
           "list_eqb xevent_eqb (fst a) (fst b) && Bool.eqb (snd a) (snd b).\n")
CASE_TY = "(config Z * history Z) * (list (xevent Z) * bool)"
MAPPER_PRELUDE = (f"Definition model (c : flavour Z * list (ev Z) * list (@cop Z)) := "
                  f"run_mapper 0 (fst (fst c)) (snd (fst c)) {FUEL} (snd c).\n"
                  "Definition out_eqb (a b : list (xevent Z) * bool) := "
                  "list_eqb xevent_eqb (fst a) (fst b) && Bool.eqb (snd a) (snd b).\n")


# --------------------------------------------------------------------------
# generators
# --------------------------------------------------------------------------

VALS = subj.VALS                       # pool ids: None 0 False '' () 0.0 1 'a'
NOTES = [("N", v) for v in (0, 1, 2, 3)] + [("C",), ("E", 11)]


def gen_config(rng, mapper=False):
    r = rng.random()
    if r < 0.35:
        sk, via = ("subject",), rng.choice(["publish", "publish", "multicast"])
    elif r < 0.6:
        sk, via = ("behavior", rng.choice(VALS)), rng.choice(["publish_value", "publish_value", "multicast"])
    elif r < 0.72:
        sk, via = ("async",), "multicast"
    else:
        sk = ("replay", rng.choice([None, 0, 1, 2, 3]), rng.choice([None, None, None, 0, 1, 2, 5]))
        via = rng.choice(["replay", "replay", "multicast"])
    if mapper:
        mode = ("mapper", rng.choice(["id", "merge2"]))
    else:
        r = rng.random()
        if r < 0.3:
            mode = ("plain",)
        elif r < 0.6:
            mode = ("refcount",)
        elif r < 0.7 and via == "publish":
            mode = ("share",)
        elif r < 0.7:
            mode = ("refcount",)
        else:
            mode = ("auto", rng.choice([0, 1, 1, 2, 2, 3]))
    cold = []
    if rng.random() < 0.25:
        cold = [rng.choice(NOTES[:4]) for _ in range(rng.choice([1, 1, 2]))]
        if rng.random() < 0.5:
            cold.append(rng.choice(NOTES[4:]))
    return {"subject": sk, "via": via, "mode": mode, "cold": cold}


def gen_op(rng, nobs, cfg, nested=False, manual=True):
    r = rng.random()
    if cfg["subject"][0] == "replay" and not nested and r < 0.08:
        return ("adv", rng.choice([0, 1, 1, 2, 3]))
    r = rng.random()
    if r < 0.26:
        return ("sub", rng.randrange(nobs))
    if r < 0.42:
        return ("unsub", rng.randrange(nobs))
    if manual and r < 0.52:
        return ("connect",)
    if manual and r < 0.60:
        return ("disc", rng.choice([0, 0, 1, 2]))
    if r < 0.86:
        return ("next", rng.choice(VALS))
    if r < 0.91:
        return ("err", rng.choice([11, 12]))
    return ("done",)


def gen_history(rng, cfg, flat=None):
    nobs = rng.choice([2, 3, 4, 5])
    n = rng.choice([1, 2, 3, 4, 5, 6, 7, 8, 10, 12])
    # manual connect()/dispose: always for the plain connectable, sometimes next to ref_count / auto_connect
    manual = cfg["mode"][0] == "plain" or (cfg["mode"][0] in ("refcount", "auto") and rng.random() < 0.2)
    top = [gen_op(rng, nobs, cfg, manual=manual) for _ in range(n)]
    if rng.random() < 0.35:
        top.append(("sub", nobs))
        nobs += 1
    scripts = {}
    if flat is None:
        flat = rng.random() < 0.6
    if not flat:
        for o in range(nobs):
            if rng.random() < 0.5:
                scripts[o] = [[gen_op(rng, nobs + 1, cfg, nested=True, manual=manual)
                               for _ in range(rng.choice([0, 1, 1, 1, 2]))]
                              for _ in range(rng.choice([1, 2, 3]))]
    return (top, scripts)


# --------------------------------------------------------------------------
# oracle (independent of the model): the statement of C24 evaluated on the records
# --------------------------------------------------------------------------

def split_ops(rec):
    """top-level operations with what happened during each: [(op, [records])]; records before
    the first call (auto_connect(0) connects when the observable is built) under op None"""
    out, cur, depth = [(None, [])], None, 0
    for r in rec:
        if r["t"] == "call" and r["parent"] is None:
            out.append((r["op"], []))
        out[-1][1].append(r)
    return out


def retained(buf, bs, w, now):
    vals = list(buf)
    if bs is not None:
        vals = vals[max(0, len(vals) - bs):] if bs > 0 else []
    if w is not None:
        vals = [(t, v) for (t, v) in vals if now - t <= w]
    return [("N", v) for (_, v) in vals]


class Expect:
    """What the PROPERTY says must happen on a history of top-level operations, computed from the
    history alone: the source is subscribed once per connection and only while connected;
    ref_count / share connect when the number of subscribers goes 0 -> 1 and disconnect when it
    returns to 0; auto_connect(n) connects when the n-th subscriber arrives, once; a subscriber
    receives what the shared subject receives from its subscription on, after the current value
    (publish_value) / the retained values (replay); a subject that has ended greets a newcomer
    with the terminal notification only (replay: retained values first; AsyncSubject: its last
    value first)."""

    def __init__(self, cfg):
        self.cfg = cfg
        self.kind = cfg["subject"][0]
        self.mode = cfg["mode"][0]
        self.n_auto = cfg["mode"][1] if self.mode == "auto" else None
        self.cold = cfg.get("cold", [])
        self.connected = False          # a connection exists (connect() .. its disposal)
        self.conn_id = -1               # number of the current connection
        self.src_open = False           # the source subscription of the current connection is alive
        self.next_cid = 0
        self.status = "live"            # or ('term', note)
        self.value = cfg["subject"][1] if self.kind == "behavior" else None
        self.has_value = False
        self.buf = []                   # replay: every accepted (time, value)
        self.clock = 0
        self.subs = []                  # current subscribers of the subject, in order
        self.used = set()
        self.count = 0                  # ref_count: current subscribers of the ref-counted observable
        self.rc_members = set()
        self.arrivals = 0
        self.handles = []               # connection number each connect() call returned
        self.got = {}                   # o -> expected notifications
        self.src = []                   # expected source events of the current operation
        if self.mode == "auto" and self.n_auto == 0:
            self.connect()

    # -- the subject ---------------------------------------------------
    def give(self, o, notes):
        self.got.setdefault(o, []).extend(notes)

    def feed(self, n):
        if self.status != "live":
            return
        if n[0] == "N":
            self.value, self.has_value = n[1], True
            self.buf.append((self.clock, n[1]))
            if self.kind != "async":
                for o in list(self.subs):
                    self.give(o, [n])
            return
        self.status = ("term", n)
        last = [("N", self.value)] if (self.kind == "async" and n[0] == "C" and self.has_value) else []
        leaving, self.subs = self.subs, []
        for o in leaving:
            self.give(o, last + [n])
        for o in leaving:
            self.left(o)

    def greeting(self):
        if self.status == "live":
            if self.kind == "behavior":
                return [("N", self.value)]
            if self.kind == "replay":
                return retained(self.buf, self.cfg["subject"][1], self.cfg["subject"][2], self.clock)
            return []
        t = self.status[1]
        if self.kind == "replay":
            return retained(self.buf, self.cfg["subject"][1], self.cfg["subject"][2], self.clock) + [t]
        if self.kind == "async" and t[0] == "C" and self.has_value:
            return [("N", self.value), t]
        return [t]

    # -- the connection ------------------------------------------------
    def connect(self):
        if self.connected:
            return
        self.connected, self.src_open = True, True
        self.conn_id = self.next_cid
        self.next_cid += 1
        self.src.append(("ssub", self.conn_id))
        for n in self.cold:
            self.from_source(n)

    def from_source(self, n):
        if not self.src_open:
            return
        self.feed(n)
        if n[0] != "N" and self.src_open:
            self.src_open = False
            self.src.append(("sunsub", self.conn_id))

    def disconnect(self):
        if not self.connected:
            return
        self.connected = False
        if self.src_open:
            self.src_open = False
            self.src.append(("sunsub", self.conn_id))

    def left(self, o):
        """o stops being a subscriber of the ref-counted observable"""
        if self.mode in ("refcount", "share") and o in self.rc_members:
            self.rc_members.discard(o)
            self.count -= 1
            if self.count == 0:
                self.disconnect()

    # -- the history ----------------------------------------------------
    def op(self, op):
        self.src = []
        k = op[0]
        if k == "sub":
            o = op[1]
            if o in self.used:
                return
            self.used.add(o)
            first = False
            if self.mode in ("refcount", "share"):
                self.count += 1
                self.rc_members.add(o)
                first = self.count == 1
            elif self.mode == "auto":
                self.arrivals += 1
                first = self.arrivals == self.n_auto
            self.give(o, self.greeting())
            if self.status == "live":
                self.subs.append(o)
            if first:
                self.connect()
            if o not in self.subs:
                self.left(o)
        elif k == "unsub":
            o = op[1]
            if o in self.subs:
                self.subs.remove(o)
            if o in self.used:
                self.left(o)
        elif k == "connect":
            if self.mode != "share":
                self.connect()
                self.handles.append(self.conn_id)
        elif k == "disc":
            if op[1] < len(self.handles) and self.handles[op[1]] == self.conn_id:
                self.disconnect()
        elif k in ("next", "err", "done"):
            self.from_source(subj.note_of(op))
        elif k == "adv":
            if self.kind == "replay" and op[1] >= 0:
                self.clock += op[1]


def oracle(cfg, hist, rec):
    """-> list of (signature, detail)"""
    top, scripts = hist
    bad = []
    mode = cfg["mode"][0]
    flat = not scripts

    def fail(what, **d):
        bad.append((f"{what}|{mode}|{cfg['subject'][0]}|flat={int(flat)}", dict(d, what=what)))

    if rec and rec[0]["t"] == "build-raised":
        fail("build-raised", raised=rec[0]["raised"])
        return bad
    # 1. at most one source subscription at any time; unsubscribe matches the open one
    #    (subject_factory + mapper: one per subscriber, each disposed at most once)
    open_cid, last = None, -1
    if mode == "mapper":
        seen, closed = set(), set()
        for r in rec:
            if r["t"] == "ssub":
                if r["cid"] != len(seen):
                    fail("source-subscription-numbering", cid=r["cid"])
                seen.add(r["cid"])
            elif r["t"] == "sunsub":
                if r["cid"] not in seen or r["cid"] in closed:
                    fail("source-unsubscribed-without-subscription", cid=r["cid"])
                closed.add(r["cid"])
    for r in ([] if mode == "mapper" else rec):
        if r["t"] == "ssub":
            if open_cid is not None:
                fail("source-subscribed-twice", open=open_cid, again=r["cid"])
            if r["cid"] != last + 1:
                fail("source-subscription-numbering", cid=r["cid"])
            open_cid, last = r["cid"], r["cid"]
        elif r["t"] == "sunsub":
            if open_cid != r["cid"]:
                fail("source-unsubscribed-without-subscription", open=open_cid, cid=r["cid"])
            open_cid = None
    # 2. who may subscribe the source: connect() (plain), subscribe() (ref_count, share, auto_connect)
    stack = []
    calls = {}
    for r in rec:
        if r["t"] == "call":
            calls[r["id"]] = r
            stack.append(r["id"])
        elif r["t"] == "ret":
            stack.pop()
        elif r["t"] == "ssub":
            inner = calls[stack[-1]]["op"][0] if stack else None
            manual = any(c["op"][0] == "connect" for c in calls.values())
            if mode == "mapper":
                allowed = ("sub",)
            elif mode == "plain":
                allowed = ("connect",)
            elif mode == "auto" and cfg["mode"][1] == 0 and inner is None:
                continue
            else:
                allowed = ("sub", "connect") if manual else ("sub",)
            if inner not in allowed:
                fail("source-subscribed-outside-connect", during=inner)
    # 3. per-subscriber grammar
    views = {}
    for r in rec:
        if r["t"] == "got":
            views.setdefault(r["o"], []).append(r["n"])
    for o, v in views.items():
        if not subj.wellformed(v):
            fail("grammar", observer=o, received=v)
    for r in rec:
        if r["t"] == "ret" and r["raised"] is not None and flat:
            fail("call-raised", raised=r["raised"])
    if not flat:
        return bad
    # 4. histories of top-level calls: the exact expectation
    if mode == "mapper":
        return bad + oracle_mapper(cfg, top, rec, fail)
    ex = Expect(cfg)
    ops = split_ops(rec)
    pre = [(r["t"], r["cid"]) for r in ops[0][1] if r["t"] in ("ssub", "sunsub")]
    if pre != ex.src:
        fail("source-events-at-build", got=pre, expected=ex.src)
    for i, (op, rs) in enumerate(ops[1:]):
        ex.op(op)
        got = [(r["t"], r["cid"]) for r in rs if r["t"] in ("ssub", "sunsub")]
        if got != ex.src:
            what = "source-events"
            if mode == "auto":
                what = "auto-connect-instant"
            elif mode in ("refcount", "share"):
                what = "ref-count-edges"
            fail(what, index=i, op=op, got=got, expected=ex.src)
            break
    else:
        for o in sorted(set(views) | set(ex.got)):
            if views.get(o, []) != ex.got.get(o, []):
                fail("subscriber-sequence", observer=o, received=views.get(o, []), expected=ex.got.get(o, []))
    return bad


def oracle_mapper(cfg, top, rec, fail):
    """multicast(subject_factory, mapper): every subscription is its own multicast invocation:
    its own subject, ONE source subscription made by that subscribe() call (however often the
    mapper uses the connectable), disposed when the subscriber leaves or the source ends."""
    bad_before = 0
    kind, which = cfg["subject"][0], cfg["mode"][1]
    dup = 2 if which == "merge2" else 1
    ops = split_ops(rec)
    owner, opened = {}, {}          # cid -> o ; o -> cid
    used, active = set(), []
    expect = {}
    last = {}
    ncid = 0
    for i, (op, rs) in enumerate(ops[1:]):
        src = [(r["t"], r["cid"]) for r in rs if r["t"] in ("ssub", "sunsub")]
        want = []
        k = op[0]
        if k == "sub" and op[1] not in used:
            o = op[1]
            used.add(o)
            active.append(o)
            opened[o] = ncid
            want.append(("ssub", ncid))
            ncid += 1
            expect[o] = [("N", cfg["subject"][1])] * dup if kind == "behavior" else []
            last[o] = None
            alive = True
            for n in cfg.get("cold", []):
                if alive:
                    alive = mapper_feed(kind, dup, expect, last, o, n)
            if not alive:
                active.remove(o)
                want.append(("sunsub", opened[o]))
        elif k == "unsub" and op[1] in active:
            active.remove(op[1])
            want.append(("sunsub", opened[op[1]]))
        elif k in ("next", "err", "done"):
            n = subj.note_of(op)
            for o in list(active):
                if not mapper_feed(kind, dup, expect, last, o, n):
                    active.remove(o)
                    want.append(("sunsub", opened[o]))
        if sorted(src) != sorted(want):
            fail("mapper-source-events", index=i, op=op, got=src, expected=want)
            return []
    views = {}
    for r in rec:
        if r["t"] == "got":
            views.setdefault(r["o"], []).append(r["n"])
    for o in sorted(set(views) | set(expect)):
        if views.get(o, []) != expect.get(o, []):
            fail("mapper-subscriber-sequence", observer=o, received=views.get(o, []), expected=expect.get(o, []))
    return []


def mapper_feed(kind, dup, expect, last, o, n):
    """-> still alive"""
    if n[0] == "N":
        if kind == "async":
            last[o] = n
        else:
            expect[o].extend([n] * dup)
        return True
    if kind == "async" and n[0] == "C" and last[o] is not None:
        expect[o].extend([last[o]] * dup)
    expect[o].append(n)
    return False


# --------------------------------------------------------------------------
# the check
# --------------------------------------------------------------------------

def cfg_json(cfg):
    return {"subject": list(cfg["subject"]), "via": cfg["via"], "mode": list(cfg["mode"]),
            "cold": [list(n) for n in cfg.get("cold", [])]}


def cfg_from_json(d):
    return {"subject": tuple(d["subject"]), "via": d["via"], "mode": tuple(d["mode"]),
            "cold": [tuple(n) for n in d.get("cold", [])]}


def small_configs(tier):
    S, B, R = ("subject",), ("behavior", 0), ("replay", 1, None)
    out = [dict(subject=S, via="publish", mode=m, cold=[]) for m in
           [("plain",), ("refcount",), ("share",), ("auto", 0), ("auto", 1), ("auto", 2), ("auto", 3)]]
    out += [dict(subject=B, via="publish_value", mode=m, cold=[]) for m in [("plain",), ("refcount",), ("auto", 2)]]
    out += [dict(subject=R, via="replay", mode=m, cold=[]) for m in [("plain",), ("refcount",), ("auto", 1)]]
    out += [dict(subject=("async",), via="multicast", mode=("refcount",), cold=[]),
            dict(subject=S, via="multicast", mode=("refcount",), cold=[("N", 2), ("C",)]),
            dict(subject=S, via="publish", mode=("plain",), cold=[("N", 0)])]
    if tier != "quick":
        out += [dict(subject=("replay", 2, 1), via="replay", mode=("refcount",), cold=[("N", 2)]),
                dict(subject=B, via="multicast", mode=("auto", 1), cold=[("N", 0), ("E", 11)]),
                dict(subject=("async",), via="multicast", mode=("plain",), cold=[])]
    return out


def gen_cases(tier, rng):
    a, b = 0, 2                     # pool ids of None and False
    cases = []
    scope = {}
    L = 3 if tier == "quick" else 4
    for cfg in small_configs(tier):
        m = cfg["mode"][0]
        if m == "plain":
            alpha = [("sub", 0), ("sub", 1), ("unsub", 0), ("connect",), ("disc", 0), ("disc", 1), ("next", a), ("done",)]
        elif m == "auto":
            alpha = [("sub", 0), ("sub", 1), ("sub", 2), ("unsub", 0), ("unsub", 1), ("next", a), ("done",)]
        else:
            alpha = [("sub", 0), ("sub", 1), ("unsub", 0), ("unsub", 1), ("next", a), ("next", b), ("done",), ("err", 11)]
        ll = L + 1 if (m == "auto" and cfg["mode"][1] in (2, 3) and cfg["via"] == "publish") else L
        for h in subj.enum_flat(alpha, ll):
            cases.append((cfg, h))
    scope["exhaustive_flat"] = len(cases)
    # re-entrant: observer 0 (or 1) reacts inside its first callback
    reactions = [("unsub", 0), ("unsub", 1), ("sub", 2), ("connect",), ("disc", 0), ("next", b), ("done",)]
    tail = [("next", a), ("done",), ("unsub", 1), ("sub", 3), ("connect",), ("disc", 0)]
    for cfg in small_configs("quick")[:13]:
        for h in subj.enum_reentrant([("sub", 0), ("sub", 1)], tail, reactions, 2 if tier == "quick" else 3):
            cases.append((cfg, h))
    scope["exhaustive_reentrant"] = len(cases) - scope["exhaustive_flat"]
    nrand = 1500 if tier == "quick" else 25000
    for _ in range(nrand):
        cfg = gen_config(rng)
        cases.append((cfg, gen_history(rng, cfg)))
    scope["random"] = nrand
    nmap = 400 if tier == "quick" else 5000
    for _ in range(nmap):
        cfg = gen_config(rng, mapper=True)
        if cfg["mode"][1] == "merge2":
            cfg["cold"] = []          # merge subscribes its inner sources through the trampoline (after connect)
        cases.append((cfg, gen_history(rng, cfg, flat=True)))
    scope["random_mapper_form"] = nmap
    scope["flat_len"] = L
    return cases, scope


def nontrivial(rec):
    return (sum(1 for r in rec if r["t"] == "ssub") >= 1 and sum(1 for r in rec if r["t"] == "got") >= 2)


def run_check(chk):
    pid = "C24"
    proved = chk.build_and_prove()
    tier = chk.tier if proved and not chk.broken else "thorough"
    if tier != chk.tier:
        chk.cov["search"] = "theorem file or build broke: case set enlarged to the thorough scope"
    cases, scope = gen_cases(tier, chk.rng)
    mgal, midx, nsig = [], [], {}
    gal, idx, H, nt = [], [], {"mode": {}, "subject": {}, "reentrant": 0, "cold": 0, "falsy_values": 0,
                               "reconnect": 0, "late_subscriber_after_end": 0}, set()
    for ci, (cfg, h) in enumerate(cases):
        rec = run_case(cfg, h)
        chk.cov["evaluations"] += 1
        H["mode"][cfg["mode"][0]] = H["mode"].get(cfg["mode"][0], 0) + 1
        H["subject"][cfg["subject"][0]] = H["subject"].get(cfg["subject"][0], 0) + 1
        H["reentrant"] += 1 if h[1] else 0
        H["cold"] += 1 if cfg.get("cold") else 0
        H["falsy_values"] += 1 if any(r["t"] == "got" and r["n"][0] == "N" and r["n"][1] < 6 for r in rec) else 0
        H["reconnect"] += 1 if sum(1 for r in rec if r["t"] == "ssub") >= 2 else 0
        ops_by_id = {r["id"]: r["op"] for r in rec if r["t"] == "call"}
        H["late_subscriber_after_end"] += 1 if any(
            r["t"] == "got" and r["n"][0] != "N" and r["call"] is not None and ops_by_id[r["call"]][0] == "sub"
            for r in rec) else 0
        if nontrivial(rec):
            nt.add(repr((cfg_json(cfg), subj.hist_key(h))))
        for sig, detail in oracle(cfg, h, rec):
            nsig[sig] = nsig.get(sig, 0) + 1
            if nsig[sig] > 3:               # a defect hits thousands of cases: shrink the first few only
                continue

            def still(hh, _sig=sig):
                return any(s == _sig for s, _ in oracle(cfg, hh, run_case(cfg, hh)))
            hm = subj.shrink(h, still)
            r2 = run_case(cfg, hm)
            d2 = [d for s, d in oracle(cfg, hm, r2) if s == sig][0]
            chk.violation(sig, {"config": cfg_json(cfg), "history": subj.hist_json(hm),
                                "pool": [repr(v) for v in POOL.values], "implementation_log": g_xlog(r2),
                                "oracle": d2, "expected": "see harness/conn.py: Expect / oracle docstrings"},
                          size=subj.hist_size(hm))
        if cfg["mode"][0] != "mapper":
            gal.append((f"({g_config(cfg)}, {g_hist(h)})", f"({g_xlog(rec)}, true)"))
            idx.append(ci)
        elif cfg["mode"][1] == "id" and not h[1] and cfg["subject"][0] != "replay":
            # (ReplaySubject instances share ONE scheduler, drained once per operation, which the
            #  per-instance model does not reproduce; besides,
            #  replay(mapper=..) hands the SUBSCRIBE-time scheduler to its ReplaySubject -- the factory's
            #  parameter shadows the operator's `scheduler` -- so deliveries go through the default
            #  CurrentThreadScheduler, which the replay engine does not model: oracle only)
            mgal.append((g_mapper_case(cfg, h), f"({g_xlog(rec)}, true)"))
            midx.append(ci)
    bad, logs = subj.correspond(pid, "k1", IMPORTS, CASE_TY, gal, PRELUDE)
    mbad, mlogs = subj.correspond(pid, "k1m", IMPORTS, MAPPER_CASE_TY, mgal, MAPPER_PRELUDE)
    if mbad:
        firsts = [i for i in mbad if i >= 0][:3]
        detail = {"n_disagreements": len(mbad), "logs": mlogs[:1],
                  "first (flavour, cold prefix, history) / implementation log": [mgal[i] for i in firsts]}
        if firsts:
            detail["model_says"] = lib.coq_show(pid, IMPORTS, f"model {mgal[firsts[0]][0]}", MAPPER_PRELUDE)
            detail["config"] = cfg_json(cases[midx[firsts[0]]][0])
            detail["history"] = subj.hist_json(cases[midx[firsts[0]]][1])
        chk.tie_broken("correspondence K1/K2: Subjects/Connectable.v run_mapper vs multicast(subject_factory, mapper) "
                       "/ publish(mapper) / publish_value(v, mapper) / replay(mapper=...)", detail)
    chk.cov["traces_validated_against_impl"] = len(gal) + len(mgal)
    chk.cov["disagreements_checked"] = len(gal) + len(mgal)
    if bad:
        firsts = [i for i in bad if i >= 0][:3]
        detail = {"n_disagreements": len(bad), "logs": logs[:1],
                  "first (config, history) / implementation log": [gal[i] for i in firsts]}
        if firsts:
            detail["model_says"] = lib.coq_show(pid, IMPORTS, f"model {gal[firsts[0]][0]}", PRELUDE)
            detail["config"] = cfg_json(cases[idx[firsts[0]]][0])
            detail["history"] = subj.hist_json(cases[idx[firsts[0]]][1])
        chk.tie_broken("correspondence K1/K2: Subjects/Connectable.v vs ConnectableObservable / ref_count / "
                       "auto_connect / publish / publish_value / replay / multicast", detail)
    chk.cov["distinct_nontrivial"] = len(nt)
    chk.cov["exhaustive"] = True
    chk.cov["rule"] = (f"exhaustive: all histories of top-level calls of length <= {scope['flat_len']} "
                       "(auto_connect(2)/(3) on publish: +1) over 7-8 operations (2-3 subscribers, connect, dispose of the 1st/2nd "
                       "connection handle, values None/False, completion, error) for 16 configurations (publish x "
                       "plain/ref_count/share/auto_connect(0..3); publish_value and replay(1) x plain/ref_count/"
                       "auto_connect; AsyncSubject; cold prefixes); exhaustive one-reaction re-entrant trees "
                       "(sub0 sub1 ++ tails, subscriber 0/1 reacting in its first callback); seeded random trees "
                       "over random configurations (all subject kinds, replay buffer 0-3 / window 0-5 ticks with "
                       "clock advances, cold prefixes with/without terminal, manual connect next to ref_count); "
                       "random histories for the subject_factory + mapper form (identity mapper on synchronous subjects: model tie; otherwise oracle only).  non-trivial = "
                       "distinct (configuration, history) with at least one source subscription and two deliveries")
    chk.cov["input_distribution"] = dict(H, **{k: v for k, v in scope.items() if isinstance(v, int)})
    step = max(1, len(cases) // 5)
    chk.add_samples([{"config": cfg_json(c), "history": subj.hist_json(h)} for (c, h) in cases[step - 1::step]])
    return chk.finish(
        trusted_extra=["K1/K2 driver harness/conn.py (hand-driven source logging its subscribe/unsubscribe instants, "
                       "logging subscribers, try/except around every call); replay flavours on a real "
                       "VirtualTimeScheduler drained after every top-level call",
                       "the subject engines Subjects/Subject.v and Subjects/Replay.v (C20-C23) are reused, stepped one "
                       "instruction at a time; the AutoDetachObserver wrappers of all layers are collapsed into the "
                       "engine's wrapper, covered by the same correspondence"],
        assumptions=["single thread; subscriber callbacks do not raise",
                     "the source is passive: it emits only when the history says so (plus a cold prefix inside "
                     "subscribe()) and never refuses a subscription",
                     "ref_count / auto_connect edge theorems and the per-subscriber view theorem are for histories of "
                     "top-level calls (no call-backs into the operators from inside a notification) without manual "
                     "connect() next to ref_count / auto_connect; the connection theorems (one source subscription at "
                     "a time, none while disconnected) hold for arbitrary call trees",
                     "subject_factory + mapper form: modelled (Subjects/Connectable.v run_mapper: one plain connectable per "
                     "subscriber) and tied for the identity mapper with Subject / BehaviorSubject / AsyncSubject factories on "
                     "histories of top-level calls; ReplaySubject factories and a mapper using the connectable twice are "
                     "checked by the oracle on the implementation only",
                     "fewer than 100 scheduler actions per drain (replay flavours)"])


def replay_check(chk, path):
    import json
    d = json.load(open(path))
    if "history" not in d:
        print(json.dumps(d, indent=1))
        return 1
    cfg, h = cfg_from_json(d["config"]), subj.hist_from_json(d["history"])
    rec = run_case(cfg, h)
    bad = oracle(cfg, h, rec)
    print("config", cfg)
    print("history", h)
    print("implementation log", g_xlog(rec))
    for s, dd in bad:
        print("ORACLE FAILS", s, dd)
    return 1 if bad else 0
