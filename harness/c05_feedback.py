"""C05 -- re-entrant FEEDBACK family (oracle only).

The input of an element-wise operator may reach it RE-ENTRANTLY: the subscriber, from inside its on_next, pushes
the next element (or the terminal) into the very source the operator is subscribed to (a feedback loop through a
Subject).  The operator then sees input k+1 while its own on_next for input k is still on the stack.  The
statement quantifies over "every finite input sequence": the sequence is the list of notifications the source
made IN THE ORDER THEY WERE MADE (depth-first), and the list computation is taken over that sequence -- take(n)
emits exactly the first n whatever the nesting (an operator that updates its state only AFTER handing the element
downstream lets a nested element through).

Case: operator instance + queue of notifications (elements then at most one terminal, drawn like every other C05
case) + a seeded nesting script: script[j] = how many queued notifications the subscriber pushes from inside its
j-th on_next (0, 1 or 2); whatever is left when control is back at top level is pushed by the driver.  Every push
pops the HEAD of the queue at the moment it is made, so the order of making is the queue order whatever the
nesting; nothing is pushed after the terminal.  Feedback starts once subscribe() has returned (what a hot source
is given before the operator subscribed to it is no input of the operator: start_with).

Source kinds: `subject` (reactivex.subject.Subject) | `probe` (hand-made hot source: list of observers, delivers
to the observers present when the notification is made).

Clock: a STACK clock -- while notification k is being delivered the clock reads k; when the delivery returns the
clock reads what it read before (the enclosing delivery, 0 at top level).  An output is tagged with the reading at
the moment it reaches the subscriber: the output determined by input k is emitted by the handler of input k, not by
a handler nested in it, so the tags are those of the sequential list computation (C05.expected).

Judgement: values, terminal, order AND tags against C05.expected over (elements, terminal) of the queue.  When the
source's TERMINAL was made re-entrantly (from inside the delivery of an element) the terminal the operator derives
from that element and the source's own belong to the same instant and the statement does not order them: elements
are judged in full, the terminal must be exactly one, last, and either the list computation's or the source's own.
Operators of OBSERVED_ONLY are run and compared, the differences are counted in coverage (never a violation):
see the comment there."""
import random

import k2
import lib
from k2 import UserError

KINDS = ["subject", "probe"]
STYLES = ["chain", "random", "boundary", "pairs"]
BUDGET = 10.0

# Operators of the UNCHANGED tree that hand the found element downstream and complete WITHOUT a `done` flag of their
# own, so that an input nested in the delivery of the found element is handled as if nothing had been found yet:
#   find / find_index   : `index` is advanced only in the not-found branch: the nested element is tested (with the
#                         same index) and, if it satisfies the predicate, emitted as well; a nested source completion
#                         adds the not-found default (None / -1) after the found element
#   element_at(_or_default): the countdown stays 0 after the hit: every nested element is emitted too; a nested source
#                         completion adds the default / ArgumentOutOfRange after the found element
# By the reading under which take must emit exactly xs[:n] whatever the nesting these are defects of the same class
# (proposed patch + reproducer: proposed_fixes/C05-find-element-at-reentrant-extra-element.*).  The other reading: the
# Rx grammar asks a source for SERIALIZED notifications, and a source notifying from inside its observer's on_next is
# outside the statement.  Until that is decided they are run and compared for COVERAGE only (counted, never a
# violation); deleting an entry here puts the operator on the violation path.
# (find / element_at were compared for coverage only until /repo got their `done` flags; nothing is exempt now)
OBSERVED_ONLY = {}


def norm(v):
    from reactivex.notification import OnNext, OnError, OnCompleted
    if isinstance(v, OnNext):
        return ("N", norm(v.value))
    if isinstance(v, OnError):
        return ("E", k2.err_id(v.exception) if isinstance(v.exception, BaseException) else v.exception)
    if isinstance(v, OnCompleted):
        return ("C",)
    if isinstance(v, tuple):
        return tuple(norm(x) for x in v)
    if isinstance(v, list):
        return [norm(x) for x in v]
    if hasattr(v, "__dict__") and type(v).__name__ == "SimpleNamespace":
        return ("ns", tuple(sorted((k, norm(x)) for k, x in vars(v).items())))
    return v


def same(a, b):
    a, b = norm(a), norm(b)
    return repr(a) == repr(b) and type(a) == type(b)


# ----------------------------------------------------------------------------------------------- case
def gen_case(C05, pool, T, name, case_seed, kind):
    """everything about a case is drawn from its seed"""
    rng = random.Random(case_seed)
    exp = None
    for _ in range(6):
        inst = T[name](rng)
        if inst.get("gen_inputs") is not None:
            ins = inst["gen_inputs"](rng, 8)
        else:
            ins = k2.gen_inputs(rng, inst.get("pool", pool), maxlen=8, conforming=True)
        queue, xs, term = [], [], None
        for e in ins:                      # conforming: elements, then at most one terminal
            queue.append(e)
            if e[0] == "N":
                xs.append(e[1])
            else:
                term = "C" if e[0] == "C" else e[1].code
                break
        exp = C05.expected(inst["spec"], list(xs), term, pool)
        if exp is not None:
            break                          # comparer variants: only those the list oracle judges
    style = rng.choice(STYLES)
    n = len(queue) + 2
    if style == "chain":                   # one depth-first chain: every on_next pushes the next notification
        script = [1] * n
    elif style == "pairs":
        script = [rng.choice([0, 2, 2, 1]) for _ in range(n)]
    elif style == "random":
        script = [rng.choice([0, 0, 1, 1, 2]) for _ in range(n)]
    else:                                  # boundary: exactly one nesting on_next, everything else sequential
        script = [0] * n
        script[rng.randrange(n - 1)] = rng.choice([1, 1, 2])
    return dict(name=name, kind=kind, inst=inst, queue=queue, xs=xs, term=term, exp=exp, script=script, style=style)


# ----------------------------------------------------------------------------------------------- sources
class Probe:
    """hand-made hot source: delivers to the observers present when the notification is made"""

    def __init__(self):
        from reactivex import Observable
        from reactivex.disposable import Disposable
        self.observers = []

        def subscribe(observer, scheduler=None):
            rec = [observer]
            self.observers.append(rec)

            def dispose():
                if rec in self.observers:
                    self.observers.remove(rec)
            return Disposable(dispose)
        self.observable = Observable(subscribe)

    def on_next(self, v):
        for rec in list(self.observers):
            rec[0].on_next(v)

    def on_error(self, e):
        for rec in list(self.observers):
            rec[0].on_error(e)

    def on_completed(self):
        for rec in list(self.observers):
            rec[0].on_completed()


# ----------------------------------------------------------------------------------------------- run one
def run_case(C05, case, pool):
    """-> dict(verdict = ok | list-semantics | escape | timeout | unjudged, ...)"""
    def body():
        from reactivex.subject import Subject
        if case["kind"] == "subject":
            sink = Subject()
            observable = sink
        else:
            sink = Probe()
            observable = sink.observable
        queue = list(case["queue"])
        script = case["script"]
        clock = k2.CURRENT_TAG
        clock[0] = 0
        del k2.CALLS[:]
        del k2.RAISED[:]
        st = dict(made=0, nested=0, nested_terminal=0, maxdepth=0, depth=0, calls=0, live=False)
        # nested_terminal: 1 when the source's terminal was made from inside an on_next of the subscriber
        out, escapes, order = [], [], []

        def push(nested):
            """make the next queued notification (pops the head NOW: order of making = queue order)"""
            if not queue:
                return
            ev = queue.pop(0)
            st["made"] += 1
            k = st["made"]
            order.append((k, st["depth"]))
            if nested:
                st["nested"] += 1
                if ev[0] != "N":
                    st["nested_terminal"] += 1
            old = clock[0]
            clock[0] = k
            st["depth"] += 1
            st["maxdepth"] = max(st["maxdepth"], st["depth"])
            try:
                if ev[0] == "N":
                    sink.on_next(ev[1])
                elif ev[0] == "E":
                    sink.on_error(ev[1])
                else:
                    sink.on_completed()
            except Exception as e:         # anything escaping from the library into the emitter
                escapes.append((k, f"{type(e).__name__}: {e!r}"[:200]))
            finally:
                st["depth"] -= 1
                clock[0] = old

        def on_next(v):
            out.append((clock[0], "N", v))
            j = st["calls"]
            st["calls"] += 1
            if st["live"] and j < len(script):
                for _ in range(script[j]):
                    push(True)

        try:
            sub = observable.pipe(case["inst"]["py"]).subscribe(
                on_next, lambda e: out.append((clock[0], "E", k2.err_id(e))), lambda: out.append((clock[0], "C", None)))
        except Exception as e:
            escapes.append((0, f"subscribe: {type(e).__name__}: {e!r}"[:200]))
            sub = None
        st["live"] = True
        while queue:
            push(False)
        if sub is not None:
            try:
                sub.dispose()
            except Exception as e:
                escapes.append((st["made"], f"dispose: {type(e).__name__}: {e!r}"[:200]))
        clock[0] = 0
        return dict(out=out, escapes=escapes, order=order, st=st)

    def guarded():
        try:
            return ("ok", body())
        except Exception as e:
            return ("escape", e)
    stt, r = lib.with_timeout(BUDGET, guarded)
    k2.CURRENT_TAG[0] = 0
    if stt == "timeout":
        return dict(verdict="timeout", detail=f"no result within {BUDGET} s")
    if r[0] == "escape":
        return dict(verdict="escape", detail=f"{type(r[1]).__name__}: {r[1]!r}"[:300])
    info = r[1]
    got = info["out"]
    res = dict(got=got, order=info["order"], st=info["st"], exp_msgs=None)
    if info["escapes"]:
        return dict(res, verdict="escape", detail=repr(info["escapes"][:3]))
    exp = case["exp"]
    if exp is None:
        return dict(res, verdict="unjudged")
    eo, ee = exp
    em = [(t, "N", v) for t, v in eo]
    if ee is not None:
        em.append((ee[0], "C", None) if ee[1] == "C" else (ee[0], "E", ee[1][1]))
    res["exp_msgs"] = em
    eq = lambda a, b: a[0] == b[0] and a[1] == b[1] and same(a[2], b[2])
    if not info["st"]["nested_terminal"]:
        ok = len(em) == len(got) and all(eq(a, b) for a, b in zip(em, got))
    else:
        # the source terminated from INSIDE the delivery of an element: its terminal and the terminal the operator
        # derives from that element (take's n-th, take_while's first failing ...) belong to the same instant and
        # the statement does not order them -> elements judged in full, the terminal: exactly one, last, and
        # either the list computation's or the source's own (its tag is not judged)
        g_el, g_term = [m for m in got if m[1] == "N"], [m for m in got if m[1] != "N"]
        e_el = [m for m in em if m[1] == "N"]
        src_term = ("C", None) if case["term"] == "C" else ("E", case["term"])
        ok = (len(e_el) == len(g_el) and all(eq(a, b) for a, b in zip(e_el, g_el))
              and len(g_term) == 1 and got[-1][1] != "N"
              and (g_term[0][1:] == tuple(em[-1][1:]) or g_term[0][1:] == src_term))
        res["terminal_rule"] = "source terminal made re-entrantly: terminal judged up to {list computation's, source's}"
    return dict(res, verdict="ok" if ok else "list-semantics")


def show(msgs):
    return repr([(t, k, norm(v)) for t, k, v in msgs]) if msgs is not None else "None"


def show_queue(case):
    return repr([("N", norm(e[1])) if e[0] == "N" else (("E", k2.err_id(e[1])) if e[0] == "E" else ("C",))
                 for e in case["queue"]])


def describe(case, r):
    d = dict(operator=case["name"], source=case["kind"], instance=case["inst"]["coq"],
             **{"source notifications in the order made": show_queue(case),
                "nesting script (pushes from inside the j-th on_next of the subscriber)": case["script"],
                "style": case["style"]})
    if "order" in r:
        d["made (position, nesting depth)"] = r["order"]
    return d


# ----------------------------------------------------------------------------------------------- family
def run_family(chk, C05, pool, T):
    ncase = 40 if chk.tier == "quick" else 400
    hist = {"kinds": {k: 0 for k in KINDS}, "styles": {s: 0 for s in STYLES}, "verdicts": {},
            "cases_with_nesting": 0, "nested_pushes": 0, "nested_terminals": 0, "max_depth": 0,
            "observed_only_differences": {}}
    per_op, nontrivial = {}, set()
    for name in T:
        per_op[name] = 0
        for ci in range(ncase):
            kind = KINDS[ci % len(KINDS)]
            case_seed = chk.rng.getrandbits(48)
            rep = {"family": "feedback", "operator": name, "kind": kind, "case_seed": case_seed}
            try:
                case = gen_case(C05, pool, T, name, case_seed, kind)
                r = run_case(C05, case, pool)
            except Exception as e:        # the driver itself must not crash on a changed library
                chk.violation(f"feedback|escape|{name}|{kind}",
                              dict(rep, escaped=f"{type(e).__name__}: {e!r}"[:300],
                                   expected="no exception escapes from the library into the driver"), size=0)
                continue
            chk.cov["evaluations"] += 1
            per_op[name] += 1
            hist["kinds"][kind] += 1
            hist["styles"][case["style"]] += 1
            v = r["verdict"]
            st = r.get("st")
            if st:
                hist["nested_pushes"] += st["nested"]
                hist["nested_terminals"] += st["nested_terminal"]
                hist["max_depth"] = max(hist["max_depth"], st["maxdepth"])
                if st["nested"]:
                    hist["cases_with_nesting"] += 1
            if v == "list-semantics" and name in OBSERVED_ONLY:
                v = "observed_only_difference"
                hist["observed_only_differences"][name] = hist["observed_only_differences"].get(name, 0) + 1
            hist["verdicts"][v] = hist["verdicts"].get(v, 0) + 1
            if v == "ok":
                if st["nested"] and r["exp_msgs"] and len(case["xs"]) > 1 and name not in OBSERVED_ONLY:
                    nontrivial.add((name, kind, case["inst"]["coq"], show_queue(case), tuple(r["order"])))
                continue
            if v in ("unjudged", "observed_only_difference"):
                continue
            size = len(case["queue"]) + (st["nested"] if st else 0)
            rep.update(describe(case, r))
            if v == "list-semantics":
                chk.violation(f"feedback|list-semantics|{name}|{kind}",
                              dict(rep, **{"implementation (tag, kind, value)": show(r["got"]),
                                           "expected": show(r["exp_msgs"]),
                                           "oracle": "Python list computation of the operator over the source's "
                                                     "notifications in the order they were made (depth-first); tag "
                                                     "= position of the notification whose delivery was innermost "
                                                     "on the stack when the output reached the subscriber"}),
                              size=size)
            else:
                chk.violation(f"feedback|{v}|{name}|{kind}",
                              dict(rep, escaped=r["detail"],
                                   expected="the run ends and no exception escapes into the driver"), size=size)
    del k2.CALLS[:]
    del k2.RAISED[:]
    for name, reason in OBSERVED_ONLY.items():
        if hist["observed_only_differences"].get(name):
            chk.notes.append(f"feedback: {name}: {hist['observed_only_differences'][name]} difference(s) from the "
                             f"list computation under re-entrant input, coverage only ({reason})")
    chk.cov["feedback"] = {"cases": sum(per_op.values()), "per_operator": per_op, **hist,
                           "observed_only": dict(OBSERVED_ONLY), "distinct_nontrivial": len(nontrivial)}
    return len(nontrivial)


def replay(chk, C05, d, path, pool, T):
    name, kind = d["operator"], d["kind"]
    try:
        case = gen_case(C05, pool, T, name, d["case_seed"], kind)
        r = run_case(C05, case, pool)
    except Exception as e:
        r, case = dict(verdict="escape", detail=f"{type(e).__name__}: {e!r}"), None
    print(f"[C05] replay feedback  {name}  source: {kind}")
    if case is not None:
        print(f"  instance       : {case['inst']['coq']}")
        print(f"  notifications  : {show_queue(case)}   (order of making)")
        print(f"  nesting script : {case['script']}  ({case['style']})")
    if "order" in r:
        print(f"  made (position, depth): {r['order']}")
    if "got" in r:
        print(f"  implementation : {show(r['got'])}")
        print(f"  expected       : {show(r.get('exp_msgs'))}")
    if "detail" in r:
        print(f"  {r['verdict']}: {r['detail']}")
    if r["verdict"] in ("escape", "timeout") or (r["verdict"] == "list-semantics" and name not in OBSERVED_ONLY):
        print(f"VIOLATION property=C05 replay={path}")
        return 1
    print("[C05] the recorded case no longer fails on the current tree")
    return 0
