"""C09, ORACLE-ONLY family for the callback operators that no table covers.

harness/props/C09.py runs the callback operators that have Coq machines
(C05/C06 tables, multi-source table).  This module takes every remaining export
of `reactivex.operators` that accepts user code (and the cold factories of
`reactivex` mounted under flat_map, so that their callbacks run while the
pipeline processes a notification) and checks the property text directly:

  join, group_join           left / right duration selector
  expand                     mapper
  starmap, starmap_indexed   mapper
  pluck, pluck_attr          the element's __getitem__ / attribute lookup
  partition_indexed          predicate (two output observables)
  do_action, tap, do         on_next / on_error / on_completed
  zip_with_iterable (= zip_with_list)   the iterable's __next__
  average, sum               key_mapper
  min, max                   comparer
  min_by, max_by             key_mapper / comparer
  contains, sequence_equal   comparer
  flat_map(defer | using | generate | from_iterable | if_then | case | for_in |
           from_callable | create | publish/replay/publish_value(mapper) |
           multicast(subject_factory, mapper))
                             factory / condition / iterate / supplier / mapper
  concat_with_iterable, catch_with_iterable
                             the iterable's __next__ (hot inner sources)
  on_error_resume_next(first, factory, ...)
                             the source factories

The operator is mounted over hand-driven hot sources (`Src`; push() calls the
operator's observer directly and does not catch), one chosen callback raises a
fresh `Boom` at its k-th invocation (k = None: control), a seeded script of
notifications (static sources, duration observables, inner observables, group
subscriber actions, dispose) is run, and ONE global event log orders everything
crossing the boundary.  The oracle reads the log only.

No model is involved; the checks are statements of the property:
 (1) the Boom reaches the pipeline's subscriber as on_error, that very object,
     exactly once, as the first thing the subscriber sees after the raise;
 (2) nothing escapes from a push() (the emitter) or from a scheduled action;
 (3) the pipeline stops: nothing follows on the subscriber; every stream
     (subscriber, each subscription of a handed-out group) obeys N*(E|C)?; a
     group subscription that was live when the callback raised has received a
     terminal by the end of that step and receives no element after the raise;
 (4) release: at the first step-end after the raise at which no group
     subscription is live any more (RefCount: a live group subscriber may keep
     the sources alive), every subscription of every source (static, duration,
     inner, `using` resources) has been disposed; no source is subscribed and no
     user callback is invoked after the raise.
When the subscriber had already terminated or disposed before the raise
(group_join: groups outlive the outer subscription), (1) cannot apply and is
waived; (2)-(4) still apply."""
from __future__ import annotations

import datetime as _dt
import json

import lib

# --------------------------------------------------------------------------
# world: hot sources, injection, one global log


class Boom(Exception):
    """the injected callback exception"""


class SrcError(Exception):
    """an error notification pushed by a source of the script"""

    def __init__(self, code):
        super().__init__(f"source-error-{code}")
        self.code = code


class World:
    def __init__(self):
        self.step = 0
        self.seq = 0
        self.events = []       # (seq, step, kind, a, b)
        self.sources = {}      # name -> Src
        self.queue = []        # scheduled actions of the probe scheduler
        self.sched = None

    def rec(self, kind, a=None, b=None):
        self.seq += 1
        self.events.append((self.seq, self.step, kind, a, b))
        return self.seq

    def src(self, name):
        if name not in self.sources:
            self.sources[name] = Src(self, name)
        return self.sources[name]


class Src:
    """hot source driven by hand; logs every subscribe / dispose"""

    def __init__(self, world, name):
        import reactivex
        from reactivex.disposable import Disposable
        self.world, self.name = world, name
        self.observers = []      # [observer, live]

        def subscribe(observer, scheduler=None):
            idx = len(self.observers)
            rec = [observer, True]
            self.observers.append(rec)
            world.rec("sub", name, idx)

            def dispose():
                if rec[1]:
                    rec[1] = False
                    world.rec("unsub", name, idx)
            return Disposable(dispose)
        self.observable = reactivex.Observable(subscribe)

    def push(self, kind, payload=None):
        for rec in list(self.observers):
            if not rec[1]:
                continue
            o = rec[0]
            if kind == "N":
                o.on_next(payload)
            elif kind == "E":
                o.on_error(payload)
            else:
                o.on_completed()


class Resource:
    """disposable handed out by a `using` resource factory, tracked like a source"""

    def __init__(self, world, name):
        self.world, self.name, self.live = world, name, True
        world.rec("sub", name, 0)

    def dispose(self):
        if self.live:
            self.live = False
            self.world.rec("unsub", self.name, 0)


class Inj:
    """wraps user callbacks: counts invocations per callback name, raises a
    fresh Boom at the k-th invocation of the target"""

    def __init__(self, world, target, k, exc=None):
        self.world, self.target, self.k = world, target, k
        self.exc = exc            # None: Boom; else the name of an entry of c09_palette.PALETTE
        self.counts = {}
        self.failure = None

    def hit(self, name):
        n = self.counts[name] = self.counts.get(name, 0) + 1
        self.world.rec("call", name, n)
        if name == self.target and self.k is not None and n == self.k:
            if self.exc is None:
                exc = Boom(f"{name}#{n}")
            else:
                import c09_palette
                exc = c09_palette.make_exc(self.exc, f"{name}#{n}")
            seq = self.world.rec("raise", name, exc)
            self.failure = dict(seq=seq, step=self.world.step, exc=exc, cb=name, n=n)
            raise exc
        return n

    def wrap(self, name, fn):
        def w(*a, **kw):
            self.hit(name)
            return fn(*a, **kw)
        return w


class Rec:
    """element with user-level item / attribute access (pluck, pluck_attr)"""

    def __init__(self, inj, n):
        object.__setattr__(self, "_inj", inj)
        object.__setattr__(self, "_n", n)

    def __getitem__(self, key):
        self._inj.hit("getitem")
        return (key, self._n)

    def __getattr__(self, name):
        if name.startswith("_"):
            raise AttributeError(name)
        self._inj.hit("getattr")
        return (name, self._n)

    def __repr__(self):
        return f"Rec({self._n})"


EPOCH = _dt.datetime(1970, 1, 1, tzinfo=_dt.timezone.utc)


def make_sched(world):
    """probe scheduler: schedule() only enqueues; the driver runs the queue at
    the end of the current step and records what escapes from an action"""
    from reactivex.scheduler.periodicscheduler import PeriodicScheduler
    from reactivex.disposable import Disposable, SingleAssignmentDisposable

    class Probe(PeriodicScheduler):
        @property
        def now(self):
            return EPOCH

        def schedule(self, action, state=None):
            sad = SingleAssignmentDisposable()
            item = [action, state, sad, True]
            world.queue.append(item)

            def cancel():
                item[3] = False
                sad.dispose()
            return Disposable(cancel)

        def schedule_relative(self, duetime, action, state=None):
            return self.schedule(action, state)

        def schedule_absolute(self, duetime, action, state=None):
            return self.schedule(action, state)

        def drain(self):
            n = 0
            while world.queue and n < 2000:
                action, state, sad, live = world.queue.pop(0)
                if not live:
                    continue
                n += 1
                try:
                    ret = action(self, state)
                    if ret is not None and hasattr(ret, "dispose"):
                        sad.disposable = ret
                except Exception as e:      # an exception reached the scheduler
                    world.rec("sched_escape", e)
    world.sched = Probe()
    return world.sched


def val(inj, v):
    """script value -> python value"""
    if isinstance(v, list):
        return tuple(val(inj, x) for x in v)
    if isinstance(v, dict) and "rec" in v:
        return Rec(inj, v["rec"])
    return v


# --------------------------------------------------------------------------
# operator catalogue: name -> dict(cbs, build(world, inj, params) -> observable | [observables])


def _dur(world, inj, side, params):
    """duration selector of join / group_join: the i-th invocation returns a
    hot source d<side><i>, or a cold never() / empty() as params say"""
    import reactivex
    kinds = params.get("dur" + side) or ["hot"]
    cnt = [0]

    def sel(v):
        i = cnt[0]
        cnt[0] += 1
        kind = kinds[i % len(kinds)]
        if kind == "never":
            return reactivex.never()
        if kind == "empty":
            return reactivex.empty()
        return world.src(f"d{side}{i}").observable
    return inj.wrap({"L": "left_duration", "R": "right_duration"}[side], sel)


def b_join(world, inj, p):
    from reactivex import operators as ops
    return world.src("L").observable.pipe(
        ops.join(world.src("R").observable, _dur(world, inj, "L", p), _dur(world, inj, "R", p)))


def b_group_join(world, inj, p):
    from reactivex import operators as ops
    o = world.src("L").observable.pipe(
        ops.group_join(world.src("R").observable, _dur(world, inj, "L", p), _dur(world, inj, "R", p)))
    if p.get("mode") == "flat":
        o = o.pipe(ops.flat_map(lambda pair: pair[1].pipe(ops.map(lambda v: (pair[0], v)))))
    return o


def b_expand(world, inj, p):
    import reactivex
    from reactivex import operators as ops
    kinds = p.get("inner") or ["hot"]
    cnt = [0]

    def mapper(v):
        i = cnt[0]
        cnt[0] += 1
        kind = kinds[i % len(kinds)]
        if kind == "of" and isinstance(v, int) and v < 300:
            return reactivex.of(v + 100)
        if kind in ("of", "empty"):
            return reactivex.empty()
        return world.src(f"in{i}").observable
    return world.src("s").observable.pipe(ops.expand(inj.wrap("mapper", mapper)))


def _single(make):
    def build(world, inj, p):
        return world.src("s").observable.pipe(make(world, inj, p))
    return build


def _ops():
    from reactivex import operators as ops
    return ops


def b_do(world, inj, p):
    from reactivex.observer import Observer
    ob = Observer(inj.wrap("on_next", lambda v: None), inj.wrap("on_error", lambda e: None),
                  inj.wrap("on_completed", lambda: None))
    return world.src("s").observable.pipe(_ops().do(ob))


class CountingIter:
    def __init__(self, inj, n):
        self.inj, self.n, self.i = inj, n, 0

    def __iter__(self):
        return self

    def __next__(self):
        self.inj.hit("next")
        if self.i >= self.n:
            raise StopIteration
        self.i += 1
        return 10 + self.i


class FreshIterable:
    """an iterable whose every iter() is a fresh CountingIter (counts are shared)"""

    def __init__(self, inj, n):
        self.inj, self.n = inj, n

    def __iter__(self):
        return CountingIter(self.inj, self.n)


def _cmp_eq(a, b):
    return a == b


def _cmp_sub(a, b):
    return (a > b) - (a < b)


def _inner_factory(name):
    """cold factories of `reactivex`, mounted under flat_map so that their
    callbacks run while a source notification is processed"""
    def build(world, inj, p):
        import reactivex
        from reactivex import operators as ops
        from reactivex.subject import Subject
        rescnt = [0]

        def inner(v):
            base = v if isinstance(v, int) else 0
            if name == "defer":
                return reactivex.defer(inj.wrap("factory", lambda sch: reactivex.of(base, base + 1)))
            if name == "using":
                def resource():
                    i = rescnt[0]
                    rescnt[0] += 1
                    return Resource(world, f"res{i}")
                hot = p.get("hot_inner")

                def obsf(r):
                    return world.src(f"in{r.name[3:]}").observable if hot else reactivex.of(base)
                return reactivex.using(inj.wrap("resource_factory", resource), inj.wrap("observable_factory", obsf))
            if name == "generate":
                return reactivex.generate(base, inj.wrap("condition", lambda x: x < base + 2),
                                          inj.wrap("iterate", lambda x: x + 1))
            if name == "from_iterable":
                return reactivex.from_iterable(FreshIterable(inj, 2))
            if name == "if_then":
                return reactivex.if_then(inj.wrap("condition", lambda: base % 2 == 0), reactivex.of(base),
                                         reactivex.of(-base))
            if name == "case":
                return reactivex.case(inj.wrap("mapper", lambda: base % 2), {0: reactivex.of(base)},
                                      reactivex.of(-1))
            if name == "for_in":
                return reactivex.for_in([base, base + 1], inj.wrap("mapper", lambda x: reactivex.of(x)))
            if name == "from_callable":
                return reactivex.from_callable(inj.wrap("supplier", lambda: base))
            if name == "publish":
                return reactivex.of(base, base + 1).pipe(ops.publish(inj.wrap("mapper", lambda o: o.pipe(ops.take(1)))))
            if name == "replay":
                return reactivex.of(base, base + 1).pipe(ops.replay(1, mapper=inj.wrap("mapper", lambda o: o)))
            if name == "publish_value":
                return reactivex.of(base).pipe(ops.publish_value(7, inj.wrap("mapper", lambda o: o.pipe(ops.take(2)))))
            if name == "create":
                def subscribe(observer, scheduler=None):
                    observer.on_next(base)
                    observer.on_completed()
                return reactivex.create(inj.wrap("subscribe", subscribe))
            if name == "multicast":
                return reactivex.of(base, base + 1).pipe(ops.multicast(
                    subject_factory=inj.wrap("subject_factory", lambda sch: Subject()),
                    mapper=inj.wrap("mapper", lambda o: o)))
            raise KeyError(name)
        return world.src("s").observable.pipe(ops.flat_map(inner))
    return build


class SrcIterable:
    """iterable of hot sources in0, in1, ... (n of them); every __next__ is a user callback"""

    def __init__(self, world, inj, n):
        self.world, self.inj, self.n = world, inj, n

    def __iter__(self):
        it = self

        class It:
            i = 0

            def __iter__(self):
                return self

            def __next__(self):
                it.inj.hit("next")
                if self.i >= it.n:
                    raise StopIteration
                self.i += 1
                return it.world.src(f"in{self.i - 1}").observable
        return It()


def b_seq(name):
    def build(world, inj, p):
        import reactivex
        n = p.get("n", 3)
        if name == "concat_with_iterable":
            return reactivex.concat_with_iterable(SrcIterable(world, inj, n))
        if name == "catch_with_iterable":
            return reactivex.catch_with_iterable(SrcIterable(world, inj, n))
        # on_error_resume_next(first, factory, factory ...): a source may be a factory taking the last error
        facts = [inj.wrap("factory", (lambda e, i=i: world.src(f"in{i}").observable)) for i in range(1, n)]
        return reactivex.on_error_resume_next(world.src("in0").observable, *facts)
    return build


def _catalogue():
    C = {}
    for nm in ("concat_with_iterable", "catch_with_iterable"):
        C[nm] = dict(cbs=["next"], kind="seq", build=b_seq(nm))
    C["on_error_resume_next(factories)"] = dict(cbs=["factory"], kind="seq", build=b_seq("oern_factories"))
    C["join"] = dict(cbs=["left_duration", "right_duration"], build=b_join, kind="join")
    C["group_join"] = dict(cbs=["left_duration", "right_duration"], build=b_group_join, kind="join")
    C["expand"] = dict(cbs=["mapper"], build=b_expand, kind="expand")
    C["starmap"] = dict(cbs=["mapper"], kind="tuples2",
                        build=_single(lambda w, i, p: _ops().starmap(i.wrap("mapper", lambda a, b: (b, a)))))
    C["starmap_indexed"] = dict(cbs=["mapper"], kind="tuples3",
                                build=_single(lambda w, i, p: _ops().starmap_indexed(
                                    i.wrap("mapper", lambda a, b, n: (n, a, b)))))
    C["pluck"] = dict(cbs=["getitem"], kind="recs", build=_single(lambda w, i, p: _ops().pluck("x")))
    C["pluck_attr"] = dict(cbs=["getattr"], kind="recs", build=_single(lambda w, i, p: _ops().pluck_attr("x")))
    C["partition_indexed"] = dict(cbs=["predicate"], kind="outputs",
                                  build=lambda w, i, p: _ops().partition_indexed(
                                      i.wrap("predicate", lambda x, n: (x + n) % 2 == 0))(w.src("s").observable))
    for nm in ("do_action", "tap"):
        C[nm] = dict(cbs=["on_next", "on_error", "on_completed"], kind="plain",
                     build=_single(lambda w, i, p, nm=nm: getattr(_ops(), nm)(
                         i.wrap("on_next", lambda v: None), i.wrap("on_error", lambda e: None),
                         i.wrap("on_completed", lambda: None))))
    C["do"] = dict(cbs=["on_next", "on_error", "on_completed"], kind="plain", build=b_do)
    # zip_with_list is the same function object as zip_with_iterable
    C["zip_with_iterable"] = dict(cbs=["next"], kind="plain",
                                  build=_single(lambda w, i, p: _ops().zip_with_iterable(FreshIterable(i, p.get("n", 4)))))
    C["average"] = dict(cbs=["key_mapper"], kind="plain",
                        build=_single(lambda w, i, p: _ops().average(i.wrap("key_mapper", lambda x: x * 2))))
    C["sum"] = dict(cbs=["key_mapper"], kind="plain",
                    build=_single(lambda w, i, p: _ops().sum(i.wrap("key_mapper", lambda x: x * 2))))
    C["min"] = dict(cbs=["comparer"], kind="plain",
                    build=_single(lambda w, i, p: _ops().min(i.wrap("comparer", _cmp_sub))))
    C["max"] = dict(cbs=["comparer"], kind="plain",
                    build=_single(lambda w, i, p: _ops().max(i.wrap("comparer", _cmp_sub))))
    for nm in ("min_by", "max_by"):     # extrema_by called directly: key mapper and (sign-flipped for min) comparer
        C[nm] = dict(cbs=["key_mapper", "comparer"], kind="plain",
                     build=_single(lambda w, i, p, nm=nm: getattr(_ops(), nm)(
                         i.wrap("key_mapper", lambda x: x % 3), i.wrap("comparer", _cmp_sub))))
    C["contains"] = dict(cbs=["comparer"], kind="plain",
                         build=_single(lambda w, i, p: _ops().contains(99, i.wrap("comparer", _cmp_eq))))
    C["sequence_equal"] = dict(cbs=["comparer"], kind="two",
                               build=lambda w, i, p: w.src("s").observable.pipe(
                                   _ops().sequence_equal(w.src("R").observable, i.wrap("comparer", _cmp_eq))))
    FACT = {"defer": ["factory"], "using": ["resource_factory", "observable_factory"],
            "generate": ["condition", "iterate"], "from_iterable": ["next"], "if_then": ["condition"],
            "case": ["mapper"], "for_in": ["mapper"], "from_callable": ["supplier"], "publish": ["mapper"],
            "replay": ["mapper"], "publish_value": ["mapper"], "create": ["subscribe"],
            "multicast": ["subject_factory", "mapper"]}
    for nm, cbs in FACT.items():
        C[f"flat_map({nm})"] = dict(cbs=cbs, kind="factory", build=_inner_factory(nm))
    return C


CATALOGUE = _catalogue()
# exports of reactivex.operators that appear in no table and take no user callback (nothing to inject)
NO_CALLBACK = ["as_observable", "dematerialize", "exclusive", "observe_on", "subscribe_on", "ref_count", "share",
               "single_or_default_async", "skip_until", "take_until", "slice", "to_iterable", "to_marbles",
               "to_future", "publish_value/replay/publish/multicast without mapper"]
# with a callback, but it does not run while a notification is processed: checked elsewhere
ELSEWHERE = {"finally_action": "runs at dispose time, after the terminal was delivered (C40)"}


# --------------------------------------------------------------------------
# driver


def run_case(case):
    """case: dict(operator, callback, k, script, params).  script steps:
      ["src", name, "N", value] | ["src", name, "C"] | ["src", name, "E", code]
      ["gsub", g] | ["gunsub", g]     the subscriber subscribes to / disposes its subscription of group g
      ["dispose"]                     the subscriber disposes the pipeline subscription
    A step naming a source that does not exist (yet) or has no live observer is a no-op."""
    lib.import_repo()
    W = World()
    inj = Inj(W, case.get("callback"), case.get("k"), case.get("exc"))
    p = case.get("params") or {}
    spec = CATALOGUE[case["operator"]]
    sched = make_sched(W) if p.get("sched") else None
    groups = []            # g -> observable
    gsubs = {}             # g -> [dict(d=disposable|None, j)]
    policy = p.get("groups") or []
    build_error = None

    def subscribe_group(g):
        j = len(gsubs.setdefault(g, []))
        box = {"d": None, "j": j}
        gsubs[g].append(box)
        W.rec("gsub", g, j)
        box["d"] = groups[g].subscribe(lambda v: W.rec("gout", (g, j), ("N", v)),
                                       lambda e: W.rec("gout", (g, j), ("E", e)),
                                       lambda: W.rec("gout", (g, j), ("C", None)), scheduler=sched)

    def unsubscribe_group(g):
        for box in gsubs.get(g, []):
            if box["d"] is not None:
                d, box["d"] = box["d"], None
                W.rec("gunsub", g, box["j"])
                d.dispose()
                return

    def on_next(v):
        if isinstance(v, tuple) and len(v) == 2 and hasattr(v[1], "subscribe") and p.get("mode") != "flat":
            g = len(groups)
            groups.append(v[1])
            W.rec("hand", g, v[0])
            if (policy[g] if g < len(policy) else "imm") == "imm":
                subscribe_group(g)
        else:
            W.rec("out", "N", v)

    sub = None
    try:
        built = spec["build"](W, inj, p)
    except Exception as e:
        build_error = e
        built = None
    if build_error is None:
        try:
            if isinstance(built, list):       # operators returning a list of output observables
                groups.extend(built)
                for g in p.get("subscribed", [0, 1]):
                    subscribe_group(g)
            else:
                sub = built.subscribe(on_next, lambda e: W.rec("out", "E", e), lambda: W.rec("out", "C", None),
                                      scheduler=sched)
        except Exception as e:
            W.rec("escape", e)
        if sched is not None:
            sched.drain()
    W.rec("endstep")
    for st in case["script"]:
        W.step += 1
        try:
            if st[0] == "src":
                s = W.sources.get(st[1])
                if s is not None:
                    if st[2] == "N":
                        s.push("N", val(inj, st[3]))
                    elif st[2] == "E":
                        s.push("E", SrcError(st[3]))
                    else:
                        s.push("C")
            elif st[0] == "gsub":
                if st[1] < len(groups):
                    subscribe_group(st[1])
            elif st[0] == "gunsub":
                unsubscribe_group(st[1])
            elif st[0] == "dispose":
                if sub is not None:
                    W.rec("dispose")
                    sub.dispose()
                    sub = None
        except Exception as e:           # whoever emitted the notification sees the exception
            W.rec("escape", e)
        if sched is not None:
            sched.drain()
        W.rec("endstep")
    return {"events": W.events, "failure": inj.failure, "counts": dict(inj.counts), "build_error": build_error,
            "n_groups": len(groups)}


# --------------------------------------------------------------------------
# oracle (reads the event log only)


def _grammar(notes):
    """N*(E|C)? over [(seq, kind)] -> None | description"""
    done = None
    for (seq, kind) in notes:
        if done is not None:
            return f"{kind} (event {seq}) after the terminal {done[1]} (event {done[0]})"
        if kind in "EC":
            done = (seq, kind)
    return None


def analyse(res):
    ev = res["events"]
    outs = [(seq, step, a, b) for (seq, step, kind, a, b) in ev if kind == "out"]
    gs = {}      # (g, j) -> dict(sub=seq, step=.., notes=[(seq, step, kind, payload)], unsub=seq|None)
    for (seq, step, kind, a, b) in ev:
        if kind == "gsub":
            gs[(a, b)] = dict(sub=seq, step=step, notes=[], unsub=None)
        elif kind == "gunsub":
            gs[(a, b)]["unsub"] = seq
        elif kind == "gout":
            gs[a]["notes"].append((seq, step, b[0], b[1]))
    srcs = {}    # (name, idx) -> [sub seq, unsub seq|None]
    for (seq, step, kind, a, b) in ev:
        if kind == "sub":
            srcs[(a, b)] = [seq, None]
        elif kind == "unsub":
            srcs[(a, b)][1] = seq
    ends = [(seq, step) for (seq, step, kind, a, b) in ev if kind == "endstep"]
    return dict(outs=outs, gs=gs, srcs=srcs, ends=ends,
                escapes=[(seq, step, a) for (seq, step, kind, a, b) in ev if kind == "escape"],
                sched_escapes=[(seq, step, a) for (seq, step, kind, a, b) in ev if kind == "sched_escape"],
                calls=[(seq, step, a, b) for (seq, step, kind, a, b) in ev if kind == "call"],
                dispose=[seq for (seq, step, kind, a, b) in ev if kind == "dispose"])


def _gsub_closed_at(g, seq):
    """is the group subscription over (terminal received or disposed by its subscriber) at event seq?"""
    if g["unsub"] is not None and g["unsub"] <= seq:
        return True
    return any(k in "EC" and s <= seq for (s, _, k, _) in g["notes"])


def oracle(case, res):
    """-> (problems [(slug, text)], info dict)"""
    A = analyse(res)
    F = res["failure"]
    probs = []
    info = {"raised": F is not None, "deliverable": False, "delivered": False, "earlier": 0}
    if res["build_error"] is not None:
        return [("build-error", f"building the operator raised {res['build_error']!r}")], info
    outputs_mode = CATALOGUE.get(case["operator"], {}).get("kind") == "outputs"
    # ---- grammar of every stream, any case (the property says it STILL holds)
    g = _grammar([(s, k) for (s, _, k, _) in A["outs"]])
    if g:
        probs.append(("grammar-subscriber", "subscriber: " + g))
    for key, gsub in sorted(A["gs"].items()):
        notes = [(s, k) for (s, _, k, _) in gsub["notes"] if gsub["unsub"] is None or s < gsub["unsub"]]
        g = _grammar(notes)
        if g:
            probs.append(("grammar-group", f"group {key[0]} subscription {key[1]}: " + g))
    if F is None:
        if A["escapes"] or A["sched_escapes"]:
            probs.append(("control-escape", f"no callback raised, yet {A['escapes'] or A['sched_escapes']} escaped"))
        return probs, info
    fs, fstep, exc = F["seq"], F["step"], F["exc"]
    info["earlier"] = (sum(1 for o in A["outs"] if o[0] < fs)
                       + sum(1 for gsub in A["gs"].values() for n in gsub["notes"] if n[0] < fs))
    # ---- (2) nothing reaches the emitter or a scheduler
    for (s, st, e) in A["escapes"]:
        probs.append(("escaped-into-emitter", f"step {st}: {e!r} propagated out of the push (event {s})"))
    for (s, st, e) in A["sched_escapes"]:
        probs.append(("escaped-into-scheduler", f"step {st}: {e!r} propagated out of a scheduled action (event {s})"))
    # ---- (1) delivery, (3) stop
    if outputs_mode:
        # every output subscription is a pipeline of its own; the one whose predicate invocation raised must
        # get the error (the log cannot tell which one it was: exactly one live output gets that object)
        got = [(key, n) for key, gsub in A["gs"].items() for n in gsub["notes"] if n[3] is exc]
        live = [key for key, gsub in A["gs"].items() if not _gsub_closed_at(gsub, fs)]
        info["deliverable"] = bool(live)
        if live:
            if len(got) != 1 or got[0][1][2] != "E":
                probs.append(("not-delivered", f"{exc!r} raised at step {fstep}; deliveries of that object to the "
                                               f"output subscribers: {[(k, n[2]) for k, n in got]}"))
            else:
                info["delivered"] = True
                key, n = got[0]
                after = [m for m in A["gs"][key]["notes"] if m[0] > n[0]]
                if after:
                    probs.append(("notification-after-failure", f"output {key[0]} received {after[0][2]} after the error"))
    else:
        ended_before = any(k in "EC" and s < fs for (s, _, k, _) in A["outs"]) or any(d < fs for d in A["dispose"])
        info["deliverable"] = not ended_before
        after = [o for o in A["outs"] if o[0] > fs]
        same = [o for o in A["outs"] if o[3] is exc]
        if not ended_before:
            if not after:
                probs.append(("not-delivered", f"{exc!r} raised in {F['cb']} at step {fstep}: the subscriber "
                                               f"received nothing afterwards"))
            elif not (after[0][2] == "E" and after[0][3] is exc):
                probs.append(("not-delivered", f"{exc!r} raised in {F['cb']} at step {fstep}: the subscriber's next "
                                               f"notification is {after[0][2]} {after[0][3]!r}"))
            else:
                info["delivered"] = True
                if len(same) != 1:
                    probs.append(("delivered-twice", f"the exception object was delivered {len(same)} times"))
                if len(after) > 1:
                    probs.append(("notification-after-failure",
                                  f"after on_error the subscriber received {after[1][2]} {after[1][3]!r} at step {after[1][1]}"))
        elif after:
            probs.append(("notification-after-failure", f"subscriber ended before the raise yet received {after[0][2]}"))
    # end of the failing step
    fend = next(s for (s, st) in A["ends"] if st == fstep)
    if not outputs_mode:
        for key, gsub in sorted(A["gs"].items()):
            if gsub["sub"] < fs and not _gsub_closed_at(gsub, fs) and not _gsub_closed_at(gsub, fend):
                held = sorted(f"{n}#{i}" for (n, i), v in A["srcs"].items() if v[1] is None)
                probs.append(("group-not-terminated",
                              f"group {key[0]} (subscribed at step {gsub['step']}, live when {F['cb']} raised at step "
                              f"{fstep}) received no terminal notification in that step"
                              + (f"; source subscriptions never disposed in this run: {held}" if held else "")))
            late = [n for n in gsub["notes"] if n[0] > fs and n[2] == "N" and (gsub["unsub"] is None or n[0] < gsub["unsub"])]
            if late:
                probs.append(("group-element-after-failure",
                              f"group {key[0]} received element {late[0][3]!r} at step {late[0][1]}, after the failure"))
    # ---- (4) release
    if outputs_mode:
        # the other output is a pipeline of its own (same predicate): it may go on, one invocation per element
        others_live = sum(1 for gsub in A["gs"].values() if not _gsub_closed_at(gsub, fs)) > 1
        quiet = None
        for (s, st) in A["ends"]:
            if s >= fend and quiet is None and all(_gsub_closed_at(gsub, s) for gsub in A["gs"].values()):
                quiet = s
        n_after = sum(1 for c in A["calls"] if c[0] > fs)
        pushes = sum(1 for i, st in enumerate(case["script"]) if i + 1 >= fstep and st[0] == "src" and st[2] == "N")
        if n_after > (pushes if others_live else 0):
            probs.append(("callback-after-failure", f"{n_after} predicate invocations after the failure "
                                                    f"({pushes} elements from the failing one on, other output "
                                                    f"live: {others_live})"))
    else:
        quiet = None
        for (s, st) in A["ends"]:
            if s >= fend and all(_gsub_closed_at(gsub, s) for gsub in A["gs"].values() if gsub["sub"] <= s):
                quiet = s
                break
        later_calls = [c for c in A["calls"] if c[0] > fs]
        if later_calls:
            c = later_calls[0]
            probs.append(("callback-after-failure", f"user callback {c[2]} (invocation {c[3]}) ran at step {c[1]}, "
                                                    f"after {F['cb']} had raised at step {fstep}"))
    new_subs = [(k, v) for k, v in A["srcs"].items() if v[0] > fs]
    if new_subs and not outputs_mode:
        probs.append(("subscribed-after-failure", f"source {new_subs[0][0][0]} was subscribed after the failure"))
    if quiet is not None:
        leaked = sorted(k for k, v in A["srcs"].items() if v[0] <= quiet and (v[1] is None or v[1] > quiet))
        if leaked:
            probs.append(("source-still-subscribed",
                          f"{F['cb']} raised at step {fstep}; with no group subscription live any more, still "
                          f"subscribed: {[f'{n}#{i}' for n, i in leaked]}"))
    return probs, info


# --------------------------------------------------------------------------
# generators (seeded)


def _terminal(rng, name, p_err=0.35):
    return ["src", name, "E", rng.choice([11, 12])] if rng.random() < p_err else ["src", name, "C"]


def gen_join(rng, op):
    p = {"durL": [rng.choice(["hot", "hot", "hot", "never", "empty"]) for _ in range(3)],
         "durR": [rng.choice(["hot", "hot", "hot", "never", "empty"]) for _ in range(3)]}
    if op == "group_join":
        p["mode"] = "direct" if rng.random() < 0.65 else "flat"
        p["groups"] = [rng.choice(["imm", "imm", "imm", "late", "never"]) for _ in range(6)]
    n = rng.choice([3, 4, 5, 6, 8, 10, 12])
    script, cnt, ended, handed = [], {"L": 0, "R": 0}, set(), 0
    for _ in range(n):
        r = rng.random()
        if r < 0.62:
            side = rng.choice("LR")
            cnt[side] += 1
            script.append(["src", side, "N", (cnt[side] if side == "L" else "abcdefghijklmnop"[cnt[side] - 1])])
        elif r < 0.80 and (cnt["L"] or cnt["R"]):
            side = rng.choice([s for s in "LR" if cnt[s]])
            i = rng.randrange(cnt[side])
            k = rng.random()
            script.append(["src", f"d{side}{i}", "N", 0] if k < 0.55 else
                          (["src", f"d{side}{i}", "C"] if k < 0.9 else ["src", f"d{side}{i}", "E", 13]))
        elif r < 0.88:
            side = rng.choice("LR")
            if side not in ended and rng.random() < 0.7:
                ended.add(side)
                script.append(_terminal(rng, side, 0.25))
            else:
                cnt[side] += 1
                script.append(["src", side, "N", (cnt[side] if side == "L" else "abcdefghijklmnop"[cnt[side] - 1])])
        elif r < 0.97 and op == "group_join" and p["mode"] == "direct" and cnt["L"]:
            g = rng.randrange(cnt["L"])
            script.append([rng.choice(["gsub", "gsub", "gunsub"]), g])
        elif r >= 0.97:
            script.append(["dispose"])
        else:
            cnt["L"] += 1
            script.append(["src", "L", "N", cnt["L"]])
    return p, script


def _values(rng, kind, i):
    if kind == "tuples2":
        return [i, i + 10]
    if kind == "tuples3":
        return [i, i + 10, i - 1]
    if kind == "recs":
        return {"rec": i}
    return rng.choice([i, i, 99, 1])


def gen_plain(rng, op):
    kind = CATALOGUE[op]["kind"]
    p = {}
    if op.startswith("zip_with"):
        p["n"] = rng.choice([2, 3, 5])
    if op == "flat_map(using)":
        p["hot_inner"] = rng.random() < 0.5
    if kind == "outputs":
        p["subscribed"] = rng.choice([[0], [1], [0, 1], [0, 1], [1, 0]])
    p["sched"] = rng.random() < 0.35 and kind in ("factory", "plain", "expand")
    n = rng.choice([1, 2, 3, 4, 5, 6])
    script = []
    for i in range(1, n + 1):
        script.append(["src", "s", "N", _values(rng, kind, i)])
        if kind == "two" and rng.random() < 0.8:
            script.append(["src", "R", "N", rng.choice([i, i, 99])])
        if op == "flat_map(using)" and p["hot_inner"] and rng.random() < 0.6:
            j = rng.randrange(i)
            script.append(["src", f"in{j}", "N", 50 + j] if rng.random() < 0.6 else ["src", f"in{j}", "C"])
    if kind == "two":
        rng.shuffle(script)
    r = rng.random()
    if r < 0.75:
        script.append(_terminal(rng, "s"))
        if kind == "two" and rng.random() < 0.7:
            script.append(_terminal(rng, "R", 0.2))
    if rng.random() < 0.25:       # the source goes on after the point where the pipeline may have stopped
        script.append(["src", "s", "N", _values(rng, kind, n + 1)])
    if kind == "outputs" and rng.random() < 0.3:
        script.insert(rng.randrange(len(script) + 1), ["gunsub", rng.choice(p["subscribed"])])
    return p, script


def gen_expand(rng, op):
    p = {"inner": [rng.choice(["hot", "hot", "of", "empty"]) for _ in range(4)], "sched": rng.random() < 0.4}
    n = rng.choice([2, 3, 4, 6, 8])
    script, made = [], 0
    for _ in range(n):
        r = rng.random()
        if r < 0.5 or not made:
            made += 1
            script.append(["src", "s", "N", made])
        elif r < 0.85:
            i = rng.randrange(made + 2)
            made += 1
            script.append(["src", f"in{i}", "N", 20 + i])
        elif r < 0.95:
            script.append(["src", f"in{rng.randrange(made + 1)}", "C"])
        else:
            script.append(_terminal(rng, "s"))
    return p, script


def gen_seq(rng, op):
    p = {"n": rng.choice([2, 3, 4]), "sched": rng.random() < 0.4}
    script = []
    for i in range(rng.choice([1, 2, 3, 4])):
        for _ in range(rng.choice([0, 1, 1, 2])):
            script.append(["src", f"in{i}", "N", 10 * i + len(script)])
        if op.startswith("concat"):
            script.append(_terminal(rng, f"in{i}", 0.15))
        elif op.startswith("catch"):
            script.append(_terminal(rng, f"in{i}", 0.8))
        else:
            script.append(_terminal(rng, f"in{i}", 0.5))
        if rng.random() < 0.15:
            script.append(["src", f"in{i}", "N", 99])      # a source going on after its terminal
    return p, script


def gen_case(rng, op, control=False):
    spec = CATALOGUE[op]
    gen = {"join": gen_join, "expand": gen_expand, "seq": gen_seq}.get(spec["kind"], gen_plain)
    p, script = gen(rng, op)
    cb = rng.choice(spec["cbs"])
    k = None if control else rng.choice([1, 1, 2, 2, 3])
    if cb in ("on_error", "on_completed"):
        k = None if control else 1
        # make the terminal the callback needs likely
        script = [s for s in script if not (s[0] == "src" and s[1] == "s" and s[2] in "EC")]
        script.append(["src", "s", "E", 11] if cb == "on_error" else ["src", "s", "C"])
    return {"family": "rest", "operator": op, "callback": cb, "k": k, "params": p, "script": script}


# --------------------------------------------------------------------------
# the family


def shrink(case, slugs):
    """greedy: drop script steps while every oracle clause that failed still fails"""
    slugs = set(slugs)
    cur = case
    for k in range(1, (case.get("k") or 1)):          # an earlier invocation, if the same clauses fail there
        cand = dict(cur, k=k)
        try:
            probs, _ = oracle(cand, run_case(cand))
        except Exception:
            probs = []
        if slugs <= {s for s, _ in probs}:
            cur = cand
            break
    changed = True
    rounds = 0
    while changed and rounds < 6:
        changed = False
        rounds += 1
        i = 0
        while i < len(cur["script"]):
            cand = dict(cur, script=cur["script"][:i] + cur["script"][i + 1:])
            try:
                probs, _ = oracle(cand, run_case(cand))
            except Exception:
                probs = []
            if slugs <= {s for s, _ in probs}:
                cur = cand
                changed = True
            else:
                i += 1
    return cur


def describe(case, res, probs):
    def show(x):
        return repr(x) if not isinstance(x, (int, str, type(None))) else x
    ev = [f"{seq} step={step} {kind} {show(a)} {show(b)}" for (seq, step, kind, a, b) in res["events"]
          if kind != "endstep"]
    return {"rest_case": case, "operator": case["operator"], "callback": case["callback"], "k": case["k"],
            "script": "; ".join(" ".join(str(x) for x in st) for st in case["script"]),
            "what": [t for _, t in probs],
            "event log (seq step kind a b)": ev,
            "legend": "step 0 = subscribe; sub/unsub = a source subscription opened/disposed; call/raise = user "
                      "callback invoked/raised; out = notification to the pipeline's subscriber; hand = group handed "
                      "to the subscriber; gsub/gout/gunsub = the subscriber's subscription of a group"}


def run_family(chk):
    """oracle-only family; fills chk.cov['uncovered_callback_operators'] and returns the set of distinct
    non-trivial cases"""
    quick = chk.tier == "quick"
    rng = chk.rng
    per_cb, k_hist = {}, {"k=1": 0, "k>1": 0, "control": 0, "not_reached": 0}
    direct = {"group_join cases subscribing groups directly": 0, "group_join cases through flat_map": 0}
    nontrivial = set()
    anomalies = []
    undeliverable = 0
    weights = {"join": 6, "group_join": 14, "expand": 3}
    base = 100 if quick else 1200
    for op, spec in CATALOGUE.items():
        n = base * weights.get(op, 1)
        for ci in range(n):
            control = ci % 7 == 6
            case = gen_case(rng, op, control)
            res = run_case(case)
            probs, info = oracle(case, res)
            chk.cov["evaluations"] += 1
            key = f"{op}:{case['callback']}"
            st = per_cb.setdefault(key, {"cases": 0, "raised": 0, "delivered": 0})
            st["cases"] += 1
            if op == "group_join":
                direct["group_join cases subscribing groups directly" if case["params"]["mode"] == "direct"
                       else "group_join cases through flat_map"] += 1
            if case["k"] is None:
                k_hist["control"] += 1
            elif not info["raised"]:
                k_hist["not_reached"] += 1
            else:
                k_hist["k=1" if case["k"] == 1 else "k>1"] += 1
                st["raised"] += 1
                if not info["deliverable"]:
                    undeliverable += 1
                if info["delivered"]:
                    st["delivered"] += 1
            if probs and not info["raised"]:
                # no callback raised: outside the property (harness self-check); recorded, not a violation
                if len(anomalies) < 5:
                    anomalies.append({"case": case, "what": [t for _, t in probs]})
                continue
            if probs:
                slug = probs[0][0]
                small = shrink(case, [slug])               # smallest script failing the same clause
                sres = run_case(small)
                sprobs, _ = oracle(small, sres)
                if not sprobs or sprobs[0][0] != slug:
                    small, sres, sprobs = case, res, probs
                rep = describe(small, sres, sprobs)
                fuller = shrink(case, [s for s, _ in probs])   # smallest script failing every clause that failed
                if len(fuller["script"]) > len(small["script"]):
                    fprobs, _ = oracle(fuller, run_case(fuller))
                    rep["longer run of the same case, every failing clause kept"] = {
                        "script": "; ".join(" ".join(str(x) for x in st) for st in fuller["script"]),
                        "what": [t for _, t in fprobs]}
                chk.violation(f"rest|{op}|{case['callback']}|{slug}", rep, size=len(small["script"]))
            elif info["delivered"] and info["earlier"] >= 1:
                nontrivial.add(json.dumps([op, case["callback"], case["k"], case["params"], case["script"]],
                                          sort_keys=True))
            if ci < 1 and info["delivered"]:
                chk.add_samples([{"rest_case": {k: case[k] for k in ("operator", "callback", "k", "script")},
                                  "subscriber": [[s, k, repr(v)] for (_, s, k, v) in analyse(res)["outs"]]}], limit=8)
    chk.cov["uncovered_callback_operators"] = {
        "catalogue": {op: spec["cbs"] for op, spec in CATALOGUE.items()},
        "exports_without_user_callback (nothing to inject)": NO_CALLBACK,
        "checked_elsewhere": ELSEWHERE,
        "per (operator:callback)": per_cb,
        "exception_position": k_hist,
        "raised_but_subscriber_already_ended (delivery clause waived)": undeliverable,
        "group_subscription_mode": direct,
        "distinct_nontrivial": len(nontrivial),
        "rule": "non-trivial = the injected exception was raised and delivered as on_error (same object), at least "
                "one notification (subscriber or group) preceded the raise, and every clause of the oracle held; "
                "distinct by (operator, callback, k, params, script)",
        "control_anomalies (no callback raised; not a C09 verdict)": anomalies,
    }
    return nontrivial


def replay_case(chk, d, path):
    case = d["rest_case"]
    res = run_case(case)
    probs, info = oracle(case, res)
    out = describe(case, res, probs)
    out["oracle"] = [f"{s}: {t}" for s, t in probs] or "holds"
    print(json.dumps(out, indent=1, default=repr))
    if probs and info["raised"]:
        print(f"VIOLATION property=C09 replay={path}")
        return 1
    return 0
