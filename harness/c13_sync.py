"""C13 -- oracle-only family `sync_scenarios`: the five combinators over cold / synchronous / re-entrant sources.

Every other C13 case drives hand-held hot sources.  Here the sources are members of a small set:

  {"kind": "cold", "prefix": [...], "end": "C" | "E" | "open"}
        an Observable over a logging subscribe function: the subscription receives the prefix synchronously, INSIDE
        subscribe(), then completes / errors / stays open; an open subscription receives what the script pushes later
  {"kind": "hot"}
        a Subject (logging subscribe / unsubscribe); it remembers its termination
  {"kind": "future", "end": "C" | "E", "value": v}
        an already finished concurrent.futures.Future (zip: any position, ops.amb: the argument) -- delivers its result
        and completes, or errors, inside subscribe()

  script step:  ["push", m, v] | ["complete", m] | ["error", m] | ["dispose"]
  feedback:     {"<i>": [step, ...]}: the subscriber performs these steps from INSIDE its on_next for the i-th element it
                receives (i from 0) -- re-entrant pushes into the sources (a "dispose" inside the subscribe() call is
                skipped on both sides: the subscriber does not hold the disposable yet)

The reference (`Ref`) is the property text executed directly -- the five pairing rules, nothing about the code:
  zip               tuple of the k-th elements once every source produced its k-th; completes when a completed source
                    has no buffered element left
  combine_latest    tuple of the latest values on each element once all sources have emitted
  with_latest_from  only on primary elements, once every other source has a value
  fork_join         tuple of the last values when all complete; completes at once when one completes empty
  amb               mirrors the first source to notify; the others are unsubscribed at that moment
plus what every operator of the library does with the parts the statement is silent about: the first error of a
source that is listened to ends the output with that error; combine_latest completes when all sources have,
with_latest_from when the primary has.  Left open, and therefore taken from the run under judgement:
  * the ORDER in which the operator subscribes its sources during subscribe() (it decides which synchronous prefix is
    seen first; with_latest_from subscribes the others first, rx.amb its last argument first): the reference is run
    with the observed order, which must be a duplicate-free enumeration of the sources -- complete unless the output
    ended (amb: a winner was found) before;
  * combine_latest once a source completed without ever emitting (no tuple can follow): it may complete at any moment
    from then on, and must have once all sources completed.
Judged: the subscriber's notifications with the script step at which they arrive; after every step, nothing is
subscribed any more once the output ended / was disposed, and amb's losers are not subscribed once a winner notified
(sets at the END of a step, not instants: zip and fork_join subscribe the remaining sources after a synchronous end and
drop them when subscribe() returns)."""
import copy

import lib

OPS = ["zip", "combine_latest", "with_latest_from", "fork_join", "amb"]
VALUES = [0, None, "", False, 1, 2, 3, "a", "b"]


# --------------------------------------------------------------------------------------------- generator
def gen(rng):
    op = rng.choice(OPS)
    form = rng.choice(["rx", "ops"])
    n = rng.choice([1, 2, 2, 2, 3, 3, 4])
    if op == "amb" and form == "ops":
        n = 2
    members = []
    for i in range(n):
        r = rng.random()
        fut_ok = (op == "zip" and (form == "rx" or i >= 1)) or (op == "amb" and form == "ops" and i == 1)
        if fut_ok and r < 0.12:
            members.append({"kind": "future", "end": rng.choice(["C", "C", "C", "E"]), "value": rng.choice(VALUES)})
        elif r < 0.62:
            members.append({"kind": "cold",
                            "prefix": [rng.choice(VALUES) for _ in range(rng.choice([0, 0, 1, 1, 1, 2, 3]))],
                            "end": rng.choice(["C", "C", "C", "open", "open", "open", "open", "E"])})
        else:
            members.append({"kind": "hot"})

    def action(allow_dispose=True):
        r = rng.random()
        m = rng.randrange(n)
        if r < 0.62:
            return ["push", m, rng.choice(VALUES)]
        if r < 0.87:
            return ["complete", m]
        if r < 0.94:
            return ["error", m]
        return ["dispose"] if allow_dispose else ["complete", m]
    script = [action() for _ in range(rng.choice([0, 2, 4, 6, 8, 10, 12]))]
    feedback = {}
    if rng.random() < 0.55:
        for _ in range(rng.choice([1, 1, 2, 3])):
            feedback[str(rng.choice([0, 0, 1, 2, 3]))] = [action(rng.random() < 0.5) for _ in range(rng.choice([1, 1, 2]))]
    return {"op": op, "form": form, "members": members, "script": script, "feedback": feedback}


# --------------------------------------------------------------------------------------------- the real operators
def run_impl(case):
    """-> dict(notes [(step, kind, payload)], order [members in the order subscribed during subscribe()],
               subs [(step, member)] every subscription, held {step: [members still subscribed after the step]})"""
    import concurrent.futures
    import reactivex as rx
    from reactivex import operators as ops
    from reactivex.disposable import Disposable
    from reactivex.subject import Subject
    op, form, specs = case["op"], case["form"], case["members"]
    script, feedback = case["script"], case.get("feedback", {})
    n = len(specs)
    step = [-1]
    notes, subs = [], []
    live = [0] * n

    def logged(m, inner_dispose):
        subs.append((step[0], m))
        live[m] += 1

        def dispose():
            live[m] -= 1
            inner_dispose()
        return Disposable(dispose)         # Disposable runs its action once

    class LoggedSubject(Subject):
        def __init__(self, m):
            super().__init__()
            self.m = m

        def _subscribe_core(self, observer, scheduler=None):
            holder = []
            d = logged(self.m, lambda: holder[0].dispose())
            holder.append(super()._subscribe_core(observer, scheduler))
            return d

    class Cold:
        def __init__(self, m, spec):
            self.m, self.spec, self.subs = m, spec, []
            self.observable = rx.Observable(self.subscribe)

        def subscribe(self, observer, scheduler=None):
            rec = [observer]
            d = logged(self.m, lambda: self.subs.remove(rec) if rec in self.subs else None)
            self.subs.append(rec)
            for v in self.spec["prefix"]:
                observer.on_next(v)
            if self.spec["end"] == "C":
                observer.on_completed()
            elif self.spec["end"] == "E":
                observer.on_error(Exception(f"member{self.m}"))
            return d

        def on_next(self, v):
            for rec in list(self.subs):
                rec[0].on_next(v)

        def on_completed(self):
            for rec in list(self.subs):
                rec[0].on_completed()

        def on_error(self, e):
            for rec in list(self.subs):
                rec[0].on_error(e)

    class LoggedFuture(concurrent.futures.Future):
        def __init__(self, m):
            super().__init__()
            self.m = m

        def add_done_callback(self, fn):    # from_future's subscribe: the moment the future is "subscribed"
            subs.append((step[0], self.m))
            super().add_done_callback(fn)

    def make(m, s):
        if s["kind"] == "hot":
            return LoggedSubject(m)
        if s["kind"] == "future":
            f = LoggedFuture(m)
            if s["end"] == "C":
                f.set_result(s["value"])
            else:
                f.set_exception(Exception(f"member{m}"))
            return f
        return Cold(m, s)
    members = [make(m, s) for m, s in enumerate(specs)]
    src = [x.observable if isinstance(x, Cold) else x for x in members]
    if form == "rx":
        o = getattr(rx, op)(*src)
    else:
        o = src[0].pipe(getattr(ops, op)(*src[1:]))
    sub = [None]
    count = [0]

    def do(st):
        try:
            if st[0] == "dispose":
                if sub[0] is not None:
                    sub[0].dispose()
            elif specs[st[1]]["kind"] == "future":
                pass
            elif st[0] == "push":
                members[st[1]].on_next(st[2])
            elif st[0] == "complete":
                members[st[1]].on_completed()
            elif st[0] == "error":
                members[st[1]].on_error(Exception(f"member{st[1]}"))
            else:
                raise AssertionError(st)
        except AssertionError:
            raise
        except Exception as e:                      # the script's calls never raise on a correct tree
            notes.append((step[0], "RAISED", repr(e)))

    def on_next(v):
        notes.append((step[0], "N", v))
        i = count[0]
        count[0] += 1
        for st in feedback.get(str(i), []):
            do(st)
    held = {}

    def snapshot():
        held[step[0]] = [m for m in range(n) if live[m] > 0]
    try:
        sub[0] = o.subscribe(on_next, lambda e: notes.append((step[0], "E", str(e))),
                             lambda: notes.append((step[0], "C", None)))
    except Exception as e:
        notes.append((-1, "RAISED", repr(e)))
    snapshot()
    for k, st in enumerate(script):
        step[0] = k
        do(st)
        snapshot()
    return {"notes": notes, "order": [m for (k, m) in subs if k == -1], "subs": subs, "held": held}


# --------------------------------------------------------------------------------------------- the property text
class Ref:
    def __init__(self, case, order, impl_notes):
        self.case = case
        self.op = case["op"]
        self.specs = case["members"]
        self.n = n = len(self.specs)
        self.feedback = case.get("feedback", {})
        self.order = order
        self.impl_notes = impl_notes            # consulted ONLY for the moment of combine_latest's optional completion
        self.step = -1
        self.out = []
        self.nout = 0
        self.live = True                        # the output has not ended and was not disposed
        self.listening = set()                  # sources the operator is listening to
        self.hot = {m: "open" for m, s in enumerate(self.specs) if s["kind"] == "hot"}
        self.winner = None
        self.q = [[] for _ in range(n)]
        self.done = [False] * n
        self.has = [False] * n
        self.val = [None] * n
        self.finished_at = None                 # step at which the output ended / was disposed
        self.winner_at = None
        self.facts = set()
        self.problems = []                      # about the subscription order handed in

    # -- output side
    def emit(self, v):
        self.out.append((self.step, "N", v))
        i = self.nout
        self.nout += 1
        for st in self.feedback.get(str(i), []):
            self.facts.add("feedback_in_subscribe" if self.step == -1 else "feedback")
            self.act(st)

    def end(self, kind, payload):
        if self.live:
            self.out.append((self.step, kind, payload))
            self.stop()

    def stop(self):
        self.live = False
        self.listening.clear()
        if self.finished_at is None:
            self.finished_at = self.step

    # -- source side
    def act(self, st):
        if st[0] == "dispose":
            if self.step == -1:
                return                          # inside subscribe(): the subscriber has nothing to dispose yet
            if self.live:
                self.facts.add("disposed")
                self.stop()
            return
        m = st[1]
        spec = self.specs[m]
        if spec["kind"] == "future":
            return
        ev = ("N", st[2]) if st[0] == "push" else ("C", None) if st[0] == "complete" else ("E", f"member{m}")
        if spec["kind"] == "hot":
            if self.hot[m] != "open":
                return                          # a terminated Subject is silent
            if ev[0] != "N":
                self.hot[m] = ev[0]             # ... and remembers its end, whoever listens
        if m in self.listening:
            self.deliver(m, ev)

    def subscribe_member(self, m):
        spec = self.specs[m]
        if not self.live or (self.op == "amb" and self.winner is not None):
            return                              # may be subscribed and dropped: nothing it says counts
        self.listening.add(m)
        if spec["kind"] == "hot":
            if self.hot[m] != "open":           # ended by a feedback step before it was subscribed
                self.deliver(m, (self.hot[m], None if self.hot[m] == "C" else f"member{m}"))
            return
        prefix = spec["prefix"] if spec["kind"] == "cold" else ([spec["value"]] if spec["end"] == "C" else [])
        if prefix:
            self.facts.add("synchronous_element")
        for v in prefix:
            if m in self.listening:
                self.deliver(m, ("N", v))
        if spec["end"] in ("C", "E") and m in self.listening:
            self.facts.add("synchronous_end")
            self.deliver(m, (spec["end"], None if spec["end"] == "C" else f"member{m}"))

    def deliver(self, m, ev):
        kind, v = ev
        if kind != "N":
            self.listening.discard(m)           # the source is over
        op = self.op
        if op == "amb":
            if self.winner is None:
                self.winner, self.winner_at = m, self.step
                self.listening &= {m}           # the others are unsubscribed at that moment
                if self.step == -1:
                    self.facts.add("amb_decided_in_subscribe")
            if m == self.winner:
                self.emit(v) if kind == "N" else self.end(kind, v)
            return
        if kind == "E":
            self.facts.add("source_error")
            self.end("E", v)
            return
        n = self.n
        if op == "zip":
            if kind == "N":
                self.q[m].append(v)
                if all(self.q):
                    self.emit(tuple(x.pop(0) for x in self.q))
                    self.zip_completion()
            else:
                self.done[m] = True
                self.zip_completion()
        elif op == "combine_latest":
            if kind == "N":
                self.val[m], self.has[m] = v, True
                if all(self.has):
                    self.emit(tuple(self.val))
            else:
                self.done[m] = True
                if all(self.done):
                    self.end("C", None)
            if self.live and any(d and not h for d, h in zip(self.done, self.has)):
                # no tuple can ever follow; the statement does not say when the output completes: follow the run
                self.facts.add("combine_latest_optional_completion")
                i = len(self.out)
                if i < len(self.impl_notes) and tuple(self.impl_notes[i][:2]) == (self.step, "C"):
                    self.end("C", None)
        elif op == "with_latest_from":
            if m == 0:
                if kind == "N":
                    if all(self.has[1:]):
                        self.emit((v,) + tuple(self.val[1:]))
                else:
                    self.end("C", None)
            elif kind == "N":
                self.val[m], self.has[m] = v, True
        elif op == "fork_join":
            if kind == "N":
                self.val[m], self.has[m] = v, True
            else:
                self.done[m] = True
                if not self.has[m]:
                    self.facts.add("fork_join_completed_empty")
                    self.end("C", None)
                elif all(self.done):
                    self.emit(tuple(self.val))
                    self.end("C", None)
        else:
            raise AssertionError(op)
        if n == 0:
            raise AssertionError("no sources")

    def zip_completion(self):
        if self.live and any(d and not q for d, q in zip(self.done, self.q)):
            self.end("C", None)

    # -- a whole case
    def run(self):
        seen = []
        for m in self.order:
            if m in seen:
                self.problems.append(f"source {m} was subscribed twice during subscribe()")
                continue
            seen.append(m)
            self.subscribe_member(m)
        needs_all = self.live and not (self.op == "amb" and self.winner is not None)
        if needs_all and sorted(seen) != list(range(self.n)):
            self.problems.append(f"sources subscribed during subscribe(): {seen}, expected all of "
                                 f"{list(range(self.n))} (nothing had ended the output before)")
        self.after = {-1: self.snapshot()}
        for k, st in enumerate(self.case["script"]):
            self.step = k
            self.act(st)
            self.after[k] = self.snapshot()
        return self

    def snapshot(self):
        return {"finished": not self.live, "winner": self.winner, "listening": sorted(self.listening)}


def check(case):
    """None if the implementation agrees with the property text on this case, else (kind, text, got, expected)."""
    return check_full(case)[0]


def check_full(case):
    """-> (verdict as in check, facts about the case, expected notifications)"""
    status, res = lib.with_timeout(10, run_impl, case)
    if status != "ok":
        return ("timeout", "the case did not finish in 10 s", None, None), set(), []
    ref = Ref(case, res["order"], res["notes"]).run()
    return _judge(case, res, ref), ref.facts, ref.out


def _judge(case, res, ref):
    notes = res["notes"]
    got = {"notifications (step, kind, payload)": [list(x) for x in notes],
           "sources in the order subscribed during subscribe()": res["order"],
           "still subscribed after each step": {str(k): v for k, v in res["held"].items()}}
    exp = {"notifications (step, kind, payload)": [list(x) for x in ref.out],
           "after each step": {str(k): v for k, v in ref.after.items()}}
    raised = [x for x in notes if x[1] == "RAISED"]
    if raised:
        return ("raised", f"a call into a source / subscribe() raised: {raised[0]}", got, exp)
    if ref.problems:
        return ("subscriptions", ref.problems[0], got, exp)
    per_member = {}
    for (_, m) in res["subs"]:
        per_member[m] = per_member.get(m, 0) + 1
    twice = [m for m, c in per_member.items() if c > 1]
    if twice:
        return ("subscriptions", f"source(s) {twice} subscribed more than once by one subscription of the operator",
                got, exp)
    # repr: 0 / False / 0.0 and 1 / True are different elements
    if repr(notes) != repr(ref.out):
        i = next((i for i, (a, b) in enumerate(zip(notes, ref.out)) if repr(a) != repr(b)),
                 min(len(notes), len(ref.out)))
        return ("notifications", f"subscriber's notification #{i}: got {notes[i] if i < len(notes) else 'nothing'}, "
                f"expected {ref.out[i] if i < len(ref.out) else 'nothing'}", got, exp)
    for k in sorted(res["held"]):
        held, after = res["held"][k], ref.after[k]
        if after["finished"] and held:
            return ("leak", f"after step {k} the output has ended / was disposed, but source(s) {held} are still "
                    "subscribed", got, exp)
        if case["op"] == "amb" and after["winner"] is not None:
            losers = [m for m in held if m != after["winner"]]
            if losers:
                return ("amb-losers", f"after step {k} source {after['winner']} has notified first, but the other "
                        f"source(s) {losers} are still subscribed", got, exp)
    return None


def shrink(case, kind):
    """Greedy: drop script steps, feedback steps, prefix elements, trailing members while the same kind of mismatch
    remains."""
    case = copy.deepcopy(case)

    def still(c):
        b = check(c)
        return b is not None and b[0] == kind
    again = True
    while again:
        again = False
        for i in range(len(case["script"])):
            c = copy.deepcopy(case)
            del c["script"][i]
            if still(c):
                case, again = c, True
                break
        if again:
            continue
        for key in list(case["feedback"]):
            for i in range(len(case["feedback"][key])):
                c = copy.deepcopy(case)
                del c["feedback"][key][i]
                if not c["feedback"][key]:
                    del c["feedback"][key]
                if still(c):
                    case, again = c, True
                    break
            if again:
                break
        if again:
            continue
        for m, s in enumerate(case["members"]):
            for i in range(len(s.get("prefix", []))):
                c = copy.deepcopy(case)
                del c["members"][m]["prefix"][i]
                if still(c):
                    case, again = c, True
                    break
            if again:
                break
    return case


LEGEND = ("members[i] is source i of the operator (with_latest_from: 0 = the primary; form 'ops' = members[0].pipe("
          "op(*members[1:])), 'rx' = reactivex.op(*members)).  cold: the subscription gets the prefix synchronously "
          "inside subscribe(), then C / E / stays open for the script's push|complete|error; hot: a Subject; future: a "
          "finished concurrent.futures.Future.  feedback[i]: steps the subscriber performs from inside on_next of the "
          "i-th element it receives.  Steps are numbered from 0, -1 = inside subscribe(); 'expected' is the property "
          "text executed directly with the observed subscription order")


def scenarios(chk):
    n = 3000 if chk.tier == "quick" else 40000
    hist, fact_hist = {}, {}
    nontrivial = set()
    shrunk, worst = {}, {}
    for _ in range(n):
        case = gen(chk.rng)
        chk.cov["evaluations"] += 1
        bad, facts, out = check_full(case)
        key = f"{case['form']}.{case['op']}/n={len(case['members'])}"
        hist[key] = hist.get(key, 0) + 1
        if bad:
            sig = f"C13|sync|{case['op']}|{bad[0]}"
            if shrunk.get(sig, 0) < 3:                 # minimise the first few per signature, keep the smallest
                shrunk[sig] = shrunk.get(sig, 0) + 1
                case = shrink(case, bad[0])
                bad = check(case)
            size = len(case["script"]) + sum(len(v) for v in case["feedback"].values()) + len(case["members"])
            if sig in worst and worst[sig][2] <= size:
                continue
            worst[sig] = (sig, dict(case, family="sync_scenarios", mismatch=bad[0], what=bad[1], got=bad[2],
                                    expected=bad[3], legend=LEGEND), size)
            continue
        kinds = "+".join(sorted(set(s["kind"] for s in case["members"])))
        fact_hist["members:" + kinds] = fact_hist.get("members:" + kinds, 0) + 1
        for f in facts:
            fact_hist[f] = fact_hist.get(f, 0) + 1
        if sum(1 for x in out if x[1] == "N") >= 1 and ("synchronous_element" in facts or "feedback" in facts
                                                         or "synchronous_end" in facts):
            nontrivial.add(repr(case))
    for sig, rep, size in worst.values():              # the smallest failing case per signature
        chk.violation(sig, rep, size=size)
    return nontrivial, hist, fact_hist


def replay_case(rep):
    case = {k: rep[k] for k in ("op", "form", "members", "script")}
    case["feedback"] = rep.get("feedback", {})
    return case, check(case)
