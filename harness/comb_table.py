"""Operator-instance generators for the multi-source combinators (C10-C13).
Each generator returns dict(build(env, statics)->observable, coq, n_static,
ty, eqb, enc, spec, dynamic:bool)."""
import k2
import k2m
from k2 import UserError
from lib import gz, glist, gbool

LIST = dict(ty="(list Z)", eqb="(list_eqb Z.eqb)", enc=lambda v: glist(list(v)))
ZT = dict(ty="Z", eqb="Z.eqb", enc=gz)


def counted_table(rng, n=8, p_raise=0.2, kind="bool"):
    """callback defined on its invocation index j: ('ok', v) | ('raise', code); Gallina `fun j => tbl ...`"""
    ent = []
    for j in range(n):
        if rng.random() < p_raise / 2:
            ent.append(("raise", 61))
        else:
            ent.append(("ok", (rng.random() < 0.6) if kind == "bool" else None))
    return ent


def g_counted(ent, default, kind="bool"):
    def r(x):
        if x[0] == "raise":
            return f"Raise {x[1]}"
        return f"Ok {gbool(x[1])}" if kind == "bool" else "Ok tt"
    es = "; ".join(f"({j}, {r(x)})" for j, x in enumerate(ent))
    return f"(fun j => tbl [{es}] ({r(default)}) (Z.of_nat j))"


def table():
    import reactivex as rx
    from reactivex import operators as ops
    T = {}

    # ---------------- C10
    def lazy_iterable(env, ss):
        """re-iterable whose iterator logs effect j right before it yields source j and effect len(ss) when it
        is asked for one more (a lazy iterable with visible side effects)"""
        class Lazy:
            def __iter__(self):
                def gen():
                    for j, s in enumerate(ss):
                        env.effect(j)
                        yield s
                    env.effect(len(ss))
                return gen()
        return Lazy()

    def g_concat(rng):
        n = rng.choice([0, 1, 1, 2, 2, 2, 3, 3, 3, 3])
        via = rng.choice(["rx.concat", "ops.concat", "iter", "lazy", "lazy"] if n else ["rx.concat", "iter", "lazy"])
        def build(env, ss):
            if via == "rx.concat":
                return rx.concat(*ss)
            if via == "ops.concat":
                return ss[0].pipe(ops.concat(*ss[1:]))
            if via == "lazy":
                return rx.concat_with_iterable(lazy_iterable(env, ss))
            return rx.concat_with_iterable(ss)
        coq = f"x_concat_lazy {n}%nat (fun _ => Ok tt) true" if via == "lazy" else f"x_concat {n}%nat"
        return dict(build=build, coq=coq, n_static=n, spec=("concat", n), lazy=(via == "lazy"), via=via, **ZT)
    T["concat"] = g_concat

    def g_for_in(rng):
        # for_in(values, mapper): the sources are made by the mapper, one per value, when their turn comes
        n = rng.choice([0, 1, 2, 2, 3, 3])
        values = [rng.choice([0, 1, 2, 3, 4, 5, 6, 7]) for _ in range(n)]
        ent = [("raise", 63) if rng.random() < 0.08 else ("ok", None) for _ in range(n)]
        calls = [0]
        argerr = []
        lazy_values = rng.random() < 0.5
        def build(env, ss):
            def mapper(v):
                j = calls[0]
                calls[0] += 1
                if j >= n or v != values[j]:
                    argerr.append(f"call {j} of the mapper got {v!r}, values = {values}")
                env.effect(j)
                if j < n and ent[j][0] == "raise":
                    raise k2.make_error(ent[j][1])
                return env.new_source().observable
            if lazy_values:
                class Values:
                    def __iter__(self):
                        return iter(list(values))
                return rx.for_in(Values(), mapper)
            return rx.for_in(list(values), mapper)
        def reset():
            calls[0] = 0
            del argerr[:]
        prod = "; ".join(f"({j}, " + ("Raise " + str(e[1]) if e[0] == "raise" else "Ok tt") + ")" for j, e in enumerate(ent))
        return dict(build=build, coq=f"x_concat_lazy {n}%nat (fun j => tbl [{prod}] (Ok tt) (Z.of_nat j)) false",
                    n_static=0, spec=("for_in", n, ent), dynamic=True, lazy=True, reset=reset, argerr=argerr, **ZT)
    T["for_in"] = g_for_in

    def g_catch(rng):
        n = rng.choice([0, 1, 1, 2, 2, 2, 3, 3, 3, 3])
        via = rng.choice(["rx.catch", "ops.catch", "lazy"] if n == 2 else ["rx.catch", "rx.catch", "lazy"])
        def build(env, ss):
            if via == "ops.catch":
                return ss[0].pipe(ops.catch(ss[1]))
            if via == "lazy":
                return rx.catch_with_iterable(lazy_iterable(env, ss))
            return rx.catch(*ss)
        coq = f"x_catch_lazy {n}%nat (fun _ => Ok tt) true" if via == "lazy" else f"x_catch {n}%nat"
        return dict(build=build, coq=coq, n_static=n, spec=("catch", n), lazy=(via == "lazy"), via=via, **ZT)
    T["catch"] = g_catch

    def g_catch_handler(rng):
        raises = rng.random() < 0.3
        hlog = []                      # (input position, exception object, source argument is the source?)
        def build(env, ss):
            def handler(e, src):
                hlog.append((env.tag, e, src is ss[0]))
                if raises:
                    raise k2.make_error(62)
                return env.new_source().observable
            return ss[0].pipe(ops.catch(handler))
        h = "(fun _ => Raise 62)" if raises else "(fun _ => Ok tt)"
        return dict(build=build, coq=f"x_catch_handler {h}", n_static=1, spec=("catch_handler", raises),
                    dynamic=True, handler_log=hlog, reset=lambda: hlog.__delitem__(slice(None)), **ZT)
    T["catch_handler"] = g_catch_handler

    def g_oern(rng):
        n = rng.choice([0, 1, 1, 2, 2, 2, 3, 3, 3, 3])
        via = "ops" if n == 2 and rng.random() < 0.3 else "rx"
        # factory arguments: source k is given as a function of the previous source's error (None after a completion)
        fact = [via == "rx" and rng.random() < 0.5 for _ in range(n)]
        flog = []                      # (input position, k, argument object)
        def build(env, ss):
            if via == "ops":
                return ss[0].pipe(ops.on_error_resume_next(ss[1]))
            def factory(k):
                def f(ex):
                    flog.append((env.tag, k, ex))
                    env.effect(1000 * k + (0 if ex is None else k2.err_id(ex)))
                    return ss[k]
                return f
            return rx.on_error_resume_next(*[factory(k) if fact[k] else ss[k] for k in range(n)])
        if any(fact):
            tb = "; ".join(f"{k}%nat" for k in range(n) if fact[k])
            coq = f"x_oern_f {n}%nat (fun k => existsb (Nat.eqb k) [{tb}])"
        else:
            coq = f"x_oern {n}%nat"
        return dict(build=build, coq=coq, n_static=n, spec=("oern", n), factories=fact, factory_log=flog,
                    reset=lambda: flog.__delitem__(slice(None)), **ZT)
    T["on_error_resume_next"] = g_oern

    def g_repeat(rng):
        c = rng.choice([None, 0, 1, 2, 3])
        return dict(build=lambda env, ss: ss[0].pipe(ops.repeat(c)),
                    coq=f"x_repeat {'None' if c is None else f'(Some {c}%nat)'}", n_static=1,
                    spec=("repeat", c), **ZT)
    T["repeat"] = g_repeat

    def g_retry(rng):
        c = rng.choice([None, 0, 1, 2, 3])
        return dict(build=lambda env, ss: ss[0].pipe(ops.retry(c)),
                    coq=f"x_retry {'None' if c is None else f'(Some {c}%nat)'}", n_static=1,
                    spec=("retry", c), **ZT)
    T["retry"] = g_retry

    def g_while(rng, do=False):
        ent = counted_table(rng, 6)
        calls = [0]
        def cond(src):
            j = calls[0]
            calls[0] += 1
            x = ent[j] if j < len(ent) else ("ok", False)
            if x[0] == "raise":
                raise k2.make_error(x[1])
            return x[1]
        op = ops.do_while if do else ops.while_do
        return dict(build=lambda env, ss: ss[0].pipe(op(cond)), reset=lambda: calls.__setitem__(0, 0),
                    coq=f"{'x_do_while' if do else 'x_while_do'} {g_counted(ent, ('ok', False))}", n_static=1,
                    spec=("do_while" if do else "while_do", ent), **ZT)
    T["while_do"] = lambda rng: g_while(rng, False)
    T["do_while"] = lambda rng: g_while(rng, True)

    # ---------------- C11
    def g_merge(rng):
        n = rng.choice([0, 1, 1, 2, 2, 2, 3, 3, 3, 3])
        via = rng.choice(["rx.merge", "ops.merge"]) if n else "rx.merge"
        def build(env, ss):
            if via == "ops.merge":
                return ss[0].pipe(ops.merge(*ss[1:]))
            return rx.merge(*ss)
        return dict(build=build, coq=f"x_merge {n}%nat", n_static=n, spec=("merge", n), **ZT)
    T["merge"] = g_merge

    def mapper_fn(rng, env_holder, p_raise=0.15, n=8):
        ent = counted_table(rng, n, p_raise, kind="unit")
        return ent

    def deep_queue_events(rng, nsrc):
        """interleavings for max_concurrent: the outer delivers 3-5 inners early, the inners end later in a random
        order, so that several inners wait in the queue at once"""
        evs, t = [], 0
        for _ in range(rng.choice([3, 4, 5])):
            t += rng.choice([0, 5, 10])
            evs.append((t, 0, ("N", rng.randrange(10))))
        r = rng.random()
        tt = t + rng.choice([0, 10, 200, 400])
        if r < 0.6:
            evs.append((tt, 0, ("C",)))
        elif r < 0.7:
            evs.append((tt, 0, ("E", UserError(11))))
        for k in range(1, nsrc):
            tk = t + rng.choice([10, 20, 50, 100])
            for _ in range(rng.choice([0, 1, 2])):
                tk += rng.choice([0, 10, 30])
                evs.append((tk, k, ("N", rng.randrange(10))))
            tk += rng.choice([0, 10, 30, 100])
            r = rng.random()
            if r < 0.8:
                evs.append((tk, k, ("C",)))
            elif r < 0.88:
                evs.append((tk, k, ("E", UserError(12))))
        evs.sort(key=lambda e: e[0])
        return evs

    def g_flat_map(rng, which="flat_map"):
        ent = counted_table(rng, 8, 0.15, kind="unit")
        mc = rng.choice([1, 2, 3]) if which == "merge_mc" else None
        calls = [0]
        def build(env, ss):
            def mapper(x, i=None):
                j = calls[0]
                calls[0] += 1
                e = ent[j] if j < len(ent) else ("ok", None)
                if e[0] == "raise":
                    raise k2.make_error(e[1])
                return env.new_source().observable
            if which == "flat_map":
                return ss[0].pipe(ops.flat_map(mapper))
            if which == "flat_map_indexed":
                return ss[0].pipe(ops.flat_map_indexed(mapper))
            if which == "merge_all":
                return ss[0].pipe(ops.map(mapper), ops.merge_all())
            if which == "concat_map":
                return ss[0].pipe(ops.concat_map(mapper))
            if which == "merge_mc":
                return ss[0].pipe(ops.map(mapper), ops.merge(max_concurrent=mc))
            if which == "switch_map":
                return ss[0].pipe(ops.switch_map(mapper))
            if which == "switch_map_indexed":
                return ss[0].pipe(ops.switch_map_indexed(mapper))
            if which == "flat_map_latest":
                return ss[0].pipe(ops.flat_map_latest(mapper))
            if which == "switch_latest":
                return ss[0].pipe(ops.map(mapper), ops.switch_latest())
            raise AssertionError(which)
        m = f"(fun _ j => tbl [{'; '.join(f'({j}, ' + ('Raise ' + str(e[1]) if e[0] == 'raise' else 'Ok tt') + ')' for j, e in enumerate(ent))}] (Ok tt) (Z.of_nat j))"
        if which in ("flat_map", "flat_map_indexed", "merge_all"):
            coq = f"x_flat_map {m}"
        elif which == "concat_map":
            coq = f"x_merge_concurrent 1%nat {m}"
        elif which == "merge_mc":
            coq = f"x_merge_concurrent {mc}%nat {m}"
        else:
            coq = f"x_switch_map {m}"
        extra = dict(gen_events=deep_queue_events) if which in ("merge_mc", "concat_map") else {}
        return dict(build=build, coq=coq, n_static=1, spec=(which, ent, mc), dynamic=True,
                    reset=lambda: calls.__setitem__(0, 0), **extra, **ZT)
    for w in ("flat_map", "flat_map_indexed", "merge_all", "concat_map", "merge_mc",
              "switch_map", "switch_map_indexed", "flat_map_latest", "switch_latest"):
        T[w] = (lambda w: (lambda rng: g_flat_map(rng, w)))(w)

    # ---------------- C13
    def g_zip(rng):
        n = rng.choice([1, 2, 2, 3, 3, 4])
        via = rng.choice(["rx.zip", "ops.zip"])
        def build(env, ss):
            return ss[0].pipe(ops.zip(*ss[1:])) if via == "ops.zip" else rx.zip(*ss)
        return dict(build=build, coq=f"x_zip {n}%nat", n_static=n, spec=("zip", n), **LIST)
    T["zip"] = g_zip

    def g_cl(rng):
        n = rng.choice([1, 2, 2, 3, 3, 4])
        via = rng.choice(["rx", "ops"])
        def build(env, ss):
            return ss[0].pipe(ops.combine_latest(*ss[1:])) if via == "ops" else rx.combine_latest(*ss)
        return dict(build=build, coq=f"x_combine_latest {n}%nat", n_static=n, spec=("combine_latest", n), **LIST)
    T["combine_latest"] = g_cl

    def g_wlf(rng):
        n = rng.choice([0, 1, 1, 2, 2, 3])
        via = rng.choice(["rx", "ops"])
        def build(env, ss):
            return ss[0].pipe(ops.with_latest_from(*ss[1:])) if via == "ops" else rx.with_latest_from(ss[0], *ss[1:])
        return dict(build=build, coq=f"x_with_latest_from {n}%nat", n_static=n + 1, spec=("with_latest_from", n),
                    **LIST)
    T["with_latest_from"] = g_wlf

    def g_fj(rng):
        n = rng.choice([1, 2, 2, 3, 3, 4])
        via = rng.choice(["rx", "ops"])
        def build(env, ss):
            return ss[0].pipe(ops.fork_join(*ss[1:])) if via == "ops" else rx.fork_join(*ss)
        return dict(build=build, coq=f"x_fork_join {n}%nat", n_static=n, spec=("fork_join", n), **LIST)
    T["fork_join"] = g_fj

    def g_amb(rng):
        n = rng.choice([1, 2, 2, 3, 3, 4])
        via = "ops" if n == 2 and rng.random() < 0.5 else "rx"
        def build(env, ss):
            return ss[0].pipe(ops.amb(ss[1])) if via == "ops" else rx.amb(*ss)
        return dict(build=build, coq=f"x_amb {n}%nat", n_static=n, spec=("amb", n, via), **ZT)
    T["amb"] = g_amb

    def g_take_until(rng):
        def build(env, ss):
            return ss[0].pipe(ops.take_until(ss[1]))
        return dict(build=build, coq="x_take_until", n_static=2, spec=("take_until",), **ZT)
    T["take_until"] = g_take_until

    def g_skip_until(rng):
        def build(env, ss):
            return ss[0].pipe(ops.skip_until(ss[1]))
        return dict(build=build, coq="x_skip_until", n_static=2, spec=("skip_until",), **ZT)
    T["skip_until"] = g_skip_until
    return T


IMPORTS = "Base.Prelude Base.CaseLib Ops.Machine Ops.Multi Ops.MultiCase Ops.Combinators"


def _cases(rng, names, ncase, extra_sources, p_dispose, p_sub_raises, hist):
    """the seeded case stream of run_ops: yields (name, ci, inst, res).  Everything is drawn from `rng` in a fixed
    order, so the stream is reproducible from the seed (used by rerun_case)."""
    T = table()
    for name in names:
        for ci in range(ncase):
            inst = T[name](rng)
            nsrc = inst["n_static"] + (extra_sources if inst.get("dynamic") else 0)
            if inst.get("gen_events") and rng.random() < 0.5:
                evs = inst["gen_events"](rng, nsrc)
                hist["operator_specific_interleavings"] = hist.get("operator_specific_interleavings", 0) + 1
            else:
                evs = k2m.gen_events(rng, nsrc, maxlen=4)
            for flag, label in (("lazy", "lazy_iterable_with_logged_effects"), ("factories", "factory_arguments")):
                if inst.get(flag) and (flag != "factories" or any(inst[flag])):
                    hist[label] = hist.get(label, 0) + 1
            if inst["n_static"] == 0 and (not inst.get("dynamic") or inst["spec"][1] == 0):
                hist["zero_sources"] = hist.get("zero_sources", 0) + 1
            if len({e[0] for e in evs}) < len(evs):
                hist["same_instant_events"] += 1
            disp = None
            if rng.random() < p_dispose and evs:
                disp = rng.choice(evs)[0]
                hist["with_dispose"] += 1
            warm = None
            if rng.random() < 0.35:
                warm = k2m.gen_events(rng, nsrc, maxlen=3, p_none=0.5)
                hist["resubscribed"] = hist.get("resubscribed", 0) + 1
            sraise = rng.random() < p_sub_raises
            if sraise:
                hist["subscriber_terminal_callback_raises"] = hist.get("subscriber_terminal_callback_raises", 0) + 1
            res = k2m.run_multi(inst["build"], inst["n_static"], evs, dispose_at=disp, warmup=warm,
                                after_warmup=inst.get("reset"), subscriber_raises=sraise)
            if res["build_error"] is not None:
                raise RuntimeError(f"{name}: build error {res['build_error']!r}")
            yield name, ci, inst, res


def _verdict(oracle, name, inst, res):
    v = oracle(name, inst, res)
    if res["escapes"]:
        v = v or f"exception escaped into the emitter: {[repr(e) for _, e in res['escapes']]}"
    return v


def rerun_case(rerun, oracle):
    """re-create the run_ops case recorded in a replay file (`rerun` entry) from its seed and judge it again on
    the current tree: -> (verdict or None, rendered inputs, rendered trace)"""
    import random
    hist = {"with_dispose": 0, "nonconforming_tail": 0, "dynamic_inners": 0, "same_instant_events": 0}
    rng = random.Random(rerun["seed"])
    for name, ci, inst, res in _cases(rng, rerun["names"], rerun["ncase"], rerun["extra_sources"],
                                      rerun["p_dispose"], rerun["p_sub_raises"], hist):
        if name == rerun["operator"] and ci == rerun["case_index"]:
            return _verdict(oracle, name, inst, res), k2m.g_inputs(res["inputs"]), k2m.g_trace(res, inst["enc"])
    raise RuntimeError("case not found in the seeded stream")


def run_ops(chk, pid, names, oracle, ncase=None, extra_sources=3, p_dispose=0.15, p_sub_raises=0.0):
    """generic loop: for each operator name, seeded instances x seeded event
    interleavings; correspondence with the machine + the property oracle.
    Must be the first consumer of chk.rng (rerun_case re-creates the stream from chk.seed)."""
    import lib
    ncase = ncase or (40 if chk.tier == "quick" else 500)
    gal = {}
    per_op = {}
    nontrivial = set()
    hist = {"with_dispose": 0, "nonconforming_tail": 0, "dynamic_inners": 0, "same_instant_events": 0}
    fresh = chk.rng.getstate() == __import__("random").Random(chk.seed).getstate()
    for name, ci, inst, res in _cases(chk.rng, names, ncase, extra_sources, p_dispose, p_sub_raises, hist):
        chk.cov["evaluations"] += 1
        per_op[name] = per_op.get(name, 0) + 1
        if len(res["env"].sources) > inst["n_static"]:
            hist["dynamic_inners"] += 1
        gi = k2m.g_inputs(res["inputs"])
        gt = k2m.g_trace(res, inst["enc"])
        sig = f"{name}|{inst['coq']}|{gi}"
        v = _verdict(oracle, name, inst, res)
        if v:
            rep = {"operator": name, "machine": inst["coq"], "inputs (now, event)": gi, "observed trace": gt,
                   "what": v}
            if fresh:
                rep["rerun"] = {"family": "run_ops", "seed": chk.seed, "names": list(names), "ncase": ncase,
                                "extra_sources": extra_sources, "p_dispose": p_dispose,
                                "p_sub_raises": p_sub_raises, "operator": name, "case_index": ci}
            chk.violation(f"{pid}|{name}|{v[:50]}", rep, size=len(res["inputs"]))
        elif sum(1 for e in res["log"] if e[1] == "emit") >= 2:
            nontrivial.add(sig)
        key = (inst["ty"], inst["eqb"])
        gal.setdefault(key, []).append((f"({inst['coq']}, {gi})", gt))
    for (ty, eqb), cases in gal.items():
        prelude = f"Definition model (c : machine Z {ty} * list (Z * inp Z)) := run_canon (fst c) (snd c).\n"
        bad, logs = lib.correspondence(pid, "m_" + str(abs(hash((ty, eqb))) % 10**6), IMPORTS,
                                       f"(machine Z {ty} * list (Z * inp Z)) * list (nat * obs {ty})",
                                       "model", f"(trace_eqb {eqb})", cases, prelude=prelude)
        chk.cov["traces_validated_against_impl"] += len(cases)
        chk.cov["disagreements_checked"] += len(cases)
        if bad:
            firsts = [cases[i] for i in bad if i >= 0][:3]
            d = {"n": len(bad), "first (machine+inputs, implementation trace)": firsts, "logs": logs[:1]}
            if firsts:
                d["model_says"] = lib.coq_show(pid, IMPORTS, f"model {firsts[0][0]}", prelude)
            chk.tie_broken(f"correspondence K2 multi-source ({ty}): machine vs implementation", d)
    chk.cov["distinct_nontrivial"] = len(nontrivial)
    chk.cov["input_distribution"] = {"per_operator": per_op, **hist}
    chk.add_samples([{"case": cs[0][0], "trace": cs[0][1]} for cs in gal.values() if cs][:4])
    return gal
