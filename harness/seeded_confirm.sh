#!/bin/bash
# usage: seeded_confirm.sh <worktree>   -- confirms a seeded change: demo fails with it, passes without it,
# and the unedited test suite still passes with it.
wt="$1"; cd "$wt" || exit 2
export PYTHONPATH="$wt" PYTHONHASHSEED=0
git diff -- reactivex > patch.diff
with=$(timeout 300 /venv/bin/python -m pytest -q -p no:cacheprovider demo_test.py 2>&1 | tail -1)
git apply -R patch.diff
without=$(timeout 300 /venv/bin/python -m pytest -q -p no:cacheprovider demo_test.py 2>&1 | tail -1)
git apply patch.diff
suite=$(timeout 1500 /venv/bin/python -m pytest -q -p no:cacheprovider --timeout=900 tests 2>&1 | tail -1)
echo "WITH:    $with"; echo "WITHOUT: $without"; echo "SUITE:   $suite"
