"""Oracle-only family `overlap` of C02: OVERLAPPING subscriptions of ONE operator observable.

Every other family of C02 builds an operator observable and subscribes to it exactly once.  Here ONE observable
object is built from probe sources (cold sources that record every subscription opened on them) by a
multi-source operator, and it is subscribed two or three times with overlapping lifetimes.  The earlier
subscriptions are terminated -- a source completes or fails, a take(n)/first() stage behind the operator
completes, the subscriber disposes -- while later ones are alive, and later ones go on being fed.

A case is an explicit SCRIPT (a list of steps) interpreted on the real library:
    ["sub", j]                     subscriber j subscribes the shared observable (through its own tail stage)
    ["ev", k, who, kind, v]        source k delivers N v / E v / C to the subscriptions that are open on it
                                   and were opened by subscriber `who` ("all": by anybody), one after the other
    ["dispose", j]                 subscriber j disposes its subscription
Every subscription a probe sees is attributed to the subscriber on whose behalf the library is running at that
moment: a step (or, for "all", one delivery of it) is directed at exactly one subscriber -- the one subscribing,
the one disposing, the one that opened the source subscription the event is delivered to.

Judgement (a direct reading of the statement of C02, subscription by subscription):
  * leak     when the step ends in which subscriber j received its terminal notification (or in which its
             dispose() returned), every source subscription THAT subscriber opened has been disposed -- and so
             at the end of every later step;
  * foreign  exactly those: a step directed at subscriber x disposes no source subscription of a subscriber
             y != x that is still running (y saw no terminal and did not dispose) -- y's pipeline has not
             terminated, what it opened is not x's to release;
  * open     after every subscriber disposed (last steps of every script) no source subscription is open;
  * escape   no exception escapes into the emitter / the subscribing or disposing caller.
Observed but NOT judged (coverage only; the statement of C02 is silent): whether what a subscriber receives and
the open/close pattern of its own subscriptions equal those of the same script run with that subscriber alone
(`differs_from_solo_run`).
"""
from __future__ import annotations

import json
import random


class ProbeError(Exception):
    def __init__(self, code):
        super().__init__(code)
        self.code = code

    def __repr__(self):
        return f"ProbeError({self.code})"


# ---------------------------------------------------------------------------------------------------------
# catalogue: name -> (gen(rng) -> params, build(ss, params) -> observable).  params are JSON values;
# params["n"] = number of probe sources
# ---------------------------------------------------------------------------------------------------------

def _inner(ss, first=1):
    """mapper of the dynamic operators: element v selects one of the probes ss[first:]"""
    m = len(ss) - first
    return lambda v, *a: ss[first + (v if isinstance(v, int) else 0) % m]


def catalogue():
    import reactivex as rx
    from reactivex import operators as ops
    C = {}

    def nary(name, fn_rx, fn_ops, lo=2, hi=3, vias=("rx", "ops")):
        def gen(rng):
            return {"n": rng.randint(lo, hi), "via": rng.choice(vias)}

        def build(ss, p):
            if p["via"] == "ops":
                return ss[0].pipe(fn_ops(*ss[1:]))
            return fn_rx(*ss)
        C[name] = (gen, build)

    nary("zip", rx.zip, ops.zip)
    nary("combine_latest", rx.combine_latest, ops.combine_latest)
    nary("with_latest_from", rx.with_latest_from, ops.with_latest_from)
    nary("fork_join", rx.fork_join, ops.fork_join)
    nary("merge", rx.merge, ops.merge)
    nary("concat", rx.concat, ops.concat)
    nary("amb", rx.amb, None, vias=("rx",))
    nary("catch", rx.catch, None, vias=("rx",))
    nary("on_error_resume_next", rx.on_error_resume_next, None, vias=("rx",))
    C["concat_with_iterable"] = (lambda rng: {"n": rng.randint(2, 3)}, lambda ss, p: rx.concat_with_iterable(list(ss)))
    C["catch_with_iterable"] = (lambda rng: {"n": rng.randint(2, 3)}, lambda ss, p: rx.catch_with_iterable(list(ss)))

    def binary(name, fn):
        C[name] = (lambda rng: {"n": 2}, lambda ss, p: ss[0].pipe(fn(ss[1])))
    binary("amb_op", ops.amb)
    binary("catch_op", ops.catch)
    binary("on_error_resume_next_op", ops.on_error_resume_next)
    binary("take_until", ops.take_until)
    binary("skip_until", ops.skip_until)
    binary("sequence_equal", ops.sequence_equal)
    binary("sample", ops.sample)
    binary("buffer", ops.buffer)
    binary("zip_tail", lambda b: ops.zip(b))          # zip inside a longer pipeline
    C["catch_handler"] = (lambda rng: {"n": 2}, lambda ss, p: ss[0].pipe(ops.catch(lambda e, src: ss[1])))
    C["zip_map"] = (lambda rng: {"n": 2}, lambda ss, p: rx.zip(ss[0], ss[1]).pipe(ops.map(lambda t: t)))
    C["merge_of_zip"] = (lambda rng: {"n": 3}, lambda ss, p: rx.merge(rx.zip(ss[0], ss[1]), ss[2]))
    C["zip_of_merge"] = (lambda rng: {"n": 3}, lambda ss, p: rx.zip(rx.merge(ss[0], ss[1]), ss[2]))
    C["combine_latest_of_concat"] = (lambda rng: {"n": 3},
                                     lambda ss, p: rx.combine_latest(rx.concat(ss[0], ss[1]), ss[2]))

    # an outer source whose elements select inner probes (every subscriber maps its own outer elements)
    def dyn(name, fn):
        C[name] = (lambda rng: {"n": rng.randint(2, 3)}, lambda ss, p: ss[0].pipe(fn(ss)))
    dyn("flat_map", lambda ss: ops.flat_map(_inner(ss)))
    dyn("flat_map_indexed", lambda ss: ops.flat_map_indexed(_inner(ss)))
    dyn("flat_map_latest", lambda ss: ops.flat_map_latest(_inner(ss)))
    dyn("switch_map", lambda ss: ops.switch_map(_inner(ss)))
    dyn("concat_map", lambda ss: ops.concat_map(_inner(ss)))
    C["merge_all"] = (lambda rng: {"n": rng.randint(2, 3)},
                      lambda ss, p: ss[0].pipe(ops.map(_inner(ss)), ops.merge_all()))
    C["merge_max_concurrent"] = (lambda rng: {"n": 3, "mc": rng.choice([1, 1, 2])},
                                 lambda ss, p: ss[0].pipe(ops.map(_inner(ss)), ops.merge(max_concurrent=p["mc"])))
    C["switch_latest"] = (lambda rng: {"n": rng.randint(2, 3)},
                          lambda ss, p: ss[0].pipe(ops.map(_inner(ss)), ops.switch_latest()))
    C["concat_all"] = (lambda rng: {"n": rng.randint(2, 3)},
                       lambda ss, p: ss[0].pipe(ops.map(_inner(ss)), ops.merge(max_concurrent=1)))
    C["exclusive"] = (lambda rng: {"n": rng.randint(2, 3)},
                      lambda ss, p: ss[0].pipe(ops.map(_inner(ss)), ops.exclusive()))

    # duration / trigger sources made by mappers
    C["buffer_when"] = (lambda rng: {"n": 2}, lambda ss, p: ss[0].pipe(ops.buffer_when(lambda: ss[1])))
    C["buffer_toggle"] = (lambda rng: {"n": 3},
                          lambda ss, p: ss[0].pipe(ops.buffer_toggle(ss[1], lambda v: ss[2])))
    C["throttle_with_mapper"] = (lambda rng: {"n": 2},
                                 lambda ss, p: ss[0].pipe(ops.throttle_with_mapper(lambda v: ss[1])))
    C["delay_with_mapper"] = (lambda rng: {"n": 2, "sd": rng.random() < 0.5},
                              lambda ss, p: ss[0].pipe(ops.delay_with_mapper(ss[1], lambda v: ss[1]) if p["sd"]
                                                       else ops.delay_with_mapper(lambda v: ss[1])))
    C["timeout_with_mapper"] = (lambda rng: {"n": 3, "other": rng.random() < 0.6},
                                lambda ss, p: ss[0].pipe(ops.timeout_with_mapper(
                                    ss[1], lambda v: ss[1], ss[2] if p["other"] else None)))
    C["join"] = (lambda rng: {"n": 3},
                 lambda ss, p: ss[0].pipe(ops.join(ss[1], lambda v: ss[2], lambda v: ss[2])))

    # re-subscription of one source inside one subscription
    C["repeat"] = (lambda rng: {"n": 1, "c": rng.choice([2, 3, None])}, lambda ss, p: ss[0].pipe(ops.repeat(p["c"])))
    C["retry"] = (lambda rng: {"n": 1, "c": rng.choice([2, 3, None])}, lambda ss, p: ss[0].pipe(ops.retry(p["c"])))
    C["zip_same_source_twice"] = (lambda rng: {"n": 1}, lambda ss, p: rx.zip(ss[0], ss[0]))
    C["merge_same_source_twice"] = (lambda rng: {"n": 2}, lambda ss, p: rx.merge(ss[0], ss[1], ss[0]))

    # single-source stages (one probe): the subscription plumbing every operator gets from the library
    singles = {
        "map": lambda: ops.map(lambda v: v), "filter": lambda: ops.filter(lambda v: v != 1),
        "scan": lambda: ops.scan(lambda a, v: a + v, 0), "reduce": lambda: ops.reduce(lambda a, v: a + v, 0),
        "take2": lambda: ops.take(2), "take_while": lambda: ops.take_while(lambda v: v < 3),
        "take_last": lambda: ops.take_last(2), "skip": lambda: ops.skip(1), "skip_last": lambda: ops.skip_last(1),
        "first_or_default": lambda: ops.first_or_default(None, 9), "last": lambda: ops.last(),
        "element_at": lambda: ops.element_at(1), "to_list": lambda: ops.to_list(),
        "distinct_until_changed": lambda: ops.distinct_until_changed(), "pairwise": lambda: ops.pairwise(),
        "default_if_empty": lambda: ops.default_if_empty(7), "ignore_elements": lambda: ops.ignore_elements(),
        "materialize": lambda: ops.materialize(), "do_action": lambda: ops.do_action(lambda v: None),
        "finally_action": lambda: ops.finally_action(lambda: None), "all": lambda: ops.all(lambda v: v < 3),
        "contains": lambda: ops.contains(2), "buffer_with_count": lambda: ops.buffer_with_count(2),
        "start_with": lambda: ops.start_with(8), "as_observable": lambda: ops.as_observable(),
        "single_or_default": lambda: ops.single_or_default(None, 9), "count": lambda: ops.count(),
        "is_empty": lambda: ops.is_empty(), "min": lambda: ops.min(), "average": lambda: ops.average(),
    }
    names = sorted(singles)
    C["single_stage"] = (lambda rng: {"n": 1, "stages": [rng.choice(names) for _ in range(rng.choice([1, 1, 2]))]},
                         lambda ss, p: ss[0].pipe(*[singles[s]() for s in p["stages"]]))
    return C


_CAT = {}


def cat():
    if not _CAT:
        _CAT.update(catalogue())
    return _CAT


# ---------------------------------------------------------------------------------------------------------
# probes and the interpreter of a script
# ---------------------------------------------------------------------------------------------------------

class World:
    def __init__(self, nsrc):
        import reactivex
        from reactivex.disposable import Disposable
        self.step = 0
        self.cur = None            # subscriber the running step / delivery is directed at
        self.recs = []             # one record per subscription a probe saw
        self.log = []              # (step, what, ...)
        self.foreign = []          # (step, directed at, record) -- a running subscriber's subscription disposed
        self.running = lambda j: True

        def probe(k):
            def subscribe(observer, scheduler=None):
                rec = {"id": len(self.recs), "src": k, "owner": self.cur, "observer": observer, "disposed": False,
                       "opened": self.step, "closed": None}
                self.recs.append(rec)
                self.log.append([self.step, "sub", f"source {k}", f"by subscriber {rec['owner']}", rec["id"]])

                def dispose():
                    if rec["disposed"]:
                        return
                    rec["disposed"], rec["closed"] = True, self.step
                    self.log.append([self.step, "unsub", f"source {k}", f"of subscriber {rec['owner']}", rec["id"],
                                     f"in a step directed at subscriber {self.cur}"])
                    if self.cur != rec["owner"] and self.running(rec["owner"]):
                        self.foreign.append((self.step, self.cur, rec))
                return Disposable(dispose)
            return reactivex.create(subscribe)
        self.probes = [probe(k) for k in range(nsrc)]


def _tail(obs, tail):
    from reactivex import operators as ops
    if tail is None:
        return obs
    return obs.pipe(ops.first() if tail[0] == "first" else ops.take(tail[1]))


def _show(v):
    if isinstance(v, (int, float, str, bool, type(None))):
        return v
    if isinstance(v, (tuple, list)):
        return [_show(x) for x in v]
    return f"<{type(v).__name__}>"


def run_script(name, params, tails, script, only=None):
    """interpret `script` on the library; only=j: the steps of subscriber j alone.
    -> dict(verdict=(kind, text)|None, got, log, recs, ...)"""
    W = World(params["n"])
    shared = cat()[name][1](W.probes, params)
    nsub = len(tails)
    got = [[] for _ in range(nsub)]           # (step, kind, value)
    term = [None] * nsub                      # step of the terminal notification
    disp = [None] * nsub                      # step in which dispose() returned
    handle = [None] * nsub
    W.running = lambda j: j is not None and term[j] is None and disp[j] is None
    verdict = None
    notified_in_foreign_step = 0

    def subscriber(j):
        def note(kind):
            def f(v=None):
                nonlocal notified_in_foreign_step
                if W.cur != j:
                    notified_in_foreign_step += 1
                got[j].append([W.step, kind, _show(v.code if isinstance(v, ProbeError) else v)])
                W.log.append([W.step, "emit", f"to subscriber {j}", kind, got[j][-1][2]])
                if kind in "EC" and term[j] is None:
                    term[j] = W.step
            return f
        return note("N"), note("E"), note("C")

    def judge(last):
        for (s, x, rec) in W.foreign:
            return ("foreign", f"step {s} was directed at subscriber {x}, but it disposed the subscription that "
                               f"subscriber {rec['owner']} (still running: no terminal, no dispose) opened on source "
                               f"{rec['src']} in step {rec['opened']}")
        for j in range(nsub):
            if term[j] is None and disp[j] is None:
                continue
            for rec in W.recs:
                if rec["owner"] == j and not rec["disposed"]:
                    why = (f"received its terminal notification in step {term[j]}" if term[j] is not None and
                           (disp[j] is None or term[j] <= disp[j]) else f"disposed in step {disp[j]}")
                    kind = "leak_after_terminal" if why.startswith("received") else "leak_after_dispose"
                    return (kind, f"subscriber {j} {why}, but the subscription it opened on source {rec['src']} "
                                  f"(step {rec['opened']}) is still open at the end of step {W.step}")
        if last:
            for rec in W.recs:
                if not rec["disposed"]:
                    return ("open", f"every subscriber has terminated or disposed, but a subscription on source "
                                    f"{rec['src']} (opened in step {rec['opened']} by subscriber {rec['owner']}) is "
                                    f"still open")
        return None

    for i, act in enumerate(script):
        W.step = i + 1
        try:
            if act[0] == "sub":
                j = act[1]
                if (only is not None and j != only) or handle[j] is not None:
                    continue
                W.cur = j
                W.log.append([W.step, "subscribe", f"subscriber {j}"])
                on_next, on_error, on_completed = subscriber(j)
                handle[j] = _tail(shared, tails[j]).subscribe(on_next, on_error, on_completed)
            elif act[0] == "dispose":
                j = act[1]
                if (only is not None and j != only) or handle[j] is None or disp[j] is not None:
                    continue
                W.cur = j
                W.log.append([W.step, "dispose", f"subscriber {j}"])
                handle[j].dispose()
                disp[j] = W.step
            else:
                _, k, who, kind, v = act
                if k >= len(W.probes):
                    continue
                for rec in [r for r in W.recs if r["src"] == k and not r["disposed"]]:
                    if rec["disposed"] or (who != "all" and rec["owner"] != who):
                        continue
                    if only is not None and rec["owner"] != only:
                        continue
                    W.cur = rec["owner"]
                    W.log.append([W.step, "deliver", f"source {k}", f"subscription {rec['id']}", kind, v])
                    if kind == "N":
                        rec["observer"].on_next(v)
                    elif kind == "E":
                        rec["observer"].on_error(ProbeError(v))
                    else:
                        rec["observer"].on_completed()
        except Exception as e:          # noqa: BLE001 -- whatever escapes the library is the finding
            verdict = ("escape", f"step {W.step} {act}: exception escaped into the caller: {e!r}")
        W.cur = None
        verdict = verdict or judge(last=False)
        if verdict:
            break
    if verdict is None:
        alive = [j for j in range(nsub) if handle[j] is not None and term[j] is None and disp[j] is None
                 and (only is None or j == only)]
        if not alive:
            verdict = judge(last=True)
    view = [{"got": got[j], "recs": [[r["src"], r["opened"], r["closed"]] for r in W.recs if r["owner"] == j]}
            for j in range(nsub)]
    return {"verdict": verdict, "log": W.log, "view": view, "term": term, "disp": disp,
            "n_recs": len(W.recs), "notified_in_foreign_step": notified_in_foreign_step,
            "overlap": _overlap(script, term, disp, handle)}


def _overlap(script, term, disp, handle):
    """which termination patterns happened while ANOTHER subscriber was running"""
    out = set()
    nsub = len(term)
    start = {}
    for i, a in enumerate(script):
        if a[0] == "sub":
            start.setdefault(a[1], i + 1)
    end = [min([s for s in (term[j], disp[j]) if s is not None], default=None) for j in range(nsub)]
    for j in range(nsub):
        if handle[j] is None or end[j] is None:
            continue
        for y in range(nsub):
            if y == j or handle[y] is None or y not in start:
                continue
            if start[y] < end[j] and (end[y] is None or end[y] > end[j]):
                out.add("terminal_while_other_running" if term[j] is not None and term[j] == end[j]
                        else "dispose_while_other_running")
                if start[y] > start.get(j, 0):
                    out.add("earlier_ends_while_later_running")
    return sorted(out)


# ---------------------------------------------------------------------------------------------------------
# generation, shrinking, family driver, replay
# ---------------------------------------------------------------------------------------------------------

TAILS = [None, None, None, None, ["take", 1], ["take", 1], ["take", 2], ["first"]]


def gen_case(name, case_seed):
    rng = random.Random(case_seed)
    params = cat()[name][0](rng)
    n = params["n"]
    nsub = rng.choice([2, 2, 3])
    tails = [rng.choice(TAILS) for _ in range(nsub)]
    early = rng.random() < 0.7            # everybody subscribes before the first event
    script = [["sub", 0]]
    subscribed = 1
    for _ in range(rng.randint(4, 12)):
        if subscribed < nsub and (early or rng.random() < 0.35):
            script.append(["sub", subscribed])
            subscribed += 1
            continue
        r = rng.random()
        if r < 0.08:
            script.append(["dispose", rng.randrange(subscribed)])
            continue
        who = "all" if rng.random() < 0.25 else rng.randrange(subscribed)
        kind = rng.choice("NNNNNNECC")
        script.append(["ev", rng.randrange(n), who, kind, rng.randrange(4)])
    while subscribed < nsub:
        script.append(["sub", subscribed])
        subscribed += 1
    order = list(range(nsub))
    rng.shuffle(order)
    script += [["dispose", j] for j in order]
    return params, tails, script


def shrink(name, params, tails, script, kind):
    """greedy: drop steps / tail stages while the same kind of verdict remains"""
    def fails(t, s):
        try:
            v = run_script(name, params, t, s)["verdict"]
        except Exception:                 # noqa: BLE001
            return False
        return v is not None and v[0] == kind
    changed = True
    while changed:
        changed = False
        for i in range(len(script) - 1, -1, -1):
            cand = script[:i] + script[i + 1:]
            if fails(tails, cand):
                script, changed = cand, True
        for j in range(len(tails)):
            if tails[j] is not None:
                cand = tails[:j] + [None] + tails[j + 1:]
                if fails(cand, script):
                    tails, changed = cand, True
    return tails, script


def describe(name, params, tails, script, res):
    return {"family": "overlap", "operator": name, "params": params, "tail_stage_of_subscriber": tails,
            "script": script, "what": res["verdict"][1] if res["verdict"] else None,
            "verdict_kind": res["verdict"][0] if res["verdict"] else None,
            "log (step, what, ...)": res["log"],
            "subscriber_received (step, kind, value)": [v["got"] for v in res["view"]]}


def family(chk, pid, ncase, rng, names=None):
    """-> (histogram, set of non-trivial case ids)"""
    hist = {"cases": 0, "operators": 0, "subscribers_3": 0, "source_subscriptions": 0,
            "terminal_while_other_running": 0, "dispose_while_other_running": 0,
            "earlier_ends_while_later_running": 0, "terminated_by_tail_stage_while_other_running": 0,
            "not_judged:differs_from_solo_run": 0, "not_judged:notified_in_a_step_directed_at_another": 0}
    nontrivial = set()
    names = names or sorted(cat())
    hist["operators"] = len(names)
    for name in names:
        for _ in range(ncase):
            seed = rng.getrandbits(48)
            params, tails, script = gen_case(name, seed)
            res = run_script(name, params, tails, script)
            chk.cov["evaluations"] += 1
            hist["cases"] += 1
            hist["subscribers_3"] += len(tails) == 3
            hist["source_subscriptions"] += res["n_recs"]
            for o in res["overlap"]:
                hist[o] += 1
            v = res["verdict"]
            if v:
                tails2, script2 = shrink(name, params, list(tails), list(script), v[0])
                res2 = run_script(name, params, tails2, script2)
                if not res2["verdict"] or res2["verdict"][0] != v[0]:
                    tails2, script2, res2 = tails, script, res
                chk.violation(f"{pid}|overlap|{name}|{v[0]}",
                              dict(describe(name, params, tails2, script2, res2), generated_from_case_seed=seed),
                              size=len(script2) + {"leak_after_terminal": 0, "leak_after_dispose": 1}.get(v[0], 2))
                continue
            if "terminal_while_other_running" in res["overlap"]:
                # ended by the tail stage: the subscriber's terminal came in a step that delivered an element
                for j, t in enumerate(tails):
                    if t is not None and res["term"][j] is not None and any(
                            a[0] == "ev" and a[3] == "N" for a in script[res["term"][j] - 1:res["term"][j]]):
                        hist["terminated_by_tail_stage_while_other_running"] += 1
                        break
            hist["not_judged:notified_in_a_step_directed_at_another"] += bool(res["notified_in_foreign_step"])
            # coverage only: each subscriber's view against the same script with that subscriber alone
            differs = False
            for j in range(len(tails)):
                solo = run_script(name, params, tails, script, only=j)
                if solo["view"][j] != res["view"][j]:
                    differs = True
            hist["not_judged:differs_from_solo_run"] += differs
            if res["overlap"] and res["n_recs"]:
                nontrivial.add((name, seed))
    return hist, nontrivial


def is_replay(d):
    return isinstance(d, dict) and d.get("family") == "overlap" and "script" in d


def replay_main(pid, path):
    d = json.load(open(path))
    res = run_script(d["operator"], d["params"], d["tail_stage_of_subscriber"], d["script"])
    print(json.dumps(describe(d["operator"], d["params"], d["tail_stage_of_subscriber"], d["script"], res),
                     indent=1, default=repr))
    if res["verdict"]:
        print(f"VIOLATION property={pid} replay={path}")
        return 1
    print(f"[{pid}] replay: the case no longer fails")
    return 0
