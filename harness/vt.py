"""Shared driver for the virtual-time checks (C28, C29, C35, C42).

A *history* is JSON-able data (all times are integer MICROSECONDS):

  top-level command   ["do", cmd] | ["start"] | ["start_test"] | ["advto", t] | ["advby", d]
  command             ["sched", when, label, body] | ["cancel", r] | ["stop"] | ["sleep", d] |
                      ["raise", e] | ["note", n] | ["periodic", p, table, st0] | ["pcancel", pid] |
                      ["nstart"] | ["nadvto", t] | ["nadvby", d]   (only inside a body: start() /
                      advance_to(t) / advance_by(d) called on the scheduler from INSIDE a running action)
  when                ["rel", d] | ["abs", t] | ["now"]
  body                list of commands (what the action does when it runs, after logging
                      (label, clock reading))
  table               [[ [state, result], ... ], default]   result = ["next", notes, st] |
                      ["next", notes, st, sleep_us] (the action calls scheduler.sleep(sleep_us) before
                      returning: it takes virtual time) | ["disp", notes] | ["raise", notes, e]

`run_impl` executes it on the real scheduler and returns the observation list
(the same alphabet as Core/VTime.v `oev`); `g_history` prints it as a Gallina
`list tcmd`; `g_obs` prints an observation list.

Nested run-loop calls have no constructor in Core/VTime.v.  While a run loop is active
(`_is_enabled`) they are guarded no-ops, so `g_history` ERASES them (advance_by(d < 0), whose
argument check precedes the guard, is printed as the equally ArgumentOutOfRange-raising
`SSleep d`): the correspondence then says that the implementation treats them as no-ops.
`model_ok(h)` tells whether that rendering is faithful (no `nadvto`, whose argument check depends
on the clock, and no nested call after a `stop` in the same body, which really re-enters the loop).

Every schedule call passes a fresh `state` object; the action checks that it receives that very
object (trace event "badstate" otherwise).  `cancel r` disposes the disposable RETURNED by the
r-th schedule call (for items the harness did not schedule itself -- periodic re-arms,
TestScheduler.start's items -- the disposable recorded by the instrumentation hook).
"""
from __future__ import annotations

from datetime import datetime, timedelta

import lib

US = 1_000_000
NEST = ("nstart", "nadvto", "nadvby")
WORLDS = ("vts", "test", "hist")        # VirtualTimeScheduler, TestScheduler, HistoricalScheduler
KIND = {"vts": "Numeric", "test": "Numeric", "hist": "Datetime"}
AOOR = -1


class UserErr(Exception):
    def __init__(self, code):
        super().__init__(f"user error {code}")
        self.code = code


class Hang(BaseException):
    pass


def _classes():
    lib.import_repo()
    from reactivex.scheduler import HistoricalScheduler, VirtualTimeScheduler
    from reactivex.testing import TestScheduler
    return {"vts": VirtualTimeScheduler, "test": TestScheduler, "hist": HistoricalScheduler}


_REC = {}


def recording_class(world):
    """The real scheduler class with ONE observation hook: every disposable
    returned by schedule_absolute (the funnel of schedule/schedule_relative) is
    appended to `self._handles`, so that the i-th item ever enqueued can be
    cancelled by index.  Behaviour is unchanged."""
    if world not in _REC:
        base = _classes()[world]

        class Rec(base):
            __test__ = False

            def schedule_absolute(self, duetime, action, state=None):
                d = super().schedule_absolute(duetime, action, state)
                self._enq_hook(len(self._handles), duetime)
                self._handles.append(d)
                return d
        Rec.__name__ = "Rec" + base.__name__
        _REC[world] = Rec
    return _REC[world]


class World:
    """conversions between integer microseconds and the scheduler's time types"""

    def __init__(self, world, c0, int_when_possible=False):
        from reactivex.internal.constants import UTC_ZERO
        self.world, self.c0, self.utc0 = world, c0, UTC_ZERO
        self.iwp = int_when_possible
        cls = recording_class(world)
        if world == "hist":
            self.s = cls(self.abs_(c0))
        else:
            self.s = cls(self.abs_(c0))
        self.s._handles = []
        self.s._enq_hook = lambda i, due: None

    def abs_(self, t):
        if self.world == "hist":
            return self.utc0 + timedelta(microseconds=t)
        if self.iwp and t % US == 0:
            return t // US
        return t / US

    def rel_(self, d):
        if self.world == "hist":
            return timedelta(microseconds=d)
        if self.iwp and d % US == 0:
            return d // US
        return d / US

    def us(self, v):
        """clock reading -> integer microseconds (None if not exact to 1e-3 us)"""
        if isinstance(v, datetime):
            td = v - self.utc0
            return (td.days * 86400 + td.seconds) * US + td.microseconds
        x = v * US
        r = round(x)
        if abs(x - r) > 1e-3:
            raise AssertionError(f"clock reading {v!r} is not a whole number of microseconds")
        return int(r)


def run_impl(world, c0, history, catch=None, timeout=10.0, iwp=False, clock_via="clock"):
    """Run `history` on the real scheduler.  catch = None | dict code->verdict
    (then every schedule call goes through CatchScheduler(inner, handler) and
    actions use the scheduler handed to them).  Returns (observation list compared with
    the model, trace for the oracles)."""
    lib.import_repo()
    from reactivex.internal import ArgumentOutOfRangeException
    from reactivex.scheduler import VirtualTimeScheduler
    w = World(world, c0, iwp)
    s = w.s
    obs = []
    trace = []          # richer event list for the oracles (never compared with the model)
    phandles = []
    rets = {}           # item id -> the disposable RETURNED by the schedule call that created it
    depth = [0]         # > 0 while an action (or a periodic action) is running
    s._enq_hook = lambda i, due: trace.append(("enq", i, w.us(due)))

    def read():
        if clock_via == "clock":
            return w.us(s.clock)
        return w.us(s.now)

    if catch is not None:
        from reactivex.scheduler import CatchScheduler

        def handler(ex):
            code = ex.code if isinstance(ex, UserErr) else (AOOR if isinstance(ex, ArgumentOutOfRangeException) else -99)
            obs.append(("handler", code))
            v = catch[str(code)] if str(code) in catch else catch.get(code, False)
            trace.append(("handler", code, v is True, repr(v)))     # only True swallows (C42 statement)
            return v
        top = CatchScheduler(s, handler)
    else:
        top = s

    def make_paction(pid, table):
        entries = {int(k): v for k, v in table[0]}
        default = table[1]

        def paction(state):
            if not isinstance(state, int) or isinstance(state, bool):
                # the periodic action must receive the state returned by the previous call (an int here)
                trace.append(("badstate", -1 - pid, -1, repr(state)))
                state = -1
            obs.append(("tick", pid, int(state), read()))
            trace.append(("tick", pid, int(state), obs[-1][3]))
            r = entries.get(int(state), default)
            for n in r[1]:
                obs.append(("note", n))
            if r[0] == "next":
                if len(r) > 3 and r[3]:
                    before = read()
                    trace.append(("sleepb",))
                    s.sleep(w.rel_(r[3]))                 # the periodic action takes virtual time
                    trace.append(("sleep", r[3], before, read()))
                return r[2]
            if r[0] == "disp":
                trace.append(("pcancel", pid))
                phandles[pid].dispose()
                return 0
            trace.append(("raise", r[2], 1, pid, 1))
            raise UserErr(r[2])
        return paction

    def do(sc, cmd, sd=0):
        k = cmd[0]
        if k == "sched":
            _, when, label, body = cmd
            before = read()
            iid = len(s._handles)
            # the due time the call asks for (specification, not the implementation's arithmetic)
            due = when[1] if when[0] == "abs" else before + when[1] if when[0] == "rel" else before

            token = ["state", iid]          # fresh object: the action must receive this very object

            def action(sc2, state, label=label, body=body, iid=iid, token=token):
                k_ = read()
                if label >= 0:
                    obs.append(("run", label, k_))
                trace.append(("run", iid, label, k_))
                if state is not token:
                    trace.append(("badstate", iid, label, repr(state)))
                depth[0] += 1
                try:
                    for c in body:
                        do(sc2, c, sd + 1)
                finally:
                    depth[0] -= 1
                    trace.append(("end", iid))
            # state is passed positionally / by keyword alternately (both are the public signature)
            kw = iid % 2 == 1
            if when[0] == "rel":
                ret = (sc.schedule_relative(w.rel_(when[1]), action, state=token) if kw else
                       sc.schedule_relative(w.rel_(when[1]), action, token))
            elif when[0] == "abs":
                ret = (sc.schedule_absolute(w.abs_(when[1]), action, state=token) if kw else
                       sc.schedule_absolute(w.abs_(when[1]), action, token))
            else:
                ret = sc.schedule(action, state=token) if kw else sc.schedule(action, token)
            if len(s._handles) == iid + 1:
                rets[iid] = ret
            trace.append(("sched", iid, label, due, before))
        elif k == "cancel":
            if cmd[1] < len(s._handles):
                trace.append(("cancel", cmd[1], "returned" if cmd[1] in rets else "hook"))
                (rets[cmd[1]] if cmd[1] in rets else s._handles[cmd[1]]).dispose()
        elif k == "stop":
            trace.append(("stop",))
            s.stop()
        elif k == "sleep":
            before = read()
            trace.append(("sleepb",))
            try:
                s.sleep(w.rel_(cmd[1]))
            except ArgumentOutOfRangeException:
                trace.append(("sleep", cmd[1], before, read()))
                trace.append(("raise", AOOR, depth[0], None, sd))
                raise
            trace.append(("sleep", cmd[1], before, read()))
        elif k in NEST:
            # start() / advance_to() / advance_by() issued from inside a running action
            before = read()
            arg = cmd[1] if len(cmd) > 1 else None
            trace.append(("nest", k, arg, before, depth[0]))
            own = (k == "nadvto" and arg < before) or (k == "nadvby" and arg < 0)
            try:
                if k == "nstart":
                    VirtualTimeScheduler.start(s)
                elif k == "nadvto":
                    s.advance_to(w.abs_(arg))
                else:
                    s.advance_by(w.rel_(arg))
            except ArgumentOutOfRangeException:
                trace.append(("nestret", read()))
                if own:                 # the call's own argument check (precedes the _is_enabled guard)
                    trace.append(("raise", AOOR, depth[0], None, sd))
                raise
            except Exception:
                trace.append(("nestret", read()))
                raise
            trace.append(("nestret", read()))
        elif k == "raise":
            trace.append(("raise", cmd[1], depth[0], None, sd))
            raise UserErr(cmd[1])
        elif k == "note":
            obs.append(("note", cmd[1]))
        elif k == "periodic":
            pid = len(phandles)
            phandles.append(None)
            trace.append(("periodic", pid, cmd[1], cmd[3], read(), len(s._handles)))
            phandles[pid] = sc.schedule_periodic(w.rel_(cmd[1]), make_paction(pid, cmd[2]), cmd[3])
        elif k == "pcancel":
            if cmd[1] < len(phandles) and phandles[cmd[1]] is not None:
                trace.append(("pcancel", cmd[1]))
                phandles[cmd[1]].dispose()
        else:
            raise ValueError(cmd)

    def top_cmd(tc):
        k = tc[0]
        if k == "do":
            do(top, tc[1])
        elif k == "start":
            VirtualTimeScheduler.start(s)
        elif k == "start_test":
            s.start()                      # TestScheduler.start(): create/subscribe/dispose items + start
        elif k == "advto":
            s.advance_to(w.abs_(tc[1]))
        elif k == "advby":
            s.advance_by(w.rel_(tc[1]))
        else:
            raise ValueError(tc)

    def whole():
        for tc in history:
            trace.append(("top", tc[0], tc[1] if len(tc) > 1 and tc[0] != "do" else None, read()))
            try:
                top_cmd(tc)
            except UserErr as e:
                obs.append(("exc", e.code))
                trace.append(("exc", e.code))
            except ArgumentOutOfRangeException:
                obs.append(("exc", AOOR))
                trace.append(("exc", AOOR))
            obs.append(("clock", read()))
            trace.append(("ret", obs[-1][1]))

    status, _ = lib.with_timeout(timeout, whole)
    if status == "timeout":
        obs.append(("hang",))
        trace.append(("hang",))
    return obs, trace


# ------------------------------------------------------------------ Gallina

def gz(n):
    return f"({int(n)})" if n < 0 else str(int(n))


def g_notes(ns):
    return "[" + "; ".join(gz(n) for n in ns) + "]"


def g_pres(r):
    if r[0] == "next":
        return f"PNext {g_notes(r[1])} {int(r[3]) if len(r) > 3 else 0}%N {gz(r[2])}"
    if r[0] == "disp":
        return f"PNextDisposed {g_notes(r[1])}"
    return f"PRaise {g_notes(r[1])} {gz(r[2])}"


def g_table(t):
    return "([" + "; ".join(f"({gz(k)}, {g_pres(v)})" for k, v in t[0]) + f"], {g_pres(t[1])})"


def g_when(wh):
    if wh[0] == "rel":
        return f"(Rel {gz(wh[1])})"
    if wh[0] == "abs":
        return f"(Abs {gz(wh[1])})"
    return "Now"


def _erased(c):
    """nested run-loop calls that are guarded no-ops while a loop is active (see module docstring)"""
    return c[0] == "nstart" or (c[0] == "nadvby" and c[1] >= 0)


def g_cmd(c):
    k = c[0]
    if k == "sched":
        return f"SSched {g_when(c[1])} {gz(c[2])} [" + "; ".join(g_cmd(x) for x in c[3] if not _erased(x)) + "]"
    if k == "nadvby" and c[1] < 0:
        return f"SSleep {gz(c[1])}"         # raises ArgumentOutOfRangeException before the guard, like sleep(d < 0)
    if k == "cancel":
        return f"SCancel {c[1]}%nat"
    if k == "stop":
        return "SStop"
    if k == "sleep":
        return f"SSleep {gz(c[1])}"
    if k == "raise":
        return f"SRaise {gz(c[1])}"
    if k == "note":
        return f"SNote {gz(c[1])}"
    if k == "periodic":
        return f"SPeriodic {gz(c[1])} {g_table(c[2])} {gz(c[3])}"
    if k == "pcancel":
        return f"SPCancel {c[1]}%nat"
    raise ValueError(c)


def g_top(tc):
    k = tc[0]
    if k == "do":
        return f"TDo ({g_cmd(tc[1])})"
    if k == "start":
        return "TStart"
    if k == "start_test":
        return "TStartTest"
    if k == "advto":
        return f"TAdvTo {gz(tc[1])}"
    if k == "advby":
        return f"TAdvBy {gz(tc[1])}"
    raise ValueError(tc)


def g_history(h):
    return "[" + "; ".join(g_top(t) for t in h) + "]"


def g_oev(o):
    k = o[0]
    if k == "run":
        return f"ORun {gz(o[1])} {gz(o[2])}"
    if k == "tick":
        return f"OTick {o[1]}%nat {gz(o[2])} {gz(o[3])}"
    if k == "handler":
        return f"OHandler {gz(o[1])}"
    if k == "note":
        return f"ONote {gz(o[1])}"
    if k == "exc":
        return f"OExc {gz(o[1])}"
    if k == "clock":
        return f"OClock {gz(o[1])}"
    if k == "hang":
        return "OHang"
    raise ValueError(o)


def g_obs(obs):
    return "[" + "; ".join(g_oev(o) for o in obs) + "]"


def hsize(h):
    def cs(c):
        return 1 + sum(cs(x) for x in c[3]) if c[0] == "sched" else 0
    return sum((cs(t[1]) if t[0] == "do" else 3 if t[0] == "start_test" else 0) for t in h)


def has(h, kinds):
    """does any command (at any depth) have a kind in `kinds`"""
    def c_has(c):
        return c[0] in kinds or (c[0] == "sched" and any(c_has(x) for x in c[3]))
    return any((t[0] in kinds) or (t[0] == "do" and c_has(t[1])) for t in h)


def nest_info(h):
    """-> (number of nested run-loop calls, number of them after a `stop` in the same body,
    number of `nadvto`)"""
    n = [0, 0, 0]

    def body(b):
        stopped = False
        for c in b:
            if c[0] == "stop":
                stopped = True
            elif c[0] in NEST:
                n[0] += 1
                n[1] += stopped
                n[2] += c[0] == "nadvto"
            elif c[0] == "sched":
                body(c[3])
    for t in h:
        if t[0] == "do":
            if t[1][0] in NEST:
                raise ValueError("nested run-loop calls are body commands")
            if t[1][0] == "sched":
                body(t[1][3])
    return tuple(n)


def model_ok(h):
    """is g_history(h) a faithful input for Core/VTime.v (see module docstring)"""
    n, after_stop, advto = nest_info(h)
    return after_stop == 0 and advto == 0


# ------------------------------------------------------------------ generators

class Gen:
    """random histories.  `unit` scales the small integers drawn for times."""

    def __init__(self, rng, unit=US, labels=None, allow=("cancel", "stop", "sleep"), max_depth=3,
                 neg=True, raise_p=0.0, periodic_p=0.0,
                 table_kinds=("count", "count", "cycle", "raise", "disp"), sleep_p=0.0,
                 nest_p=0.0, nest_after_stop=False, nest_advto=True):
        self.rng, self.unit, self.allow, self.max_depth = rng, unit, allow, max_depth
        self.next_label = 0
        self.neg = neg
        self.raise_p, self.periodic_p = raise_p, periodic_p
        self.nsched = 0
        self.nper = 0
        self.table_kinds = table_kinds
        self.sleep_p = sleep_p
        # nested start()/advance_to()/advance_by() inside action bodies (no rng draw when nest_p == 0)
        self.nest_p, self.nest_after_stop, self.nest_advto = nest_p, nest_after_stop, nest_advto

    def delay(self):
        r = self.rng
        ch = [0, 0, 0, 1, 1, 2, 3, 5]
        if self.neg:
            ch += [-1, -2]
        return r.choice(ch) * self.unit

    def abst(self):
        return self.rng.choice([0, 0, 1, 2, 2, 3, 4, 5, 7, 10]) * self.unit

    def when(self):
        x = self.rng.random()
        if x < 0.4:
            return ["rel", self.delay()]
        if x < 0.7:
            return ["abs", self.abst()]
        return ["now"]

    def table(self, p=None):
        r = self.rng
        n = r.choice([1, 2, 3, 4, 6])
        kind = r.choice(self.table_kinds)
        entries = []
        for i in range(n):
            e = ["next", [], (i + 1) if kind != "cycle" else (i + 1) % n]
            if p and r.random() < self.sleep_p:
                # the action takes virtual time: fractions of the period, the period, sometimes more
                e.append(r.choice([p // 4, p // 2, p // 4, p, p + p // 2, 3 * p // 4]))
            entries.append([i, e])
        if kind == "raise":
            default = ["raise", [], r.randrange(0, 3)]
        elif kind == "disp":
            default = ["disp", [r.randrange(100, 103)]]
        elif kind == "count":
            default = ["next", [], n]            # stays at n forever
        else:
            default = ["next", [], 0]
        return [entries, default]

    def nested(self):
        r = self.rng
        x = r.random()
        if x < 0.35:
            return ["nstart"]
        if x < 0.8 or not self.nest_advto:
            return ["nadvby", r.choice([0, 1, 1, 2, 3, 5, 10] + ([-1] if self.neg else [])) * self.unit]
        return ["nadvto", self.abst() + r.choice([0, 0, 1, 3]) * self.unit]

    def cmd(self, depth):
        r = self.rng
        if self.nest_p and depth >= 1 and r.random() < self.nest_p:
            return self.nested()
        x = r.random()
        if x < self.raise_p:
            return ["raise", r.randrange(0, 3)]
        if x < self.raise_p + self.periodic_p:
            self.nper += 1
            p = r.choice([1, 1, 2, 3]) * self.unit
            return ["periodic", p, self.table(p), 0]
        x = r.random()
        if x < 0.55 or not self.allow:
            return self.sched(depth)
        k = r.choice(self.allow)
        if k == "cancel":
            return ["cancel", r.randrange(0, max(1, self.nsched + 2))]
        if k == "stop":
            return ["stop"]
        if k == "sleep":
            return ["sleep", self.delay()]
        if k == "pcancel":
            return ["pcancel", r.randrange(0, max(1, self.nper + 1))]
        if k == "note":
            return ["note", r.randrange(0, 5)]
        raise ValueError(k)

    def sched(self, depth):
        r = self.rng
        label = self.next_label
        self.next_label += 1
        self.nsched += 1
        body = []
        if depth < self.max_depth:
            stopped = False
            for _ in range(r.choice([0, 0, 1, 1, 2, 3])):
                c = self.cmd(depth + 1)
                if c[0] in NEST and stopped and not self.nest_after_stop:
                    continue        # after stop() in the same body the call really re-enters the loop
                stopped = stopped or c[0] == "stop"
                body.append(c)
        return ["sched", self.when(), label, body]

    def top(self, world, bounded_only=False):
        r = self.rng
        x = r.random()
        if x < 0.55:
            return ["do", self.cmd(0)]
        if x < 0.70:
            return ["advto", self.abst() + r.choice([0, 0, 1, 3]) * self.unit]
        if x < 0.80:
            return ["advby", r.choice([0, 1, 2, 3, 6, 10] + ([-1] if self.neg else [])) * self.unit]
        if bounded_only:
            return ["advby", r.choice([1, 2, 5]) * self.unit]
        if x < 0.97 or world != "test":
            return ["start"]
        return ["start_test"]

    def history(self, world, n, bounded_only=False):
        return [self.top(world, bounded_only) for _ in range(n)]


# ------------------------------------------------------------------ oracle (C28 / C29)

BUMP = {"vts": US, "test": US, "hist": 1000}


def oracle_vt(world, trace, check_exact=True):
    """Direct predicate of the C28 statement on what the implementation did.
    Never consults the model.  Returns a list of (signature, detail).

    pending: items scheduled and not yet run, by id -> (due, label, cancelled).
    """
    bad = []
    pending = {}          # id -> [due, label, cancelled]
    enq_due = {}          # id -> due seen by the instrumentation hook
    cur = None            # last clock reading
    top = None            # current top-level command (kind, arg, clock before)
    in_loop = False       # inside start()/advance_to(): items may be dequeued
    stuck = False         # an exception escaped a run loop: _is_enabled stays True (documented quirk)
    stopped = False
    pops_since_move = 0
    n_cancels = 0         # cancelled items are dequeued silently and count as spin iterations
    ran_in_top = []
    exc_in_top = None
    open_n = 0            # actions currently running (between their "run" and "end" events)
    in_sleep = 0          # > 0 between the call of sleep() and its return
    relooped = False      # a nested start()/advance call was issued after stop() in this top-level call:
                          # it legitimately re-enters the run loop (nothing about that is judged)

    def invoked(ev, what):
        """an action (or periodic action) is being invoked: may it run here at all?"""
        if in_sleep:
            bad.append(("action-ran-during-sleep", f"{what} {ev} ran inside sleep()"))
        elif top is not None and top[1] == "do":
            bad.append(("action-ran-outside-start-or-advance",
                        f"{what} {ev} ran during a top-level schedule/cancel/stop/sleep call"))
        elif open_n > 0 and not relooped:
            bad.append(("nested-run", f"{what} {ev} ran while another action was still running (a start()/"
                                      f"advance_to()/advance_by() issued from inside an action must return at once)"))

    def reading(k, what):
        nonlocal cur
        if cur is not None and k < cur:
            bad.append(("clock-moved-backwards", f"{what}: clock reading {k} after {cur}"))
        cur = k

    for ev in trace:
        k = ev[0]
        if k == "top":
            top = ev
            reading(ev[3], "before top-level call")
            in_loop = ev[1] in ("start", "start_test", "advto", "advby")
            stopped = False
            ran_in_top = []
            exc_in_top = None
            pops_since_move = 0
            open_n, in_sleep, relooped = 0, 0, False
        elif k == "enq":
            enq_due[ev[1]] = ev[2]
            if ev[1] not in pending:
                pending[ev[1]] = [ev[2], None, False]      # item not created by the harness (periodic, start_test)
        elif k == "sched":
            _, iid, label, due, before = ev
            if enq_due.get(iid) != due:
                bad.append(("due-time-not-relative-to-clock-at-scheduling",
                            f"item {iid} label {label}: asked for due {due} (clock {before}), enqueued with {enq_due.get(iid)}"))
            pending[iid] = [due, label, pending.get(iid, [0, 0, False])[2]]
        elif k == "cancel":
            n_cancels += 1
            if ev[1] in pending:
                pending[ev[1]][2] = True
        elif k == "stop":
            stopped = True
            stuck = False
        elif k == "sleepb":
            in_sleep += 1
        elif k == "end":
            open_n = max(0, open_n - 1)
        elif k == "nest":
            reading(ev[3], "before a nested start/advance call")
            if stopped:
                relooped = True
        elif k == "nestret":
            reading(ev[1], "after a nested start/advance call")
        elif k == "sleep":
            in_sleep = max(0, in_sleep - 1)
            _, d, before, after = ev
            reading(before, "before sleep")
            if d >= 0 and after != before + d:
                bad.append(("sleep-clock", f"sleep({d}) moved the clock from {before} to {after}"))
            if d < 0 and after != before:
                bad.append(("sleep-clock", f"sleep({d}) moved the clock from {before} to {after}"))
            reading(after, "after sleep")
        elif k == "run":
            _, iid, label, clk = ev
            invoked(ev, "action")
            open_n += 1
            if iid not in pending:
                bad.append(("ran-twice-or-unscheduled", f"item {iid} label {label}"))
                continue
            due, _, cancelled = pending.pop(iid)
            if cancelled:
                bad.append(("cancelled-action-ran", f"item {iid} label {label} ran at {clk} after its disposable was disposed"))
            # order: no pending, non-cancelled item precedes it in (due, scheduling order)
            for j, (dj, lj, cj) in pending.items():
                if not cj and lj is not None and (dj, j) < (due, iid):
                    bad.append(("run-order", f"item {iid} (due {due}) ran while item {j} (due {dj}) scheduled earlier in (due, order) was pending"))
                    break
            # clock at run
            before = cur
            exp = max(before, due)
            if clk != exp:
                skipped = [dj for j, (dj, lj, cj) in pending.items() if cj and exp < dj <= clk]
                bumped = (top is not None and (top[1] in ("start", "start_test") or relooped)
                          and clk == before + BUMP[world]
                          and due <= before and pops_since_move + n_cancels > 100)
                if not (bumped or (skipped and clk == max(skipped))):
                    bad.append(("clock-at-run", f"item {iid} due {due} ran with clock {clk}; clock before {before}"))
            if clk != before:
                pops_since_move = 0
            pops_since_move += 1
            reading(clk, "at run")
            ran_in_top.append((iid, due))
        elif k == "tick":
            invoked(ev, "periodic action")
            reading(ev[3], "at periodic tick")
        elif k == "exc":
            exc_in_top = ev[1]
        elif k == "ret":
            after = ev[1]
            kind, arg, before = top[1], top[2], top[3]
            if kind in ("advto", "advby"):
                target = arg if kind == "advto" else before + arg
                own_check = target < before
                if exc_in_top is not None and not own_check:
                    stuck = True
                if exc_in_top is None and not stuck and check_exact:
                    late = [(i, d) for i, d in ran_in_top if d > target]
                    if late and not relooped:
                        bad.append(("advance-ran-item-due-after-target", f"target {target}: ran {late}"))
                    left = sorted((d, i) for i, (d, l, c) in pending.items() if not c and l is not None and d <= target)
                    if target == before:
                        if left:
                            bad.append(("advance_to-target-equals-clock",
                                        f"advance to {target} with the clock at {before}: items due at or before the "
                                        f"target were not run: {left[:3]}"))
                    elif target > before:
                        if left and not stopped:
                            bad.append(("advance-left-due-item", f"target {target}: still pending {left[:3]}"))
                        if after != max(target, cur):
                            bad.append(("advance-clock-not-at-target", f"target {target}: clock {after} (last reading {cur})"))
            elif kind in ("start", "start_test"):
                if exc_in_top is not None:
                    stuck = True
                elif not stuck and not stopped and check_exact:
                    left = sorted((d, i) for i, (d, l, c) in pending.items() if not c and l is not None)
                    if left:
                        bad.append(("start-left-item", f"start() returned with pending {left[:3]}"))
            reading(after, "after top-level call")
            in_loop = False
        elif k == "hang":
            bad.append(("hang", f"no return within the watchdog during {top[1:] if top else None}"))
    return bad


# ------------------------------------------------------------------ oracle (C42)

def oracle_catch(trace):
    """Direct predicate of the C42 statement on the implementation's trace of a
    history run through CatchScheduler.  Returns [(signature, detail)]."""
    bad = []
    # bookkeeping events of the C28 oracle are not part of this predicate (keeps raise/handler adjacent)
    trace = [e for e in trace if e[0] not in ("end", "sleepb", "nest", "nestret")]
    dead = set()        # periodic subscriptions whose action raised
    seg_handlers = []   # handler events of the current top-level call
    seg_after_reject = False
    exc = None
    for i, ev in enumerate(trace):
        k = ev[0]
        if k == "top":
            seg_handlers, seg_after_reject, exc = [], False, None
        elif k == "raise":
            _, e, depth, pid = ev[:4]
            if depth > 0:
                nxt = trace[i + 1] if i + 1 < len(trace) else None
                if not (nxt and nxt[0] == "handler" and nxt[1] == e):
                    bad.append(("exception-not-passed-to-handler", f"an action raised {e}; next event {nxt}"))
                if pid is not None:
                    dead.add(pid)
        elif k == "handler":
            prev = trace[i - 1] if i else None
            if not (prev and prev[0] == "raise" and prev[1] == ev[1] and prev[2] > 0):
                bad.append(("handler-called-without-raise", f"handler({ev[1]}) after {prev}"))
            seg_handlers.append(ev)
            if not ev[2]:
                seg_after_reject = True
        elif k == "badstate":
            bad.append(("action-did-not-receive-its-state",
                        f"item {ev[1]} label {ev[2]} was scheduled with a state object and invoked with {ev[3]}"))
        elif k in ("run", "tick"):
            if seg_after_reject:
                bad.append(("work-continued-after-rejected-exception",
                            f"{ev} after the handler returned a value other than True"))
            if k == "tick" and ev[1] in dead:
                bad.append(("periodic-called-after-failure", f"{ev}"))
        elif k == "exc":
            exc = ev[1]
        elif k == "ret":
            rejected = [h for h in seg_handlers if not h[2]]
            if exc is None and rejected:
                bad.append(("rejected-exception-swallowed", f"handler returned {rejected[0][3] if len(rejected[0]) > 3 else False} (not True) for "
                                                            f"{rejected[0][1]} but the call returned normally"))
            if exc is not None and seg_handlers and not rejected:
                bad.append(("accepted-exception-propagated", f"call raised {exc} although the handler accepted {seg_handlers}"))
            if exc is not None and rejected and rejected[-1][1] != exc:
                bad.append(("wrong-exception-propagated", f"call raised {exc}, handler rejected {rejected[-1][1]}"))
    return bad
