"""Shared driver for the virtual-time checks (C28, C29, C35, C42).

A *history* is JSON-able data (all times are integer MICROSECONDS):

  top-level command   ["do", cmd] | ["start"] | ["start_test"] | ["advto", t] | ["advby", d]
  command             ["sched", when, label, body] | ["cancel", r] | ["stop"] | ["sleep", d] |
                      ["raise", e] | ["note", n] | ["periodic", p, table, st0] | ["pcancel", pid]
  when                ["rel", d] | ["abs", t] | ["now"]
  body                list of commands (what the action does when it runs, after logging
                      (label, clock reading))
  table               [[ [state, result], ... ], default]   result = ["next", notes, st] |
                      ["disp", notes] | ["raise", notes, e]

`run_impl` executes it on the real scheduler and returns the observation list
(the same alphabet as Core/VTime.v `oev`); `g_history` prints it as a Gallina
`list tcmd`; `g_obs` prints an observation list.
"""
from __future__ import annotations

from datetime import datetime, timedelta

import lib

US = 1_000_000
WORLDS = ("vts", "test", "hist")        # VirtualTimeScheduler, TestScheduler, HistoricalScheduler
KIND = {"vts": "Numeric", "test": "Numeric", "hist": "Datetime"}
AOOR = -1


class UserErr(Exception):
    def __init__(self, code):
        super().__init__(f"user error {code}")
        self.code = code


class Hang(BaseException):
    pass


def _classes():
    lib.import_repo()
    from reactivex.scheduler import HistoricalScheduler, VirtualTimeScheduler
    from reactivex.testing import TestScheduler
    return {"vts": VirtualTimeScheduler, "test": TestScheduler, "hist": HistoricalScheduler}


_REC = {}


def recording_class(world):
    """The real scheduler class with ONE observation hook: every disposable
    returned by schedule_absolute (the funnel of schedule/schedule_relative) is
    appended to `self._handles`, so that the i-th item ever enqueued can be
    cancelled by index.  Behaviour is unchanged."""
    if world not in _REC:
        base = _classes()[world]

        class Rec(base):
            __test__ = False

            def schedule_absolute(self, duetime, action, state=None):
                d = super().schedule_absolute(duetime, action, state)
                self._handles.append(d)
                return d
        Rec.__name__ = "Rec" + base.__name__
        _REC[world] = Rec
    return _REC[world]


class World:
    """conversions between integer microseconds and the scheduler's time types"""

    def __init__(self, world, c0, int_when_possible=False):
        from reactivex.internal.constants import UTC_ZERO
        self.world, self.c0, self.utc0 = world, c0, UTC_ZERO
        self.iwp = int_when_possible
        cls = recording_class(world)
        if world == "hist":
            self.s = cls(self.abs_(c0))
        else:
            self.s = cls(self.abs_(c0))
        self.s._handles = []

    def abs_(self, t):
        if self.world == "hist":
            return self.utc0 + timedelta(microseconds=t)
        if self.iwp and t % US == 0:
            return t // US
        return t / US

    def rel_(self, d):
        if self.world == "hist":
            return timedelta(microseconds=d)
        if self.iwp and d % US == 0:
            return d // US
        return d / US

    def us(self, v):
        """clock reading -> integer microseconds (None if not exact to 1e-3 us)"""
        if isinstance(v, datetime):
            td = v - self.utc0
            return (td.days * 86400 + td.seconds) * US + td.microseconds
        x = v * US
        r = round(x)
        if abs(x - r) > 1e-3:
            raise AssertionError(f"clock reading {v!r} is not a whole number of microseconds")
        return int(r)


def run_impl(world, c0, history, catch=None, timeout=10.0, iwp=False, clock_via="clock"):
    """Run `history` on the real scheduler.  catch = None | dict code->verdict
    (then every schedule call goes through CatchScheduler(inner, handler) and
    actions use the scheduler handed to them).  Returns the observation list."""
    lib.import_repo()
    from reactivex.internal import ArgumentOutOfRangeException
    from reactivex.scheduler import VirtualTimeScheduler
    w = World(world, c0, iwp)
    s = w.s
    obs = []
    phandles = []

    def read():
        if clock_via == "clock":
            return w.us(s.clock)
        return w.us(s.now)

    if catch is not None:
        from reactivex.scheduler import CatchScheduler

        def handler(ex):
            code = ex.code if isinstance(ex, UserErr) else (AOOR if isinstance(ex, ArgumentOutOfRangeException) else -99)
            obs.append(("handler", code))
            return catch[str(code)] if str(code) in catch else catch.get(code, False)
        top = CatchScheduler(s, handler)
    else:
        top = s

    def make_paction(pid, table):
        entries = {int(k): v for k, v in table[0]}
        default = table[1]

        def paction(state):
            obs.append(("tick", pid, int(state), read()))
            r = entries.get(int(state), default)
            for n in r[1]:
                obs.append(("note", n))
            if r[0] == "next":
                return r[2]
            if r[0] == "disp":
                phandles[pid].dispose()
                return 0
            raise UserErr(r[2])
        return paction

    def do(sc, cmd):
        k = cmd[0]
        if k == "sched":
            _, when, label, body = cmd

            def action(sc2, state, label=label, body=body):
                if label >= 0:
                    obs.append(("run", label, read()))
                for c in body:
                    do(sc2, c)
            if when[0] == "rel":
                sc.schedule_relative(w.rel_(when[1]), action)
            elif when[0] == "abs":
                sc.schedule_absolute(w.abs_(when[1]), action)
            else:
                sc.schedule(action)
        elif k == "cancel":
            if cmd[1] < len(s._handles):
                s._handles[cmd[1]].dispose()
        elif k == "stop":
            s.stop()
        elif k == "sleep":
            s.sleep(w.rel_(cmd[1]))
        elif k == "raise":
            raise UserErr(cmd[1])
        elif k == "note":
            obs.append(("note", cmd[1]))
        elif k == "periodic":
            pid = len(phandles)
            phandles.append(None)
            phandles[pid] = sc.schedule_periodic(w.rel_(cmd[1]), make_paction(pid, cmd[2]), cmd[3])
        elif k == "pcancel":
            if cmd[1] < len(phandles) and phandles[cmd[1]] is not None:
                phandles[cmd[1]].dispose()
        else:
            raise ValueError(cmd)

    def top_cmd(tc):
        k = tc[0]
        if k == "do":
            do(top, tc[1])
        elif k == "start":
            VirtualTimeScheduler.start(s)
        elif k == "start_test":
            s.start()                      # TestScheduler.start(): create/subscribe/dispose items + start
        elif k == "advto":
            s.advance_to(w.abs_(tc[1]))
        elif k == "advby":
            s.advance_by(w.rel_(tc[1]))
        else:
            raise ValueError(tc)

    def whole():
        for tc in history:
            try:
                top_cmd(tc)
            except UserErr as e:
                obs.append(("exc", e.code))
            except ArgumentOutOfRangeException:
                obs.append(("exc", AOOR))
            obs.append(("clock", read()))

    status, _ = lib.with_timeout(timeout, whole)
    if status == "timeout":
        obs.append(("hang",))
    return obs


# ------------------------------------------------------------------ Gallina

def gz(n):
    return f"({int(n)})" if n < 0 else str(int(n))


def g_notes(ns):
    return "[" + "; ".join(gz(n) for n in ns) + "]"


def g_pres(r):
    if r[0] == "next":
        return f"PNext {g_notes(r[1])} {gz(r[2])}"
    if r[0] == "disp":
        return f"PNextDisposed {g_notes(r[1])}"
    return f"PRaise {g_notes(r[1])} {gz(r[2])}"


def g_table(t):
    return "([" + "; ".join(f"({gz(k)}, {g_pres(v)})" for k, v in t[0]) + f"], {g_pres(t[1])})"


def g_when(wh):
    if wh[0] == "rel":
        return f"(Rel {gz(wh[1])})"
    if wh[0] == "abs":
        return f"(Abs {gz(wh[1])})"
    return "Now"


def g_cmd(c):
    k = c[0]
    if k == "sched":
        return f"SSched {g_when(c[1])} {gz(c[2])} [" + "; ".join(g_cmd(x) for x in c[3]) + "]"
    if k == "cancel":
        return f"SCancel {c[1]}%nat"
    if k == "stop":
        return "SStop"
    if k == "sleep":
        return f"SSleep {gz(c[1])}"
    if k == "raise":
        return f"SRaise {gz(c[1])}"
    if k == "note":
        return f"SNote {gz(c[1])}"
    if k == "periodic":
        return f"SPeriodic {gz(c[1])} {g_table(c[2])} {gz(c[3])}"
    if k == "pcancel":
        return f"SPCancel {c[1]}%nat"
    raise ValueError(c)


def g_top(tc):
    k = tc[0]
    if k == "do":
        return f"TDo ({g_cmd(tc[1])})"
    if k == "start":
        return "TStart"
    if k == "start_test":
        return "TStartTest"
    if k == "advto":
        return f"TAdvTo {gz(tc[1])}"
    if k == "advby":
        return f"TAdvBy {gz(tc[1])}"
    raise ValueError(tc)


def g_history(h):
    return "[" + "; ".join(g_top(t) for t in h) + "]"


def g_oev(o):
    k = o[0]
    if k == "run":
        return f"ORun {gz(o[1])} {gz(o[2])}"
    if k == "tick":
        return f"OTick {o[1]}%nat {gz(o[2])} {gz(o[3])}"
    if k == "handler":
        return f"OHandler {gz(o[1])}"
    if k == "note":
        return f"ONote {gz(o[1])}"
    if k == "exc":
        return f"OExc {gz(o[1])}"
    if k == "clock":
        return f"OClock {gz(o[1])}"
    if k == "hang":
        return "OHang"
    raise ValueError(o)


def g_obs(obs):
    return "[" + "; ".join(g_oev(o) for o in obs) + "]"


def hsize(h):
    def cs(c):
        return 1 + sum(cs(x) for x in c[3]) if c[0] == "sched" else 0
    return sum((cs(t[1]) if t[0] == "do" else 3 if t[0] == "start_test" else 0) for t in h)


def has(h, kinds):
    """does any command (at any depth) have a kind in `kinds`"""
    def c_has(c):
        return c[0] in kinds or (c[0] == "sched" and any(c_has(x) for x in c[3]))
    return any((t[0] in kinds) or (t[0] == "do" and c_has(t[1])) for t in h)


# ------------------------------------------------------------------ generators

class Gen:
    """random histories.  `unit` scales the small integers drawn for times."""

    def __init__(self, rng, unit=US, labels=None, allow=("cancel", "stop", "sleep"), max_depth=3,
                 neg=True, raise_p=0.0, periodic_p=0.0):
        self.rng, self.unit, self.allow, self.max_depth = rng, unit, allow, max_depth
        self.next_label = 0
        self.neg = neg
        self.raise_p, self.periodic_p = raise_p, periodic_p
        self.nsched = 0
        self.nper = 0

    def delay(self):
        r = self.rng
        ch = [0, 0, 0, 1, 1, 2, 3, 5]
        if self.neg:
            ch += [-1, -2]
        return r.choice(ch) * self.unit

    def abst(self):
        return self.rng.choice([0, 0, 1, 2, 2, 3, 4, 5, 7, 10]) * self.unit

    def when(self):
        x = self.rng.random()
        if x < 0.4:
            return ["rel", self.delay()]
        if x < 0.7:
            return ["abs", self.abst()]
        return ["now"]

    def table(self):
        r = self.rng
        n = r.choice([1, 2, 3, 4, 6])
        kind = r.choice(["count", "count", "cycle", "raise", "disp"])
        entries = []
        for i in range(n):
            entries.append([i, ["next", [], (i + 1) if kind != "cycle" else (i + 1) % n]])
        if kind == "raise":
            default = ["raise", [], r.randrange(0, 3)]
        elif kind == "disp":
            default = ["disp", [r.randrange(100, 103)]]
        elif kind == "count":
            default = ["next", [], n]            # stays at n forever
        else:
            default = ["next", [], 0]
        return [entries, default]

    def cmd(self, depth):
        r = self.rng
        x = r.random()
        if x < self.raise_p:
            return ["raise", r.randrange(0, 3)]
        if x < self.raise_p + self.periodic_p:
            self.nper += 1
            p = r.choice([1, 1, 2, 3]) * self.unit
            return ["periodic", p, self.table(), 0]
        x = r.random()
        if x < 0.55 or not self.allow:
            return self.sched(depth)
        k = r.choice(self.allow)
        if k == "cancel":
            return ["cancel", r.randrange(0, max(1, self.nsched + 2))]
        if k == "stop":
            return ["stop"]
        if k == "sleep":
            return ["sleep", self.delay()]
        if k == "pcancel":
            return ["pcancel", r.randrange(0, max(1, self.nper + 1))]
        if k == "note":
            return ["note", r.randrange(0, 5)]
        raise ValueError(k)

    def sched(self, depth):
        r = self.rng
        label = self.next_label
        self.next_label += 1
        self.nsched += 1
        body = []
        if depth < self.max_depth:
            for _ in range(r.choice([0, 0, 1, 1, 2, 3])):
                body.append(self.cmd(depth + 1))
        return ["sched", self.when(), label, body]

    def top(self, world, bounded_only=False):
        r = self.rng
        x = r.random()
        if x < 0.55:
            return ["do", self.cmd(0)]
        if x < 0.70:
            return ["advto", self.abst() + r.choice([0, 0, 1, 3]) * self.unit]
        if x < 0.80:
            return ["advby", r.choice([0, 1, 2, 3, 6, 10] + ([-1] if self.neg else [])) * self.unit]
        if bounded_only:
            return ["advby", r.choice([1, 2, 5]) * self.unit]
        if x < 0.97 or world != "test":
            return ["start"]
        return ["start_test"]

    def history(self, world, n, bounded_only=False):
        return [self.top(world, bounded_only) for _ in range(n)]
