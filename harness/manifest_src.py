"""Source of MANIFEST.json:  python3 harness/manifest_src.py  rewrites it."""
import json
import os

HERE = os.path.dirname(os.path.abspath(__file__))
VERIF = os.path.dirname(HERE)

COMMON_NOTE = ("Trusted: Coq 8.16.1 kernel + vm_compute; no axioms declared (Print Assumptions output recorded "
               "in evidence); python correspondence harness; CPython running /repo. ")

CHECKS = {
    "C07": dict(
        text="Theorem C07_slice_is_list_slice (all lists, all start/stop in Z or None, all steps >= 1) about the "
             "plan REGENERATED from _slice.py on every run by a fail-closed ast translator; the list-level "
             "semantics of the five operators the plan uses is tied to the real pipeline by an exhaustive "
             "small-scope differential run, and Python's own list slicing is the oracle.",
        note=COMMON_NOTE + "Translator slice_tr.py; list-level operator semantics in Ops/Slice.v modelled and "
             "validated by correspondence; lists shorter than sys.maxsize.",
        technique="Coq proof over a model regenerated from source (translator) + exhaustive small-scope "
                  "correspondence by vm_compute",
        design="7/C07"),
}

CHECKS["C05"] = dict(
    text="One theorem per operator (map, map_indexed, filter, filter_indexed, take, skip, take_while(+inclusive), "
         "skip_while, pairwise, start_with, default_if_empty, ignore_elements, take_last, take_last_buffer, "
         "element_at(_or_default), distinct, distinct_until_changed, find/find_index, skip_last, materialize, dematerialize o materialize): for every finite input and every "
         "termination the machine's tagged output equals the list computation (tags carry the timing clause); plus "
         "the grammar theorem for every machine on arbitrary input.  Machines are hand-written from the code and "
         "tied to it by K2 differential runs (hot source, non-conforming tails, raising callbacks, re-subscription "
         "warm-ups).  take_while_indexed, skip_while_indexed (a composition) and the raising-callback variants: "
         "modelled and in the correspondence + Python-list oracle, closed forms only for pure callbacks.",
    note=COMMON_NOTE + "Machines of Ops/Elementwise.v are models (correspondence-checked, not extracted from the "
         "code); pluck/starmap are map instances and are covered through map only.",
    technique="Coq proof (induction over the input list) on Mealy-machine models + differential correspondence "
              "evaluated by vm_compute + direct list oracle",
    design="7/C05")

ALL = [f"C{i:02d}" for i in range(1, 45)]
NOT_YET = "check not built yet (construction in progress, order in DESIGN.md section 10); no claim is made"


def load_fragments():
    d = os.path.join(HERE, "manifest.d")
    for fn in sorted(os.listdir(d)) if os.path.isdir(d) else []:
        if fn.endswith(".json"):
            frag = json.load(open(os.path.join(d, fn)))
            pid = fn[:-5]
            if "note" in frag and not frag["note"].startswith("Trusted:"):
                frag["note"] = COMMON_NOTE + frag["note"]
            # a fragment only counts once its check module and theorem file exist
            if os.path.exists(os.path.join(HERE, "props", pid + ".py")) and \
               os.path.exists(os.path.join(VERIF, "coq", "theories", "Props", pid + ".v")):
                CHECKS[pid] = frag


def main():
    load_fragments()
    checks = []
    for pid in ALL:
        if pid not in CHECKS:
            continue
        c = CHECKS[pid]
        checks.append({
            "property_id": pid,
            "quick_cmd": f"./check {pid} --tier quick",
            "thorough_cmd": f"./check {pid} --tier thorough",
            "evidence_file": f"/verif/evidence/{pid}.json",
            "replay_cmd_template": f"./check {pid} --replay {{path}}",
            "engine": "coq+correspondence",
            "level_claimed": {"category": c.get("category", "proof"), "text": c["text"],
                              "design_ref": "DESIGN.md section " + c["design"]},
            "level_note": c["note"],
            "technique": c["technique"],
        })
    man = {
        "version": 1,
        "setup_cmd": "./setup.sh",
        "hooks": {
            "guard": "REACTIVEX_RXPY_VERIF",
            "enable": "checks export REACTIVEX_RXPY_VERIF=1 and import reactivex from /repo's working tree "
                      "(PYTHONPATH=/repo); no source hook is needed so far: all instrumentation wraps the "
                      "library from the harness side",
            "baseline_off_cmd": "cd /repo && env -u REACTIVEX_RXPY_VERIF /venv/bin/python -m pytest -ra -q "
                                "-p no:cacheprovider --timeout=900 --continue-on-collection-errors",
            "source_commits": [],
            "add_only": True,
        },
        "engines": [{
            "name": "coq+correspondence", "path": "/verif/check",
            "serves_properties": [c["property_id"] for c in checks],
            "kind_free_text": "Coq 8.16.1 development (coq/theories: models, lemmas, Props/Cxx.v theorem files with "
                              "Print Assumptions; Gen/*.v regenerated from /repo by fail-closed translators) + python "
                              "harness that runs the implementation and has Coq evaluate the model on the same cases",
        }],
        "checks": checks,
        "not_applicable": [{"property_id": p, "reason": NA.get(p, NOT_YET)} for p in ALL if p not in CHECKS],
        "notes": "See DESIGN.md.  known_findings.json lists recorded findings and fixed defects.",
    }
    with open(os.path.join(VERIF, "MANIFEST.json"), "w") as f:
        json.dump(man, f, indent=1)


NA = {}

if __name__ == "__main__":
    main()
