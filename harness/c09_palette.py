"""C09, ORACLE-ONLY family: the injected callback exception is drawn from a PALETTE
of exception types that the library itself uses for control flow or catches
specifically somewhere (StopIteration around next(), IndexError / KeyError /
ValueError / TypeError / AttributeError around look-ups and conversions, its own
ArgumentOutOfRangeException / SequenceContainsNoElementsError / DisposedException /
WouldBlockException, TimeoutError, the asyncio / concurrent.futures exceptions that
derive from Exception, RuntimeError('generator raised StopIteration')), and a USER
SUBCLASS of each.  The property does not depend on the class of the exception: a
user callback raising any Exception must reach the subscriber as on_error with
that very object.  A handler of the library that is meant for the library's own
control flow (`except StopIteration: observer.on_completed()`) but also encloses a
user callback swallows or rewrites the user's exception; UserError / Boom never
show that.

Two parts, both oracle only:
 (rest)   every (operator, callback) of the c09_rest catalogue x EVERY palette
          entry, seeded script and position k (c09_rest.run_case / oracle, the
          case carries "exc": the palette entry);
 (tables) every callback operator of the C05/C06 tables x EVERY palette entry,
          seeded instance with raising tables and seeded hot input (k2.run_hot,
          the tables' `make_error` replaced for the run); oracle: nothing escapes,
          the subscriber's last notification is on_error with that very object at
          the raising input, no callback raises again, the source subscription is
          disposed at that input.

Not judged (the text is silent / Python's own protocol): an iterator's __next__
raising StopIteration (or a subclass) IS the end of the iteration, not a failure;
exceptions that do not derive from Exception (CancelledError of asyncio /
concurrent.futures on this Python) are outside the palette."""
from __future__ import annotations

import json
import random

import lib

BUDGET = 5.0

_BASE = ["StopIteration", "StopAsyncIteration", "IndexError", "KeyError", "ValueError", "TypeError",
         "AttributeError", "AssertionError", "LookupError", "ArithmeticError", "ZeroDivisionError", "OverflowError",
         "NotImplementedError", "RecursionError", "OSError",
         "ArgumentOutOfRangeException", "SequenceContainsNoElementsError", "DisposedException",
         "WouldBlockException", "InvalidOperationException",
         "TimeoutError", "asyncio.TimeoutError", "concurrent.futures.TimeoutError",
         "asyncio.CancelledError", "concurrent.futures.CancelledError",
         "asyncio.InvalidStateError", "concurrent.futures.InvalidStateError", "queue.Empty",
         "RuntimeError:generator raised StopIteration", "RuntimeError:coroutine raised StopIteration",
         "RuntimeError:async generator raised StopAsyncIteration"]
_CLASSES = {}


def _resolve(base):
    """name -> (class, message | None); None when the class is not an Exception subclass on this Python"""
    import builtins
    msg = None
    if ":" in base:
        base, msg = base.split(":", 1)
    if "." in base:
        import importlib
        mod, _, nm = base.rpartition(".")
        cls = getattr(importlib.import_module(mod), nm, None)
    elif hasattr(builtins, base):
        cls = getattr(builtins, base)
    else:
        lib.import_repo()
        import reactivex.internal.exceptions as ex
        cls = getattr(ex, base, None)
    if cls is None or not (isinstance(cls, type) and issubclass(cls, Exception)):
        return None
    return cls, msg


def palette():
    """the names of the palette: every base entry that is an Exception on this Python, and 'sub:<entry>' (a user
    subclass of it)"""
    out = []
    for b in _BASE:
        if _resolve(b) is not None:
            out += [b, "sub:" + b]
    return out


def make_exc(name, where=""):
    """a fresh exception object of the palette entry `name`"""
    sub = name.startswith("sub:")
    base = name[4:] if sub else name
    r = _resolve(base)
    if r is None:
        raise KeyError(name)
    cls, msg = r
    if sub:
        if base not in _CLASSES:
            _CLASSES[base] = type("User" + cls.__name__, (cls,), {"__doc__": "user subclass of " + cls.__name__})
        cls = _CLASSES[base]
    return cls(msg if msg is not None else f"injected {name} at {where}")


def is_protocol(cb, name):
    """raising this from this callback position is Python's own protocol, not a failure"""
    r = _resolve(name[4:] if name.startswith("sub:") else name)
    return cb == "next" and r is not None and issubclass(r[0], StopIteration)


# --------------------------------------------------------------------------
# (rest) the c09_rest catalogue


def _run_rest(case):
    import c09_rest
    status, v = lib.with_timeout(BUDGET, _run_rest_inner, case)
    if status != "ok":
        return [("hang", f"the run did not come back within {BUDGET} s")], {"raised": True, "deliverable": True,
                                                                            "delivered": False, "earlier": 0}, None
    return v


def _run_rest_inner(case):
    import c09_rest
    try:
        res = c09_rest.run_case(case)
        probs, info = c09_rest.oracle(case, res)
        return probs, info, res
    except Exception as e:          # anything escaping from the library into the driver
        return ([("driver-escape", f"{e!r} escaped from the library into the driver")],
                {"raised": True, "deliverable": True, "delivered": False, "earlier": 0}, None)


def rest_part(chk, cov, nontrivial):
    import c09_rest
    rng = chk.rng
    rounds = 1 if chk.tier == "quick" else 6
    names = palette()
    per_exc = cov["per_exception (raised, delivered as that object)"]
    for op, spec in c09_rest.CATALOGUE.items():
        for cb in spec["cbs"]:
            for name in names:
                if is_protocol(cb, name):
                    cov["skipped: StopIteration from an iterator's __next__ (the protocol's end of iteration)"] += 1
                    continue
                for _ in range(rounds):
                    case = info = probs = None
                    for attempt in range(4):        # a script in which the callback is reached k times
                        c = c09_rest.gen_case(rng, op, control=False)
                        if c["callback"] != cb:
                            c["callback"] = cb
                            c = _force_callback(c09_rest, rng, op, cb)
                        if attempt >= 2:
                            c["k"] = 1
                        c["exc"] = name
                        c["family"] = "palette-rest"
                        probs, info, res = _run_rest(c)
                        chk.cov["evaluations"] += 1
                        cov["rest_cases"] += 1
                        case = c
                        if info["raised"]:
                            break
                    if not info["raised"]:
                        cov["rest_not_reached"] += 1
                        continue
                    st = per_exc.setdefault(name, [0, 0])
                    st[0] += 1
                    key = f"{op}:{cb}"
                    cov["per (operator:callback) raised"][key] = cov["per (operator:callback) raised"].get(key, 0) + 1
                    if info["delivered"]:
                        st[1] += 1
                    if probs:
                        slug = probs[0][0]
                        small = case
                        if slug not in ("hang", "driver-escape"):
                            status, sm = lib.with_timeout(30.0, c09_rest.shrink, case, [slug])
                            if status == "ok":
                                sprobs, _, sres = _run_rest(sm)
                                if sprobs and sprobs[0][0] == slug and sres is not None:
                                    small, probs, res = sm, sprobs, sres
                        if res is not None:
                            rep = c09_rest.describe(small, res, probs)
                        else:
                            rep = {"rest_case": small, "what": [t for _, t in probs]}
                        rep["injected exception"] = name
                        chk.violation(f"palette|{op}|{cb}|{slug}", rep, size=len(small["script"]))
                    elif info["delivered"]:
                        nontrivial.add(json.dumps(["rest", op, cb, name, case["k"], case["params"], case["script"]],
                                                  sort_keys=True))


def _force_callback(c09_rest, rng, op, cb):
    """gen_case picks the callback itself; draw until it picks `cb` (few callbacks per operator)"""
    for _ in range(60):
        c = c09_rest.gen_case(rng, op, control=False)
        if c["callback"] == cb:
            return c
    c["callback"] = cb
    return c


# --------------------------------------------------------------------------
# (tables) the callback operators of the C05/C06 tables


class _Made:
    def __init__(self):
        self.objs = []      # (tag, code, object)


class palette_errors:
    """while active, a raising callback table raises a fresh object of the palette entry (k2.make_error replaced)"""

    def __init__(self, name):
        self.name, self.made = name, _Made()

    def __enter__(self):
        import k2
        self.old = k2.make_error

        def make_error(code):
            e = make_exc(self.name, f"table code {code}")
            if code >= 20:
                k2.RAISED.append((k2.CURRENT_TAG[0], code))
                self.made.objs.append((k2.CURRENT_TAG[0], code, e))
            return e
        k2.make_error = make_error
        return self.made

    def __exit__(self, *a):
        import k2
        k2.make_error = self.old


def table_case(table, op, name, case_seed):
    """-> (problems, info)"""
    import k2
    from props import C05, C06, C09
    rng = random.Random(case_seed)
    mod = {"C05": C05, "C06": C06}[table]
    with C09.raising_tables():
        pool, T = mod.ops_table()
        inst = T[op](rng)
    ipool = inst.get("pool", pool)
    if inst.get("pool") is not None:
        ins = C06.num_inputs(rng, ipool)
    else:
        ins = k2.gen_inputs(rng, ipool, maxlen=7)

    def go():
        with palette_errors(name) as made:
            try:
                return k2.run_hot(lambda s: s.pipe(inst["py"]), ins), made, None
            except Exception as e:
                return None, made, e
    status, v = lib.with_timeout(BUDGET, go)
    info = {"raised": False, "n": len(ins), "instance": inst["coq"], "inputs": [repr(e) for e in ins]}
    if status != "ok":
        # the context manager's __exit__ ran while the Budget exception unwound: k2.make_error is restored
        return [("hang", f"the run did not come back within {BUDGET} s")], info
    res, made, crash = v
    if crash is not None:
        return [("driver-escape", f"{crash!r} escaped from the library into the driver")], info
    if res.get("build_error") is not None:
        return [], info                      # building the operator: no notification is being processed
    probs = []
    info["output"] = [(t, k, repr(p)) for t, k, p in res["out"]]
    info["sublog"] = res["sublog"]
    for (t, e) in res["escapes"]:
        probs.append(("escaped-into-emitter", f"input {t}: {e!r} propagated out of the push"))
    if made.objs:
        info["raised"] = True
        tag, code, obj = made.objs[0]
        info["raised_at"] = tag
        last = res["out"][-1] if res["out"] else None
        if not (last and last[1] == "E" and last[2] is obj):
            probs.append(("not-delivered", f"a callback raised {obj!r} at input {tag}; the subscriber's last "
                                           f"notification is {(last[0], last[1], repr(last[2])) if last else None}"))
        elif last[0] != tag:
            probs.append(("delivered-late", f"raised at input {tag}, on_error delivered at input {last[0]}"))
        if len(made.objs) > 1:
            probs.append(("raised-again", f"user callbacks raised {len(made.objs)} times, at inputs "
                                          f"{[m[0] for m in made.objs]}"))
        if tag >= 1 and ("unsub", 0, tag) not in res["sublog"]:
            probs.append(("not-released", f"source subscription not disposed at input {tag}: {res['sublog']}"))
    return probs, info


def tables_part(chk, cov, nontrivial):
    from props import C05, C06, C09
    rounds = 1 if chk.tier == "quick" else 8
    names = palette()
    per_exc = cov["per_exception (raised, delivered as that object)"]
    for table, mod in (("C05", C05), ("C06", C06)):
        pool, T = mod.ops_table()
        for op in T:
            if op not in C09.CALLBACK_OPS:
                continue
            for name in names:
                for _ in range(rounds):
                    for attempt in range(6):      # an instance / input in which a callback does raise
                        seed = chk.rng.getrandbits(48)
                        probs, info = table_case(table, op, name, seed)
                        chk.cov["evaluations"] += 1
                        cov["table_cases"] += 1
                        if info["raised"] or probs:
                            break
                    if probs:
                        chk.violation(f"palette-table|{op}|{probs[0][0]}",
                                      {"palette_table_case": {"table": table, "operator": op, "exc": name,
                                                              "case_seed": seed},
                                       "injected exception": name, **info, "what": [t for _, t in probs]},
                                      size=info["n"])
                    if not info["raised"]:
                        cov["table_not_raised"] += 1
                        continue
                    st = per_exc.setdefault(name, [0, 0])
                    st[0] += 1
                    cov["per table operator raised"][op] = cov["per table operator raised"].get(op, 0) + 1
                    if not probs:
                        st[1] += 1
                        nontrivial.add(json.dumps(["table", table, op, name, seed]))


# --------------------------------------------------------------------------


def run_family(chk):
    cov = {"palette": palette(),
           "not Exception subclasses on this Python (outside the palette)": [b for b in _BASE if _resolve(b) is None],
           "rest_cases": 0, "rest_not_reached": 0, "table_cases": 0, "table_not_raised": 0,
           "skipped: StopIteration from an iterator's __next__ (the protocol's end of iteration)": 0,
           "per_exception (raised, delivered as that object)": {},
           "per (operator:callback) raised": {}, "per table operator raised": {}}
    nontrivial = set()
    rest_part(chk, cov, nontrivial)
    tables_part(chk, cov, nontrivial)
    cov["distinct_nontrivial"] = len(nontrivial)
    cov["rule"] = ("every (operator, callback) of the c09_rest catalogue and every callback operator of the C05/C06 "
                   "tables x EVERY palette entry (an exception class the library uses for control flow or catches "
                   "specifically, and a user subclass of each); non-trivial = the callback raised an object of that "
                   "entry and the subscriber's next / last notification was on_error with that very object, every "
                   "other clause of the oracle holding; distinct by (operator, callback, entry, k, params, script) "
                   "resp. (operator, entry, case seed)")
    chk.cov["exception_palette"] = cov
    return nontrivial


def replay_case(chk, d, path):
    c = d["palette_table_case"]
    probs, info = table_case(c["table"], c["operator"], c["exc"], c["case_seed"])
    print(json.dumps({"palette_table_case": c, **info, "oracle": [f"{s}: {t}" for s, t in probs] or "holds"},
                     indent=1, default=repr))
    if probs:
        print(f"VIOLATION property=C09 replay={path}")
        return 1
    return 0
