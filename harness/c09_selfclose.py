"""C09, ORACLE-ONLY family: grouping / windowing operators whose inner durations are SELF-CLOSING.

harness/c09_rest.py drives join / group_join with duration observables that are
independent hot sources; C18 / C19 drive the window / group operators the same
way.  In all of those a group or window only ever closes at a moment of the
script's choosing, never WHILE the operator is busy failing its groups.  This
family closes that gap: the duration / closing observable of a group or window
is derived from that group or window itself and fires synchronously, inside the
operator's own error fan-out, at the moment the group / window terminates:

    grp.pipe(ops.materialize(), ops.filter(lambda n: n.kind != "N"))    "mat"
    grp.pipe(ops.ignore_elements())                                     "ignore"
    grp.pipe(ops.last())                                                "last"
    grp.pipe(ops.count())                                               "count"

(mixed with hot durations, so that groups also expire and keys are reborn, and
with never()).  The same re-entrancy is produced from the subscriber's side by
REACTIONS of a group subscriber to the group's terminal notification (dispose
its own / another group's subscription, dispose the pipeline subscription), by
durations tied to the pipeline's own output ("outer": fires when the subscriber
receives the terminal notification; "outany": fires on every notification) and
by closings tied to the windowed source itself ("srceven", "srcterm").

Operators and callbacks:

  group_by_until   key_mapper / element_mapper / duration_mapper / subject_mapper
  group_by         key_mapper / element_mapper / subject_mapper      (reactions only)
  window_toggle    closing_mapper       (several windows open at once)
  window_when      closing_mapper       (the closing of the current window)
  buffer_when      closing_mapper
  group_join       left_duration / right_duration   (left durations derived from the group)
  join             left_duration / right_duration

For every generated script a control run (nothing raises) counts the
invocations n of every callback; then the script is re-run once for EVERY
callback and EVERY position k = 1..n (capped) with a fresh `Boom` raised at the
k-th invocation.  The oracle reads the global event log only (the property
text, no model):

 (1) nothing escapes from a push (the emitter);
 (2) the first thing the pipeline's subscriber sees after the raise is on_error
     with that very exception object, delivered once, nothing follows (waived
     when the subscriber had terminated / disposed before, or disposes between
     the raise and the delivery);
 (3) every stream obeys N*(E|C)?; every group / window subscription that was
     live when the callback raised has received a terminal by the end of that
     step (so: exactly one) and no element after the raise;
 (4) once no group subscription is live any more, no hand-driven source
     (static, hot duration) has an observer left; no source is subscribed and no
     user callback runs after the raise."""
from __future__ import annotations

import json

import lib
from c09_rest import World, Inj, Boom, SrcError, analyse, _grammar, _gsub_closed_at

SELF_KINDS = ("mat", "ignore", "last", "count")

OPERATORS = {
    "group_by_until": ["key_mapper", "element_mapper", "duration_mapper", "subject_mapper"],
    "group_by": ["key_mapper", "element_mapper", "subject_mapper"],
    "window_toggle": ["closing_mapper"],
    "window_when": ["closing_mapper"],
    "buffer_when": ["closing_mapper"],
    "group_join": ["left_duration", "right_duration"],
    "join": ["left_duration", "right_duration"],
}
MAX_K = 8
SUBSCRIBE_TIME_FIRST_CALL = ("window_when", "buffer_when")


def self_closing(kind, grp):
    """an observable derived from the group / window that fires when it terminates"""
    from reactivex import operators as ops
    if kind == "mat":
        return grp.pipe(ops.materialize(), ops.filter(lambda n: n.kind != "N"))
    if kind == "ignore":
        return grp.pipe(ops.ignore_elements())
    if kind == "last":
        return grp.pipe(ops.last())
    if kind == "count":
        return grp.pipe(ops.count())
    raise KeyError(kind)


# --------------------------------------------------------------------------
# driver


def run_case(case):
    """case: dict(operator, callback, k, params, script).  script steps:
      ["src", name, "N", value] | ["src", name, "C"] | ["src", name, "E", code]
      ["gunsub", g]     the subscriber disposes its subscription of group / window g
    A step naming a source that does not exist (yet) or has no live observer is a no-op."""
    lib.import_repo()
    import reactivex
    from reactivex import operators as ops
    from reactivex.subject import Subject, ReplaySubject
    W = World()
    inj = Inj(W, case.get("callback"), case.get("k"))
    p = case.get("params") or {}
    op = case["operator"]
    groups, gsubs = [], {}
    policy = p.get("groups") or []
    react = p.get("react") or []
    state = {"sub": None, "used": 0}
    outer_term, outer_any = Subject(), Subject()

    def duration(kinds, i, prefix, grp):
        kind = kinds[i % len(kinds)] if kinds else "never"
        if kind == "hot":
            return W.src(f"{prefix}{i}").observable
        if kind == "empty":
            return reactivex.empty()
        if kind == "outer":
            return outer_term
        if kind == "outany":
            return outer_any
        if kind == "srceven":
            return W.src("s").observable.pipe(ops.filter(lambda v: isinstance(v, int) and v % 2 == 0))
        if kind == "srcterm":
            return W.src("s").observable.pipe(ops.materialize(), ops.filter(lambda n: n.kind != "N"))
        if kind in SELF_KINDS and grp is not None:
            return self_closing(kind, grp)
        return reactivex.never()

    def latest_group():
        """the group / window handed out since the previous duration call (None when there is none)"""
        if len(groups) > state["used"]:
            state["used"] = len(groups)
            return groups[-1]
        return None

    def unsubscribe_group(g):
        for box in gsubs.get(g, []):
            if box["d"] is not None:
                d, box["d"] = box["d"], None
                W.rec("gunsub", g, box["j"])
                d.dispose()
                return

    def reaction(g, box):
        r = react[g % len(react)] if react else "none"
        if r == "unsub_self":
            if box["d"] is not None:
                d, box["d"] = box["d"], None
                d.dispose()
        elif r == "unsub_other":
            if len(groups) > 1:
                unsubscribe_group((g + 1) % len(groups))
        elif r == "dispose_outer":
            if state["sub"] is not None:
                s, state["sub"] = state["sub"], None
                W.rec("dispose")
                s.dispose()

    def subscribe_group(g):
        j = len(gsubs.setdefault(g, []))
        box = {"d": None, "j": j, "done": False}
        gsubs[g].append(box)
        W.rec("gsub", g, j)

        def on_error(e):
            box["done"] = True
            W.rec("gout", (g, j), ("E", e))
            reaction(g, box)

        def on_completed():
            box["done"] = True
            W.rec("gout", (g, j), ("C", None))
            reaction(g, box)
        d = groups[g].subscribe(lambda v: W.rec("gout", (g, j), ("N", v)), on_error, on_completed)
        if not box["done"]:              # (a group that ended inside subscribe has nothing left to dispose)
            box["d"] = d

    def on_next(v):
        obs = v[1] if (isinstance(v, tuple) and len(v) == 2 and hasattr(v[1], "subscribe")) else v
        if hasattr(obs, "subscribe"):
            g = len(groups)
            groups.append(obs)
            W.rec("hand", g, getattr(obs, "key", v[0] if isinstance(v, tuple) else None))
            if (policy[g % len(policy)] if policy else "imm") == "imm":
                subscribe_group(g)
        else:
            W.rec("out", "N", v)
        outer_any.on_next(0)

    def on_error(e):
        W.rec("out", "E", e)
        outer_any.on_next(0)
        outer_term.on_next(0)

    def on_completed():
        W.rec("out", "C", None)
        outer_any.on_next(0)
        outer_term.on_next(0)

    cnt = {"d": 0, "L": 0, "R": 0}

    def group_duration(grp):                 # group_by_until: the group itself is the argument
        i = cnt["d"]
        cnt["d"] += 1
        return duration(p.get("dur"), i, "d", grp)

    def closing(*_):                         # window_toggle / window_when / buffer_when: the latest window
        i = cnt["d"]
        cnt["d"] += 1
        return duration(p.get("dur"), i, "d", latest_group())

    def left_duration(v):                    # group_join: the group handed out just before the call
        i = cnt["L"]
        cnt["L"] += 1
        return duration(p.get("durL"), i, "dL", latest_group())

    def right_duration(v):
        i = cnt["R"]
        cnt["R"] += 1
        return duration(p.get("durR"), i, "dR", None)

    nkeys = p.get("nkeys", 2)
    elem = inj.wrap("element_mapper", lambda v: v * 10) if p.get("elem") else None
    smap = None
    if p.get("subject"):
        smap = inj.wrap("subject_mapper", (lambda: ReplaySubject(2)) if p["subject"] == "replay" else (lambda: Subject()))
    build_error = None
    try:
        if op == "group_by_until":
            built = W.src("s").observable.pipe(ops.group_by_until(
                inj.wrap("key_mapper", lambda v: v % nkeys), elem, inj.wrap("duration_mapper", group_duration), smap))
        elif op == "group_by":
            built = W.src("s").observable.pipe(ops.group_by(inj.wrap("key_mapper", lambda v: v % nkeys), elem, smap))
        elif op == "window_toggle":
            built = W.src("s").observable.pipe(ops.window_toggle(W.src("o").observable,
                                                                 inj.wrap("closing_mapper", closing)))
        elif op == "window_when":
            built = W.src("s").observable.pipe(ops.window_when(inj.wrap("closing_mapper", closing)))
        elif op == "buffer_when":
            built = W.src("s").observable.pipe(ops.buffer_when(inj.wrap("closing_mapper", closing)))
        elif op == "group_join":
            built = W.src("L").observable.pipe(ops.group_join(
                W.src("R").observable, inj.wrap("left_duration", left_duration),
                inj.wrap("right_duration", right_duration)))
        elif op == "join":
            built = W.src("L").observable.pipe(ops.join(
                W.src("R").observable, inj.wrap("left_duration", left_duration),
                inj.wrap("right_duration", right_duration)))
        else:
            raise KeyError(op)
    except Exception as e:
        build_error, built = e, None
    if built is not None:
        try:
            state["sub"] = built.subscribe(on_next, on_error, on_completed)
        except Exception as e:
            W.rec("escape", e)
    W.rec("endstep")
    for st in case["script"]:
        W.step += 1
        try:
            if st[0] == "src":
                s = W.sources.get(st[1])
                if s is not None:
                    if st[2] == "N":
                        s.push("N", st[3])
                    elif st[2] == "E":
                        s.push("E", SrcError(st[3]))
                    else:
                        s.push("C")
            elif st[0] == "gunsub":
                unsubscribe_group(st[1])
        except Exception as e:           # whoever emitted the notification sees the exception
            W.rec("escape", e)
        W.rec("endstep")
    return {"events": W.events, "failure": inj.failure, "counts": dict(inj.counts), "build_error": build_error,
            "n_groups": len(groups)}


# --------------------------------------------------------------------------
# oracle (reads the event log only)


def oracle(case, res):
    """-> (problems [(slug, text)], info dict)"""
    A = analyse(res)
    F = res["failure"]
    probs = []
    info = {"raised": F is not None, "deliverable": False, "delivered": False, "earlier": 0, "open_groups": 0}
    if res["build_error"] is not None:
        return [("build-error", f"building the operator raised {res['build_error']!r}")], info
    g = _grammar([(s, k) for (s, _, k, _) in A["outs"]])
    if g:
        probs.append(("grammar-subscriber", "subscriber: " + g))
    for key, gsub in sorted(A["gs"].items()):
        g = _grammar([(s, k) for (s, _, k, _) in gsub["notes"] if gsub["unsub"] is None or s < gsub["unsub"]])
        if g:
            probs.append(("grammar-group", f"group {key[0]} subscription {key[1]}: " + g))
    if F is None:
        if A["escapes"]:
            probs.append(("control-escape", f"no callback raised, yet {A['escapes']} escaped"))
        return probs, info
    fs, fstep, exc = F["seq"], F["step"], F["exc"]
    info["earlier"] = (sum(1 for o in A["outs"] if o[0] < fs)
                       + sum(1 for gsub in A["gs"].values() for n in gsub["notes"] if n[0] < fs))
    info["open_groups"] = sum(1 for gsub in A["gs"].values() if gsub["sub"] < fs and not _gsub_closed_at(gsub, fs))
    # ---- (1) nothing reaches the emitter
    for (s, st, e) in A["escapes"]:
        probs.append(("escaped-into-emitter", f"step {st}: {e!r} propagated out of the push (event {s}) after "
                                              f"{F['cb']} had raised {exc!r}"))
    # ---- (2) delivery
    after = [o for o in A["outs"] if o[0] > fs]
    same = [o for o in A["outs"] if o[3] is exc]
    first_after = after[0][0] if after else float("inf")
    ended_before = (any(k in "EC" and s < fs for (s, _, k, _) in A["outs"])
                    or any(d < fs for d in A["dispose"]))
    disposed_meanwhile = any(fs < d < first_after for d in A["dispose"])
    info["deliverable"] = not ended_before and not disposed_meanwhile
    if ended_before:
        if after:
            probs.append(("notification-after-failure", f"subscriber ended before the raise yet received {after[0][2]}"))
    elif not after:
        if not disposed_meanwhile:
            probs.append(("not-delivered", f"{exc!r} raised in {F['cb']} at step {fstep}: the subscriber received "
                                           f"nothing afterwards"))
    elif not (after[0][2] == "E" and after[0][3] is exc):
        probs.append(("not-delivered", f"{exc!r} raised in {F['cb']} at step {fstep}: the subscriber's next "
                                       f"notification is {after[0][2]} {after[0][3]!r}"))
    else:
        info["delivered"] = True
        if len(same) != 1:
            probs.append(("delivered-twice", f"the exception object was delivered {len(same)} times"))
        if len(after) > 1:
            probs.append(("notification-after-failure", f"after on_error the subscriber received {after[1][2]} "
                                                        f"{after[1][3]!r} at step {after[1][1]}"))
    # ---- (3) every open group / window is ended in the failing step, nothing reaches it afterwards
    fend = next(s for (s, st) in A["ends"] if st == fstep)
    for key, gsub in sorted(A["gs"].items()):
        if gsub["sub"] < fs and not _gsub_closed_at(gsub, fs) and not _gsub_closed_at(gsub, fend):
            held = sorted(f"{n}#{i}" for (n, i), v in A["srcs"].items() if v[1] is None)
            probs.append(("group-not-terminated",
                          f"group/window {key[0]} (subscribed at step {gsub['step']}, live when {F['cb']} raised at "
                          f"step {fstep}) received no terminal notification in that step"
                          + (f"; source subscriptions never disposed in this run: {held}" if held else "")))
        late = [n for n in gsub["notes"] if n[0] > fs and n[2] == "N" and (gsub["unsub"] is None or n[0] < gsub["unsub"])]
        if late:
            probs.append(("group-element-after-failure",
                          f"group/window {key[0]} received element {late[0][3]!r} at step {late[0][1]}, after the failure"))
    # ---- (4) release
    later_calls = [c for c in A["calls"] if c[0] > fs]
    if later_calls:
        c = later_calls[0]
        probs.append(("callback-after-failure", f"user callback {c[2]} (invocation {c[3]}) ran at step {c[1]}, "
                                                f"after {F['cb']} had raised at step {fstep}"))
    new_subs = [(k, v) for k, v in A["srcs"].items() if v[0] > fs]
    if new_subs:
        probs.append(("subscribed-after-failure", f"source {new_subs[0][0][0]} was subscribed after the failure"))
    quiet = None
    for (s, st) in A["ends"]:
        if s >= fend and all(_gsub_closed_at(gsub, s) for gsub in A["gs"].values() if gsub["sub"] <= s):
            quiet = s
            break
    if quiet is not None:
        leaked = sorted(k for k, v in A["srcs"].items() if v[0] <= quiet and (v[1] is None or v[1] > quiet))
        if leaked:
            probs.append(("source-still-subscribed",
                          f"{F['cb']} raised at step {fstep}; with no group subscription live any more, still "
                          f"subscribed: {[f'{n}#{i}' for n, i in leaked]}"))
    return probs, info


# --------------------------------------------------------------------------
# generators (seeded)


def _term(rng, name, p_err=0.3):
    return ["src", name, "E", rng.choice([11, 12])] if rng.random() < p_err else ["src", name, "C"]


def _self_mix(rng, n=4, p_self=0.7, others=("hot", "hot", "never")):
    kinds = [rng.choice(SELF_KINDS) if rng.random() < p_self else rng.choice(others) for _ in range(n)]
    if not any(k in SELF_KINDS for k in kinds):
        kinds[rng.randrange(n)] = rng.choice(SELF_KINDS)
    return kinds


def _reactions(rng, force=False):
    if not force and rng.random() < 0.7:
        return []
    return [rng.choice(["none", "unsub_self", "unsub_other", "dispose_outer", "unsub_self", "unsub_other"])
            for _ in range(3)]


def _policy(rng):
    return [] if rng.random() < 0.75 else [rng.choice(["imm", "imm", "never"]) for _ in range(4)]


def gen_group_by(rng, op):
    p = {"nkeys": rng.choice([2, 2, 3, 3, 4, 5]), "elem": rng.random() < 0.6,
         "subject": rng.choice([None, None, "subject", "replay"]), "groups": _policy(rng)}
    if op == "group_by_until":
        p["dur"] = _self_mix(rng)
        p["react"] = _reactions(rng)
    else:
        p["react"] = _reactions(rng, force=True)
    n = rng.choice([3, 3, 4, 5, 6, 8])
    script, made = [], 0
    # the first elements open as many groups as there are keys (in a seeded order)
    first = list(range(p["nkeys"]))
    rng.shuffle(first)
    for i in range(n):
        r = rng.random()
        if i < len(first) and r < 0.85:
            script.append(["src", "s", "N", first[i] + p["nkeys"] * rng.randrange(3)])
            made += 1
        elif r < 0.70:
            script.append(["src", "s", "N", rng.randrange(12)])
            made += 1
        elif r < 0.88 and op == "group_by_until" and made:
            i_d = rng.randrange(made)
            script.append(["src", f"d{i_d}", "N", 0] if rng.random() < 0.7 else _term(rng, f"d{i_d}", 0.2))
        elif r < 0.94 and made:
            script.append(["gunsub", rng.randrange(made)])
        else:
            script.append(["src", "s", "N", rng.randrange(12)])
            made += 1
    if rng.random() < 0.3:
        script.append(_term(rng, "s"))
        if rng.random() < 0.4:
            script.append(["src", "s", "N", rng.randrange(12)])
    return p, script


def gen_window_toggle(rng, op):
    p = {"dur": _self_mix(rng), "react": _reactions(rng), "groups": _policy(rng)}
    n = rng.choice([3, 4, 5, 6, 8])
    script, opened, elems = [], 0, 0
    for i in range(n):
        r = rng.random()
        if r < 0.45 or opened == 0:
            opened += 1
            script.append(["src", "o", "N", opened])
        elif r < 0.75:
            elems += 1
            script.append(["src", "s", "N", elems])
        elif r < 0.88:
            i_d = rng.randrange(opened)
            script.append(["src", f"d{i_d}", "N", 0] if rng.random() < 0.7 else _term(rng, f"d{i_d}", 0.2))
        elif r < 0.94:
            script.append(["gunsub", rng.randrange(opened)])
        else:
            script.append(_term(rng, rng.choice("so")))
    if rng.random() < 0.6:                # one more opening: a late position for the closing mapper
        script.append(["src", "o", "N", opened + 1])
    return p, script


def gen_when(rng, op):
    if op == "window_when":
        p = {"dur": _self_mix(rng, n=4, p_self=0.45, others=("hot", "hot", "hot", "srceven", "srcterm", "outany")),
             "react": _reactions(rng), "groups": _policy(rng)}
    else:
        p = {"dur": [rng.choice(["hot", "hot", "srceven", "srcterm", "outany", "outer"]) for _ in range(4)]}
    p["dur"][0] = rng.choice(["hot", "hot", "srceven"]) if rng.random() < 0.8 else p["dur"][0]
    n = rng.choice([2, 3, 4, 5, 6, 8])
    script, elems, closed = [], 0, 0
    for i in range(n):
        r = rng.random()
        if r < 0.45:
            elems += 1
            script.append(["src", "s", "N", elems])
        elif r < 0.90:
            i_d = rng.randrange(closed + 1) if rng.random() < 0.3 else closed
            script.append(["src", f"d{i_d}", "N", 0] if rng.random() < 0.7 else _term(rng, f"d{i_d}", 0.15))
            closed += (i_d == closed)
        elif r < 0.94 and op == "window_when":
            script.append(["gunsub", rng.randrange(closed + 1)])
        else:
            script.append(_term(rng, "s"))
    return p, script


def gen_join(rng, op):
    if op == "group_join":
        p = {"durL": _self_mix(rng), "react": _reactions(rng), "groups": _policy(rng),
             "durR": [rng.choice(["hot", "never", "empty", "outer", "never"]) for _ in range(3)]}
    else:
        p = {"durL": [rng.choice(["hot", "never", "empty", "outer", "outer"]) for _ in range(3)],
             "durR": [rng.choice(["hot", "never", "empty", "outer", "outer"]) for _ in range(3)]}
    n = rng.choice([3, 4, 5, 6, 8])
    script, cnt = [], {"L": 0, "R": 0}
    for i in range(n):
        r = rng.random()
        if r < 0.70 or not (cnt["L"] or cnt["R"]):
            side = "L" if rng.random() < 0.6 else "R"
            cnt[side] += 1
            script.append(["src", side, "N", cnt[side] if side == "L" else "abcdefghijkl"[cnt[side] - 1]])
        elif r < 0.86:
            side = rng.choice([s for s in "LR" if cnt[s]])
            i_d = rng.randrange(cnt[side])
            script.append(["src", f"d{side}{i_d}", "N", 0] if rng.random() < 0.7 else _term(rng, f"d{side}{i_d}", 0.2))
        elif r < 0.93 and op == "group_join" and cnt["L"]:
            script.append(["gunsub", rng.randrange(cnt["L"])])
        else:
            script.append(_term(rng, rng.choice("LR"), 0.25))
    return p, script


def gen_script(rng, op):
    gen = {"group_by_until": gen_group_by, "group_by": gen_group_by, "window_toggle": gen_window_toggle,
           "window_when": gen_when, "buffer_when": gen_when, "group_join": gen_join, "join": gen_join}[op]
    return gen(rng, op)


def callbacks_of(op, p):
    cbs = list(OPERATORS[op])
    if not p.get("elem") and "element_mapper" in cbs:
        cbs.remove("element_mapper")
    if not p.get("subject") and "subject_mapper" in cbs:
        cbs.remove("subject_mapper")
    return cbs


# --------------------------------------------------------------------------
# the family


def _fails(case, slugs):
    try:
        probs, info = oracle(case, run_case(case))
    except Exception:
        return False
    return info["raised"] and slugs <= {s for s, _ in probs}


def shrink(case, slugs):
    """greedy: an earlier position, then drop script steps, while every given oracle clause still fails"""
    slugs = set(slugs)
    cur = case
    kmin = 2 if case["operator"] in SUBSCRIBE_TIME_FIRST_CALL else 1
    changed, rounds = True, 0
    while changed and rounds < 6:
        changed = False
        rounds += 1
        i = 0
        while i < len(cur["script"]):
            cand = dict(cur, script=cur["script"][:i] + cur["script"][i + 1:])
            hit = _fails(cand, slugs)
            if not hit and cur["k"] > kmin:         # the dropped step may have carried an earlier invocation
                cand = dict(cand, k=cur["k"] - 1)
                hit = _fails(cand, slugs)
            if hit:
                cur = cand
                changed = True
            else:
                i += 1
    return cur


def describe(case, res, probs):
    def show(x):
        return repr(x) if not isinstance(x, (int, str, type(None))) else x
    ev = [f"{seq} step={step} {kind} {show(a)} {show(b)}" for (seq, step, kind, a, b) in res["events"]
          if kind != "endstep"]
    return {"selfclose_case": case, "operator": case["operator"], "callback": case["callback"], "k": case["k"],
            "params": case["params"],
            "script": "; ".join(" ".join(str(x) for x in st) for st in case["script"]),
            "what": [t for _, t in probs],
            "event log (seq step kind a b)": ev,
            "legend": "step 0 = subscribe; sub/unsub = a hand-driven source subscription opened/disposed; call/raise "
                      "= user callback invoked/raised; out = notification to the pipeline's subscriber; hand = "
                      "group/window handed to the subscriber; gsub/gout/gunsub = the subscriber's subscription of a "
                      "group/window; params.dur* = kind of the i-th duration (mat/ignore/last/count are derived "
                      "from the group/window itself and fire when it terminates; hot = source d<i>; outer/outany = "
                      "fires when the subscriber receives a terminal / anything; srceven/srcterm = derived from "
                      "source s); params.react = what a group subscriber does on the group's terminal"}


def run_family(chk):
    """fills chk.cov['self_closing_durations'] and returns the set of distinct non-trivial cases"""
    quick = chk.tier == "quick"
    rng = chk.rng
    nscripts = {"group_by_until": 280, "group_by": 60, "window_toggle": 150, "window_when": 150, "buffer_when": 80,
                "group_join": 150, "join": 60}
    mult = 1 if quick else 12
    per_cb = {}
    hist = {"control_runs": 0, "injected_runs": 0, "raised": 0, "delivered": 0,
            "raised_with_2+_groups_open": 0, "raised_with_self_closing_group_open": 0,
            "delivery_waived (subscriber ended / disposed first)": 0}
    pos_hist = {}
    nontrivial = set()
    anomalies = []
    found, found_n, shrunk = {}, {}, {}
    for op in OPERATORS:
        for si in range(nscripts[op] * mult):
            p, script = gen_script(rng, op)
            base = {"family": "selfclose", "operator": op, "callback": None, "k": None, "params": p, "script": script}
            res0 = run_case(base)
            probs0, _ = oracle(base, res0)
            chk.cov["evaluations"] += 1
            hist["control_runs"] += 1
            if probs0 and len(anomalies) < 5:
                # no callback raised: outside the property (harness self-check); recorded, not a violation
                anomalies.append({"case": base, "what": [t for _, t in probs0]})
            for cb in callbacks_of(op, p):
                n = res0["counts"].get(cb, 0)
                # window_when / buffer_when call the closing mapper for the first time inside subscribe(), before any
                # notification is processed: outside the property
                ks = list(range(2 if op in SUBSCRIBE_TIME_FIRST_CALL else 1, n + 1))
                if len(ks) > MAX_K:                  # keep the latest positions and a sample of the early ones
                    ks = sorted(rng.sample(ks[:-4], MAX_K - 4) + ks[-4:])
                for k in ks:
                    case = dict(base, callback=cb, k=k)
                    res = run_case(case)
                    probs, info = oracle(case, res)
                    chk.cov["evaluations"] += 1
                    hist["injected_runs"] += 1
                    st = per_cb.setdefault(f"{op}:{cb}", {"runs": 0, "raised": 0, "delivered": 0, "open>=2": 0})
                    st["runs"] += 1
                    if not info["raised"]:
                        continue
                    hist["raised"] += 1
                    st["raised"] += 1
                    pos_hist[f"k={k}" if k < 5 else "k>=5"] = pos_hist.get(f"k={k}" if k < 5 else "k>=5", 0) + 1
                    if info["open_groups"] >= 2:
                        hist["raised_with_2+_groups_open"] += 1
                        st["open>=2"] += 1
                    if info["open_groups"] >= 1 and any(k_ in SELF_KINDS for key in ("dur", "durL")
                                                        for k_ in (p.get(key) or [])):
                        hist["raised_with_self_closing_group_open"] += 1
                    if not info["deliverable"]:
                        hist["delivery_waived (subscriber ended / disposed first)"] += 1
                    if info["delivered"]:
                        hist["delivered"] += 1
                        st["delivered"] += 1
                    if probs:
                        slug = probs[0][0]
                        sig = f"selfclose|{op}|{slug}"
                        found_n[sig] = found_n.get(sig, 0) + 1
                        shrunk[(sig, cb)] = shrunk.get((sig, cb), 0) + 1
                        if shrunk[(sig, cb)] > 6 and sig in found and len(script) >= found[sig][1]:
                            continue                 # enough witnesses of this callback shrunk already
                        small = shrink(case, [slug])
                        sres = run_case(small)
                        sprobs, sinfo = oracle(small, sres)
                        if not sprobs or sprobs[0][0] != slug or not sinfo["raised"]:
                            small, sres, sprobs = case, res, probs
                        if sig not in found or len(small["script"]) < found[sig][1]:
                            found[sig] = (describe(small, sres, sprobs), len(small["script"]))
                    elif info["delivered"] and info["earlier"] >= 1:
                        nontrivial.add(json.dumps([op, cb, k, p, script], sort_keys=True))
                        if st["delivered"] == 1:
                            chk.add_samples([{"selfclose_case": {"operator": op, "callback": cb, "k": k, "params": p,
                                                                 "script": script},
                                              "subscriber": [[s, kk, repr(v)] for (_, s, kk, v) in analyse(res)["outs"]]}],
                                            limit=10)
    for sig, (rep, size) in found.items():      # one report per signature: the smallest failing script found
        rep["failing runs with this signature"] = found_n[sig]
        chk.violation(sig, rep, size=size)
    chk.cov["self_closing_durations"] = {
        "operators": OPERATORS,
        "scripts_per_operator": {o: n * mult for o, n in nscripts.items()},
        "per (operator:callback)": per_cb,
        "runs": hist,
        "exception_position": pos_hist,
        "distinct_nontrivial": len(nontrivial),
        "rule": "for every seeded script: one control run counts the invocations n of each callback, then one run "
                "per (callback, k = 1..n, at most 8 positions incl. the last four) with the exception injected "
                "there; durations of groups/windows are derived from the group/window itself (materialize+filter, "
                "ignore_elements, last, count) mixed with hot durations and never(); non-trivial = the exception "
                "was raised and delivered as on_error (same object), at least one notification preceded the "
                "raise and every clause of the oracle held; distinct by (operator, callback, k, params, script)",
        "control_anomalies (no callback raised; not a C09 verdict)": anomalies,
    }
    return nontrivial


def replay_case(chk, d, path):
    case = d["selfclose_case"]
    res = run_case(case)
    probs, info = oracle(case, res)
    out = describe(case, res, probs)
    out["oracle"] = [f"{s}: {t}" for s, t in probs] or "holds"
    print(json.dumps(out, indent=1, default=repr))
    if probs and info["raised"]:
        print(f"VIOLATION property=C09 replay={path}")
        return 1
    return 0
