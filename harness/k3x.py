"""Extensions of harness/k3.py used by the checks C32 (ScheduledObserver / observe_on) and C43
(combinators under concurrently emitting sources).  k3.py itself is imported unchanged.

* `Gate` / `wait_gate`: a logical thread that waits for a condition (a scheduler worker with nothing
  pending) is parked with `t.wants = gate`; the controller treats it exactly like a thread waiting for
  a held lock: it is not runnable while the gate is closed.
* `MController`: MEDIUM granularity.  Like k3's coarse mode only the lines selected by the AST pass
  are yield points, but harness yield points and selected lines also yield while the thread holds a
  controlled lock (the combinators call the downstream observer INSIDE their lock, and the defects
  looked for are threads that do not take the lock at all); a thread waiting for a held lock is never
  picked.
* `rebind`: besides the names RLock/Lock (k3.rebind_locks) also rebinds a module-level `threading`
  (modules that write `threading.RLock()`).
* `lock_shape`: AST pass for functions AND closures: the lock structure of a function body as a flat
  token list (locked regions incl. `@synchronized(lock)`, calls, accesses to the declared shared
  variables) plus the lines, outside any locked region, that touch a shared variable (the yield lines).
* `CtlScheduler` + `worker_loop`: a scheduler whose actions are run by logical worker threads of the
  controller at moments chosen by the schedule.
"""
from __future__ import annotations

import ast
import importlib
import os
import types
from datetime import datetime, timedelta, timezone

import k3


# --------------------------------------------------------------------------
# gates
# --------------------------------------------------------------------------

class Gate:
    """`owner` is what k3.Controller.runnable looks at: not None and not the thread = blocked"""

    def __init__(self, is_open):
        self.is_open = is_open

    @property
    def owner(self):
        return None if self.is_open() else self


def wait_gate(ctl, gate):
    """park the calling logical thread until the controller picks it; it is pickable only while the gate is open"""
    t = ctl.me()
    if t is None:
        return
    t.wants = gate
    try:
        ctl.yield_point("call")
    finally:
        t.wants = None


# --------------------------------------------------------------------------
# medium granularity
# --------------------------------------------------------------------------

class MController(k3.Controller):
    def __init__(self, targets, max_steps=4000):
        super().__init__(targets, fine=False, max_steps=max_steps)

    def yield_point(self, kind="call"):
        t = self.me()
        if t is None:
            return
        if kind == "lock" and t.skip > 0:
            t.skip -= 1
            return
        if kind == "line" and t.held > 0:
            return                      # a selected line reached from inside a locked region (helper functions)
        t.state = "parked"
        self.main_sem.release()
        t.sem.acquire()
        if self.aborting:
            raise k3._Abort()
        t.state = "running"


# --------------------------------------------------------------------------
# rebinding locks
# --------------------------------------------------------------------------

class _ThreadingShim:
    """stands for the module `threading` inside a target module: RLock/Lock are controlled"""

    RLock = k3.CLock
    Lock = k3.CLock

    def __init__(self, real):
        self._real = real

    def __getattr__(self, name):
        return getattr(self._real, name)


def rebind(module_names):
    undo = k3.rebind_locks(module_names)
    for mn in module_names:
        m = importlib.import_module(mn)
        th = getattr(m, "threading", None)
        if isinstance(th, types.ModuleType):
            undo.append((m, "threading", th))
            setattr(m, "threading", _ThreadingShim(th))
    return undo


restore = k3.restore_locks


class Rebound:
    def __init__(self, module_names):
        self.module_names = module_names

    def __enter__(self):
        self.undo = rebind(self.module_names)
        return self

    def __exit__(self, *a):
        restore(self.undo)


# --------------------------------------------------------------------------
# AST pass
# --------------------------------------------------------------------------

PURE_CALLS = {"len", "all", "any", "tuple", "list", "enumerate", "zip", "range", "isinstance", "bool", "int",
              "cast", "timedelta", "Exception"}
MUTATORS = {"append", "pop", "clear", "remove", "insert", "extend", "add", "popleft", "discard"}


def find_function(tree, path):
    """path 'A.b.c': nested classes / functions by name (the first definition with that name at each level)"""
    node = tree
    for part in path.split("."):
        found = None
        for ch in ast.walk(node) if node is tree else _body_walk(node):
            if isinstance(ch, (ast.FunctionDef, ast.ClassDef)) and ch.name == part:
                found = ch
                break
        if found is None:
            raise ValueError(f"{path}: {part} not found")
        node = found
    if not isinstance(node, ast.FunctionDef):
        raise ValueError(f"{path} is not a function")
    return node


def _body_walk(node):
    """definitions directly nested in `node` (not deeper), in source order"""
    out = []

    def rec(stmts):
        for st in stmts:
            if isinstance(st, (ast.FunctionDef, ast.ClassDef)):
                out.append(st)
                continue
            for fld in ("body", "orelse", "finalbody"):
                sub = getattr(st, fld, None)
                if isinstance(sub, list):
                    rec(sub)
            for h in getattr(st, "handlers", []) or []:
                rec(h.body)
    rec(node.body)
    return out


def _is_lock_expr(e):
    s = ast.unparse(e)
    return s == "lock" or s.endswith(".lock")


def _base_name(e):
    """x, x[i], x.attr, self.x, parent.x -> the shared name it denotes (or None)"""
    while isinstance(e, ast.Subscript):
        e = e.value
    if isinstance(e, ast.Attribute) and isinstance(e.value, ast.Name) and e.value.id in ("self", "parent"):
        return e.attr
    if isinstance(e, ast.Name):
        return e.id
    return None


def lock_shape(path, funcpath, shared):
    """-> (tokens, yield_lines).  tokens, in evaluation order of a flat walk of the function body
    (nested function definitions are skipped: they run elsewhere):
        'LOCK{' ... '}'      a `with <..lock>:` region or the whole body under `@synchronized(<..lock>)`
        'CALL:f'             a call of something that is not a pure builtin / a mutator of a shared variable
        'WRAP:L:f'           synchronized(L)(f): a wrapper is built, nothing is called
        'R:x' / 'W:x'        access to the shared variable x (assignment, augmented assignment, subscript store,
                             mutating method)
    yield_lines: the first line of every simple statement / test, OUTSIDE any locked region, that accesses a
    shared variable."""
    tree = ast.parse(open(path).read())
    fn = find_function(tree, funcpath)
    shared = set(shared)
    toks, lines = [], set()
    depth = [0]

    def expr(e, line):
        """emit the tokens of expression e; returns True if it touched a shared variable"""
        touched = False
        if e is None:
            return False
        if isinstance(e, ast.Call):
            f = e.func
            # synchronized(L)(f)
            if isinstance(f, ast.Call) and ast.unparse(f.func) == "synchronized":
                toks.append(f"WRAP:{ast.unparse(f.args[0])}:{ast.unparse(e.args[0])}")
                return False
            # mutator of a shared variable
            if isinstance(f, ast.Attribute) and f.attr in MUTATORS and _base_name(f.value) in shared:
                for a in e.args:
                    touched |= expr(a, line)
                toks.append("W:" + _base_name(f.value))
                return True
            if isinstance(f, ast.Attribute):
                touched |= expr(f.value, line)
            for a in e.args:
                touched |= expr(a, line)
            for k in e.keywords:
                touched |= expr(k.value, line)
            name = ast.unparse(f)
            if isinstance(f, ast.Attribute) and f.attr == "subscribe":
                # which handlers are handed to the source (pass-through handlers show up here)
                toks.append("SUB:" + name + "(" + ", ".join(ast.unparse(a) for a in e.args) + ")")
            elif name not in PURE_CALLS:
                toks.append("CALL:" + name)
            return touched
        if isinstance(e, (ast.Name, ast.Attribute, ast.Subscript)):
            b = _base_name(e)
            if isinstance(e, ast.Subscript):
                touched |= expr(e.slice, line)
            if b in shared and not (isinstance(e, ast.Attribute) and b != e.attr):
                toks.append(("W:" if isinstance(e.ctx, (ast.Store, ast.Del)) else "R:") + b)
                return True
            if isinstance(e, ast.Attribute):
                touched |= expr(e.value, line)
            elif isinstance(e, ast.Subscript) and b not in shared:
                touched |= expr(e.value, line)
            return touched
        if isinstance(e, (ast.Lambda, ast.FunctionDef)):
            return False
        for ch in ast.iter_child_nodes(e):
            if isinstance(ch, ast.expr) or isinstance(ch, ast.comprehension) or isinstance(ch, ast.keyword):
                touched |= expr(ch, line)
        return touched

    def mark(touched, line):
        if touched and depth[0] == 0:
            lines.add(line)

    def stmts(body):
        for st in body:
            stmt(st)

    def stmt(st):
        if isinstance(st, (ast.FunctionDef, ast.ClassDef)):
            return
        if isinstance(st, ast.Expr) and isinstance(st.value, ast.Constant):
            return
        if isinstance(st, (ast.Nonlocal, ast.Global, ast.Pass, ast.Import, ast.ImportFrom)):
            return
        if isinstance(st, ast.With):
            if len(st.items) == 1 and _is_lock_expr(st.items[0].context_expr):
                toks.append("LOCK{")
                depth[0] += 1
                stmts(st.body)
                depth[0] -= 1
                toks.append("}")
                return
            raise ValueError(f"{path}:{st.lineno}: unsupported with-statement")
        if isinstance(st, ast.If):
            mark(expr(st.test, st.lineno), st.lineno)
            stmts(st.body)
            stmts(st.orelse)
            return
        if isinstance(st, (ast.For, ast.While)):
            mark(expr(st.iter if isinstance(st, ast.For) else st.test, st.lineno), st.lineno)
            stmts(st.body)
            stmts(st.orelse)
            return
        if isinstance(st, ast.Try):
            stmts(st.body)
            for h in st.handlers:
                stmts(h.body)
            stmts(st.orelse)
            stmts(st.finalbody)
            return
        if isinstance(st, ast.AugAssign):
            t = expr(st.value, st.lineno)
            b = _base_name(st.target)
            if b in shared:
                toks.append("W:" + b)
                t = True
            mark(t, st.lineno)
            return
        if isinstance(st, (ast.Assign, ast.AnnAssign)):
            t = expr(st.value, st.lineno) if st.value is not None else False
            for tg in (st.targets if isinstance(st, ast.Assign) else [st.target]):
                t |= expr(tg, st.lineno)
            mark(t, st.lineno)
            return
        if isinstance(st, ast.Return):
            mark(expr(st.value, st.lineno), st.lineno)
            return
        if isinstance(st, ast.Raise):
            toks.append("RAISE")
            return
        if isinstance(st, (ast.Expr, ast.Assert)):
            mark(expr(st.value if isinstance(st, ast.Expr) else st.test, st.lineno), st.lineno)
            return
        raise ValueError(f"{path}:{st.lineno}: unsupported statement {type(st).__name__}")

    sync = None
    for d in fn.decorator_list:
        if isinstance(d, ast.Call) and ast.unparse(d.func) == "synchronized":
            sync = ast.unparse(d.args[0])
        else:
            raise ValueError(f"{path}:{fn.lineno}: unsupported decorator {ast.unparse(d)}")
    if sync is not None:
        toks.append("LOCK{")
        depth[0] += 1
    stmts(fn.body)
    if sync is not None:
        depth[0] -= 1
        toks.append("}")
    return toks, lines


def check_shapes(expected, shared_by_file, root):
    """expected: {(relative file, function path): token list}.  -> (targets for the tracer, mismatches)"""
    targets, bad = {}, []
    for (rel, fpath), exp in expected.items():
        path = os.path.join(root, rel)
        try:
            toks, lines = lock_shape(path, fpath, shared_by_file[rel])
        except Exception as e:  # fail closed
            bad.append({"where": f"{rel}:{fpath}", "error": f"{type(e).__name__}: {e}"})
            continue
        if toks != exp:
            bad.append({"where": f"{rel}:{fpath}", "expected": exp, "found": toks})
        d = targets.setdefault(os.path.abspath(path), {})
        name = fpath.split(".")[-1]
        d[name] = set(d.get(name) or ()) | set(lines)
    return targets, bad


# --------------------------------------------------------------------------
# a scheduler run by logical threads
# --------------------------------------------------------------------------

class _Cancel:
    def __init__(self, sched, item):
        self.sched, self.item = sched, item

    def dispose(self):
        self.sched.cancel(self.item)


class CtlScheduler:
    """schedule*/: the action is appended to `pending`; a worker (`worker_loop`) starts it later.
    `yield_on_schedule`: the call of schedule() is a yield point (a call out of the object under test)."""

    def __init__(self, world, yield_on_schedule=True):
        self.world = world
        self.pending = []          # [seq, action, state, cancelled]
        self.seq = 0
        self.yield_on_schedule = yield_on_schedule
        self.t0 = datetime(2026, 1, 1, tzinfo=timezone.utc)

    @property
    def now(self):
        return self.t0

    def _push(self, action, state, tag):
        ctl = self.world.ctl
        if self.yield_on_schedule and ctl is not None:
            ctl.yield_point("call")
        item = [self.seq, action, state, False]
        self.seq += 1
        self.pending.append(item)
        self.world.emit("sched", *tag)
        return _Cancel(self, item)

    def schedule(self, action, state=None):
        return self._push(action, state, ())

    def schedule_relative(self, duetime, action, state=None):
        return self._push(action, state, ())

    def schedule_absolute(self, duetime, action, state=None):
        return self._push(action, state, ())

    def cancel(self, item):
        if item in self.pending:
            self.pending.remove(item)
            item[3] = True

    @classmethod
    def to_seconds(cls, value):
        return value.total_seconds() if isinstance(value, timedelta) else float(value)

    @classmethod
    def to_timedelta(cls, value):
        return value if isinstance(value, timedelta) else timedelta(seconds=value)

    @classmethod
    def to_datetime(cls, value):
        return value


def worker_loop(world, sched, on_error=None, max_actions=None):
    """body of a worker thread of `sched`: start pending actions one at a time, at the moments the
    schedule picks this thread; blocked while nothing is pending (or after `max_actions` actions);
    leaves when every other (non-worker) thread has finished and nothing is left for it to do"""
    ctl = world.ctl
    done = [0]

    def may_run():
        return bool(sched.pending) and (max_actions is None or done[0] < max_actions)
    gate = Gate(lambda: may_run() or world.producers_left == 0)
    while True:
        wait_gate(ctl, gate)
        if may_run():
            item = sched.pending.pop(0)
            done[0] += 1
            world.emit("pop")
            try:
                item[1](sched, item[2])
            except Exception as e:  # noqa: what escapes into the scheduler
                if on_error is not None:
                    on_error(e)
        elif world.producers_left == 0:
            return
