"""Driver of the check C43: the real combinators with one logical thread per source (harness/k3.py,
k3x.py, MEDIUM granularity).

Scenario  {"op": name, "progs": [[ev, ...] per source thread], "params": {...}, "timers": 0|1}
  ev: "n" (on_next) | "e" (on_error) | "c" (on_completed); thread i pushes into source i, serially.
  merge_all / merge_max / flat_map: thread 0 is the OUTER source, its k-th "n" emits inner source k
  (k = 1, 2, ..): the sources 1.. are hot (what they emit before being subscribed is lost).
  window_time / window_toc: thread 0 is the source, the last thread is the worker of the timer scheduler.
  merge_static (reactivex.merge(a, b, ..)) / merge_with (a.pipe(ops.merge(b, ..))): the STATIC forms; every
  thread is a source.  The outer sequence (from_iterable of the sources) runs on the SUBSCRIBING thread, so
  the subscription itself is made by one more controlled thread (logical thread 0; source i is thread i+1):
  sources that are already subscribed emit while the outer is still handing out the remaining ones and
  completing.  What a hot source pushes before it is subscribed is lost.  Oracle only (no transition system).
  amb3: reactivex.amb(a, b, c, ..) (nested amb over never()); subscribed on the main thread.  Oracle only.

Between the operator and the subscriber sits a TAP that logs every call the operator makes on its
downstream observer: ("enter", kind) ... ("exit", kind) with a yield point in between, so that two calls
in progress at once are visible.  The tap forwards to a real AutoDetachObserver around the user's
callbacks, which log ("user", kind).
  wired=False  the AutoDetachObserver's subscription is left empty: a terminal notification does not
               dispose the sources (= a subscriber whose terminal callback has not returned yet); every
               source event reaches the operator.  This is the configuration of the Coq transition systems.
  wired=True   as Observable.subscribe does it: the terminal notification disposes the subscription
               (oracle only).
Yield points: before every source event (G) | every acquisition of the operator's lock | the lines, outside
any locked region, that touch the operator's shared closure variables (AST pass) | inside every downstream
call | the subscribe of an inner source (merge) | a timer worker starting a pending timer action."""
from __future__ import annotations

import os

import k3
import k3x
import lib

OPS = ("merge_all", "merge_max", "flat_map", "zip", "combine_latest", "with_latest_from", "amb",
       "window_time", "window_toc", "merge_static", "merge_with", "amb3")
ORACLE_ONLY = ("merge_static", "merge_with", "amb3")       # no Coq transition system: judged by the oracle only
SUBSCRIBER_THREAD = ("merge_static", "merge_with")        # subscription made by a controlled thread

MODULES = ["reactivex.observable.observable", "reactivex.observable.zip", "reactivex.observable.combinelatest"]

F_MERGE = "reactivex/operators/_merge.py"
F_ZIP = "reactivex/observable/zip.py"
F_CL = "reactivex/observable/combinelatest.py"
F_WLF = "reactivex/observable/withlatestfrom.py"
F_AMB = "reactivex/operators/_amb.py"
F_WT = "reactivex/operators/_windowwithtime.py"
F_WTC = "reactivex/operators/_windowwithtimeorcount.py"

SHARED = {
    F_MERGE: {"active_count", "is_stopped", "queue", "group"},
    F_ZIP: {"queues", "is_completed"},
    F_CL: {"has_value", "has_value_all", "is_done", "values"},
    F_WLF: {"values"},
    F_AMB: {"choice"},
    F_WT: {"queue", "next_shift", "next_span", "total_time"},
    F_WTC: {"n", "s", "window_id"},
}


class SourceError(Exception):
    def __init__(self, src):
        super().__init__(f"error of source {src}")
        self.src = src


class World:
    def __init__(self, sc, wired=False):
        self.sc = sc
        self.wired = wired
        self.ctl = None
        self.flags = []
        self.inside = []               # tids currently inside a downstream call
        self.producers_left = 0
        self.sched = k3x.CtlScheduler(self, yield_on_schedule=False)
        self.srcs = []
        self.windows = 0

    def emit(self, *ev):
        if ev[0] in ("sched", "pop"):
            return
        if self.ctl is not None:
            self.ctl.emit(*ev)

    def yield_point(self):
        if self.ctl is not None:
            self.ctl.yield_point("call")


class HotSource:
    def __init__(self, world, idx):
        import reactivex
        self.w, self.idx = world, idx
        self.observer = None
        self.obs = reactivex.Observable(self._subscribe)

    def _subscribe(self, observer, scheduler=None):
        from reactivex.disposable import Disposable
        self.w.yield_point()                      # a call out of the operator (no-op on the main thread)
        self.observer = observer
        return Disposable()

    def push(self, ev, payload=None):
        o = self.observer
        if o is None:
            return                                # hot: lost
        if ev == "n":
            o.on_next(self.idx if payload is None else payload)
        elif ev == "e":
            o.on_error(SourceError(self.idx))
        else:
            o.on_completed()


class Tap:
    """logs the calls the operator makes on its downstream observer"""

    def __init__(self, world, inner):
        self.w, self.inner = world, inner

    def _call(self, kind, f, *a):
        w = self.w
        ctl = w.ctl
        tid = ctl.tid() if ctl is not None else -1
        if w.inside:
            w.flags.append(("overlap", f"thread {tid} calls on_{kind} while thread(s) {list(w.inside)} are inside "
                                       "the downstream observer"))
        w.inside.append(tid)
        w.emit("enter", kind)
        try:
            w.yield_point()
            f(*a)
        finally:
            w.inside.remove(tid)
            w.emit("exit", kind)

    def on_next(self, v):
        self._call("n", self.inner.on_next, v)

    def on_error(self, e):
        self._call("e", self.inner.on_error, e)

    def on_completed(self):
        self._call("c", self.inner.on_completed)


def build(w, sc):
    import reactivex
    from reactivex import operators as ops
    op, params = sc["op"], sc.get("params", {})
    nsrc = len(sc["progs"]) - sc.get("timers", 0)
    w.srcs = [HotSource(w, i) for i in range(nsrc)]
    s = w.srcs
    if op == "zip":
        return reactivex.zip(*[x.obs for x in s])
    if op == "combine_latest":
        return reactivex.combine_latest(*[x.obs for x in s])
    if op == "with_latest_from":
        return s[0].obs.pipe(ops.with_latest_from(*[x.obs for x in s[1:]]))
    if op == "amb":
        return s[0].obs.pipe(ops.amb(s[1].obs))
    if op == "merge_static":
        return reactivex.merge(*[x.obs for x in s])
    if op == "merge_with":
        return s[0].obs.pipe(ops.merge(*[x.obs for x in s[1:]]))
    if op == "amb3":
        return reactivex.amb(*[x.obs for x in s])
    if op == "merge_all":
        return s[0].obs.pipe(ops.merge_all())
    if op == "merge_max":
        return s[0].obs.pipe(ops.merge(max_concurrent=params.get("max", 1)))
    if op == "flat_map":
        return s[0].obs.pipe(ops.flat_map(lambda k: s[k].obs))
    if op == "window_time":
        return s[0].obs.pipe(ops.window_with_time(params.get("span", 1.0), params.get("shift"), scheduler=w.sched))
    if op == "window_toc":
        return s[0].obs.pipe(ops.window_with_time_or_count(params.get("span", 1.0), params.get("count", 2),
                                                           scheduler=w.sched))
    raise ValueError(op)


def run_once(sc, chooser, targets, wired=False, max_steps=4000):
    """locks must be rebound.  -> (controller, world, number of log entries made by the subscription itself)"""
    from reactivex.observer import AutoDetachObserver
    w = World(sc, wired)
    c = k3x.MController(targets, max_steps=max_steps)
    opobs = build(w, sc)

    def user(kind):
        def f(*a):
            w.emit("user", kind)
        return f
    ado = AutoDetachObserver(user("n"), user("e"), user("c"))
    tap = Tap(w, ado)
    pre = []
    if sc["op"] in SUBSCRIBER_THREAD:
        w.ctl = c

        def subscriber():                # logical thread 0: the outer sequence of the static merge runs here
            disp = opobs._subscribe_core(tap, None)
            if wired:
                ado.subscription = disp
            w.keep = disp
        c.spawn(subscriber)
    else:
        w.ctl = _PreLog(pre)             # subscription time: logged apart (runs on the main thread)
        disp = opobs._subscribe_core(tap, None)
        if wired:
            ado.subscription = disp
        w.keep = disp
        w.ctl = c
    nsrc = len(w.srcs)
    merge_like = sc["op"] in ("merge_all", "merge_max", "flat_map")

    def producer(i, prog):
        def body():
            try:
                k = 0
                for ev in prog:
                    c.yield_point("call")                      # G
                    if merge_like and i == 0 and ev == "n":
                        k += 1
                        if k < nsrc:
                            w.srcs[0].push("n", k if sc["op"] == "flat_map" else w.srcs[k].obs)
                    else:
                        w.srcs[i].push(ev)
            finally:
                w.producers_left -= 1
        return body
    w.producers_left = nsrc
    for i in range(nsrc):
        c.spawn(producer(i, sc["progs"][i]))
    for _ in range(sc.get("timers", 0)):
        c.spawn(lambda: k3x.worker_loop(w, w.sched, max_actions=sc.get("params", {}).get("ticks", 2)))
    c.run(chooser)
    w.ctl = None
    w.pre = pre
    return c, w


class _PreLog:
    def __init__(self, sink):
        self.sink = sink

    def emit(self, *ev):
        self.sink.append((-1,) + tuple(ev))

    def yield_point(self, kind="call"):
        return

    def tid(self):
        return -1


# --------------------------------------------------------------------------
# oracle (direct; never consults the model)
# --------------------------------------------------------------------------

def oracle(sc, log, w):
    """-> list of (tag, message).  log: [(tid, 'enter'|'exit'|'user', kind)]"""
    bad = []
    seen = set()
    for f in w.flags:
        if f[0] not in seen:
            seen.add(f[0])
            bad.append(f)
    # never two calls of the downstream observer in progress at once
    open_ = []
    for e in log:
        if e[1] == "enter":
            if open_ and "overlap" not in seen:
                seen.add("overlap")
                bad.append(("overlap", f"thread {e[0]} enters on_{e[2]} while {open_} are open"))
            open_.append((e[0], e[2]))
        elif e[1] == "exit":
            if (e[0], e[2]) in open_:
                open_.remove((e[0], e[2]))
    if open_:
        bad.append(("never-returned", f"{open_}"))
    # grammar of what the subscriber's callbacks saw: Next* (Err|Done)?
    user = [e[2] for e in log if e[1] == "user"]
    for k, x in enumerate(user):
        if x in ("e", "c") and k != len(user) - 1:
            bad.append(("grammar", f"the subscriber saw {user}"))
            break
    return bad


def pre_oracle(pre):
    """the calls made while subscribing (one thread) must themselves be serial and grammatical"""
    depth = 0
    for e in pre:
        if e[1] == "enter":
            depth += 1
            if depth > 1:
                return [("overlap-at-subscription", f"{pre}")]
        elif e[1] == "exit":
            depth -= 1
    return []
