"""Oracle-only scenario families for the timed operators (C15-C17), added after the coverage audit
(audit/audit-B.md).  They reach code paths the port-level K2 driver (hand-held hot sources, nobody pushes
while a delivery is on the stack, mapper-made observables never fire inside subscribe()) cannot:

* feedback: the subscriber pushes an element / a terminal into the source from inside its own on_next;
* mapper-made observables that fire synchronously inside subscribe() (empty(), of(), terminated or
  replaying subjects, hand-written ones) and real reactivex.timer() observables under TestScheduler;
* argument corner cases (throttle_first with a non-positive window) and cold sources that emit at the
  subscription instant.

Every family is a pair gen(rng) -> params (JSON: lists, ints, None, strings only) and run(params) ->
dict(verdict, sig, got, expected, nontrivial, skipped, kinds): run() drives the REAL operator and compares
with a reference written from the property text (never from the Coq machines).  Where the text leaves an
outcome open (two things at one instant) the reference either accepts every outcome or declares the case
a tie (skipped, counted).  A violation's replay file is {"family", "params", ...}; replay_family re-runs it.
"""
import json
import random

from k2 import UserError, err_id

FAMILIES = {}


def family(pid, name):
    def deco(cls):
        FAMILIES[name] = {"pid": pid, "gen": cls.gen, "run": cls.run, "doc": (cls.__doc__ or "").strip()}
        return cls
    return deco


# ---------------------------------------------------------------------------------------------
# drivers

class Hot:
    """hand-made hot source: forwards to whoever is subscribed now; nothing is replayed; after its own
    terminal it forwards nothing more (as a Subject would), re-entrant pushes included"""

    def __init__(self):
        import reactivex
        from reactivex.disposable import Disposable
        self.recs = []
        self.stopped = False
        self.nsub = 0

        def subscribe(observer, scheduler=None):
            rec = [observer]
            self.recs.append(rec)
            self.nsub += 1

            def dispose():
                self.recs[:] = [r for r in self.recs if r is not rec]
            return Disposable(dispose)
        self.observable = reactivex.Observable(subscribe)

    def _each(self, f):
        for rec in list(self.recs):
            if any(r is rec for r in self.recs):
                f(rec[0])

    def on_next(self, v):
        if not self.stopped:
            self._each(lambda o: o.on_next(v))

    def on_error(self, e):
        if not self.stopped:
            self.stopped = True
            self._each(lambda o: o.on_error(e))

    def on_completed(self):
        if not self.stopped:
            self.stopped = True
            self._each(lambda o: o.on_completed())

    def push(self, ev):
        if ev[0] == "N":
            self.on_next(ev[1])
        elif ev[0] == "E":
            self.on_error(UserError(ev[1]))
        else:
            self.on_completed()


def norm(out):
    """[(t, kind, payload)] -> JSON-comparable lists; errors by their id"""
    res = []
    for (t, k, p) in out:
        if k == "N":
            res.append([t, "N", p])
        elif k == "E":
            res.append([t, "E", err_id(p) if isinstance(p, BaseException) else p])
        else:
            res.append([t, "C"])
    return res


def run_virtual(build, events, t0, feedback=None, nhot=1, dispose_at=None, encode=None):
    """TestScheduler run.  events [[t, k, ev]] (absolute clock readings > t0; ev = ["N", v] | ["E", code] |
    ["C"]) are queued first, the subscription happens at clock t0 with scheduler=TestScheduler.
    feedback: {json key of a received value: ev}: pushed into hot 0 re-entrantly from the subscriber's on_next
    (each entry fires once).  -> (out, hots)"""
    from reactivex.testing import TestScheduler
    sch = TestScheduler()
    hots = [Hot() for _ in range(nhot)]
    out = []
    fb = dict(feedback or {})
    clock = lambda: int(round(sch.clock))
    enc = encode or (lambda v: v)

    def on_next(v):
        out.append((clock(), "N", enc(v)))
        key = json.dumps(enc(v))
        if key in fb:
            hots[0].push(fb.pop(key))

    def feed(k, ev):
        return lambda s, st=None: hots[k].push(ev)
    for (t, k, ev) in events:
        sch.schedule_absolute(float(t), feed(k, ev))
    sub = [None]

    def subscribe(s, st=None):
        sub[0] = build(hots, sch).subscribe(on_next, lambda e: out.append((clock(), "E", e)),
                                            lambda: out.append((clock(), "C", None)), scheduler=sch)
    sch.schedule_absolute(float(t0), subscribe)
    if dispose_at is not None:
        sch.schedule_absolute(float(dispose_at), lambda s, st=None: sub[0] is not None and sub[0].dispose())
    sch.start()
    return norm(out), hots


def fb_list(fb):
    return {json.dumps(k): ev for (k, ev) in fb}


def result(verdict=None, sig=None, got=None, expected=None, nontrivial=False, skipped=False, kinds=()):
    return dict(verdict=verdict, sig=sig, got=got, expected=expected, nontrivial=nontrivial, skipped=skipped,
                kinds=list(kinds))


def gen_fb(rng, values, p=0.8):
    """feedback chains: a received value -> what the subscriber pushes back into the source while it is
    being delivered: a fresh element (which may trigger another push), a completion or an error"""
    fb = []
    fresh = 1000
    for v in values:
        if rng.random() < p:
            cur = v
            for depth in range(rng.choice([1, 1, 2])):
                u = rng.random()
                if u < 0.7:
                    fb.append([cur, ["N", fresh]])
                    cur = fresh
                    fresh += 1
                elif u < 0.85:
                    fb.append([cur, ["C"]])
                    break
                else:
                    fb.append([cur, ["E", 13]])
                    break
            p = 0.4
    return fb


def gen_arrivals(rng, t0, steps, values, p_c=0.5, p_e=0.15):
    n = rng.choice([1, 2, 2, 3, 4])
    vals = rng.sample(values, n)
    t = t0
    evs = []
    for v in vals:
        t += rng.choice(steps if t > t0 else [x for x in steps if x > 0])   # nobody listens at or before t0
        evs.append([t, 0, ["N", v]])
    u = rng.random()
    t += rng.choice(steps)
    if u < p_c:
        evs.append([t, 0, ["C"]])
    elif u < p_c + p_e:
        evs.append([t, 0, ["E", 11]])
    return evs


ELEMS = [0, None, 10, 20, 30, 40]
INF = float("inf")


# ---------------------------------------------------------------------------------------------
# C16: feedback into debounce / throttle_with_timeout (TestScheduler)

@family("C16", "fb_debounce")
class FbDebounce:
    """debounce(d) under TestScheduler; the subscriber pushes an element / completion / error back into the
    source from inside the delivery of an element.  Text: an element is emitted iff no newer element arrives
    within the due time; the pending one is flushed on completion.  A fed-back element arrives at the emission
    instant and is the newest element from then on."""

    @staticmethod
    def gen(rng):
        d = rng.choice([5, 10])
        t0 = rng.choice([0, 200])
        evs = gen_arrivals(rng, t0, [1, 2, 3, 4, 7, 12, 15, 25], ELEMS)
        fb = gen_fb(rng, [e[2][1] for e in evs if e[2][0] == "N"])
        return {"d": d, "t0": t0, "alias": rng.random() < 0.3, "timedelta": rng.random() < 0.3, "events": evs,
                "feedback": fb}

    @staticmethod
    def reference(p):
        d = p["d"]
        fb = fb_list(p["feedback"])
        exp = []
        pending = None                    # (value, due)
        script = list(p["events"])
        fed = 0
        while True:
            ts = script[0][0] if script else INF
            td = pending[1] if pending else INF
            if ts == INF and td == INF:
                return exp, fed
            if ts == td:
                return None, fed            # a notification exactly at a due time: open, skip
            if td < ts:
                v = pending[0]
                exp.append([td, "N", v])
                pending = None
                ev = fb.pop(json.dumps(v), None)
                if ev is not None:
                    fed += 1
                    if ev[0] == "N":
                        pending = (ev[1], td + d)
                    elif ev[0] == "C":
                        exp.append([td, "C"])
                        return exp, fed
                    else:
                        exp.append([td, "E", ev[1]])
                        return exp, fed
            else:
                _, _, ev = script.pop(0)
                if ev[0] == "N":
                    pending = (ev[1], ts + d)
                elif ev[0] == "C":
                    if pending:
                        exp.append([ts, "N", pending[0]])     # flush (the source is terminating: pushes are void)
                    exp.append([ts, "C"])
                    return exp, fed
                else:
                    exp.append([ts, "E", ev[1]])
                    return exp, fed

    @staticmethod
    def run(p):
        import datetime as dt
        from reactivex import operators as ops
        exp, fed = FbDebounce.reference(p)
        if exp is None:
            return result(skipped=True)
        op = ops.throttle_with_timeout if p["alias"] else ops.debounce
        arg = dt.timedelta(seconds=p["d"]) if p["timedelta"] else float(p["d"])
        got, _ = run_virtual(lambda hots, sch: hots[0].observable.pipe(op(arg)), p["events"], p["t0"],
                             feedback=fb_list(p["feedback"]))
        if got != exp:
            lost = [e for e in exp if e not in got]
            sig = "fed-back notification lost or misplaced" if fed else "emissions differ"
            return result(f"debounce({p['d']}) with feedback: got {got}, expected {exp} (missing {lost})", sig, got, exp)
        return result(got=got, expected=exp, nontrivial=fed > 0 and len(exp) >= 2,
                      kinds=["fed_back"] * fed)


# ---------------------------------------------------------------------------------------------
# C16: feedback into throttle_with_mapper (hand-held throttle observables, no clock)

@family("C16", "fb_throttle_mapper")
class FbThrottleMapper:
    """throttle_with_mapper with hand-held throttle observables; the subscriber pushes back into the source
    from inside the delivery.  Text: the pending element is emitted when ITS throttle observable fires (first
    on_next or completion); a newer element replaces it; completion flushes."""

    @staticmethod
    def gen(rng):
        vals = rng.sample(ELEMS, rng.choice([1, 2, 3, 4]))
        fb = gen_fb(rng, vals)
        script = []

        def current():
            """index of the throttle observable subscribed after the steps so far (None: none, or the run ended)"""
            st = {}
            FbThrottleMapper.reference({"script": script, "feedback": fb}, st)
            return None if st.get("ended") else st.get("cur")
        for v in vals:
            script.append(["src", v])
            for _ in range(rng.choice([0, 1, 1, 2])):
                cur = current()
                j = cur if (cur is not None and rng.random() < 0.75) else rng.randrange(0, 6)
                script.append(["fire", j, rng.choice(["N", "N", "C", "E"] if rng.random() < 0.15 else ["N", "N", "C"])])
        u = rng.random()
        if u < 0.5:
            script.append(["C"])
        elif u < 0.6:
            script.append(["E", 11])
        return {"script": script, "feedback": fb}

    @staticmethod
    def reference(p, st=None):
        fb = fb_list(p["feedback"])
        exp = []
        st = st if st is not None else {}
        st.update({"pending": None, "cur": None, "ncalls": 0, "fed": 0, "ended": True})

        def arrive(v):
            st["pending"] = (v,)
            st["cur"] = st["ncalls"]
            st["ncalls"] += 1
        for step in p["script"]:
            if step[0] == "src":
                arrive(step[1])
            elif step[0] == "fire":
                if step[1] != st["cur"]:
                    continue                       # not subscribed (stale, already fired, or not made yet)
                if step[2] == "E":
                    exp.append(["E", 14])
                    return exp, st["fed"]
                st["cur"] = None
                if st["pending"]:
                    v = st["pending"][0]
                    st["pending"] = None
                    exp.append(["N", v])
                    ev = fb.pop(json.dumps(v), None)
                    if ev is not None:
                        st["fed"] += 1
                        if ev[0] == "N":
                            arrive(ev[1])
                        elif ev[0] == "C":
                            exp.append(["C"])
                            return exp, st["fed"]
                        else:
                            exp.append(["E", ev[1]])
                            return exp, st["fed"]
            elif step[0] == "C":
                if st["pending"]:
                    exp.append(["N", st["pending"][0]])
                exp.append(["C"])
                return exp, st["fed"]
            else:
                exp.append(["E", step[1]])
                return exp, st["fed"]
        st["ended"] = False
        return exp, st["fed"]

    @staticmethod
    def run(p):
        from reactivex import operators as ops
        exp, fed = FbThrottleMapper.reference(p)
        src = Hot()
        throttles = []
        fb = fb_list(p["feedback"])
        out = []

        def mapper(x):
            h = Hot()
            throttles.append(h)
            return h.observable

        def on_next(v):
            out.append((0, "N", v))
            ev = fb.pop(json.dumps(v), None)
            if ev is not None:
                src.push(ev)
        src.observable.pipe(ops.throttle_with_mapper(mapper)).subscribe(
            on_next, lambda e: out.append((0, "E", e)), lambda: out.append((0, "C", None)))
        for step in p["script"]:
            if step[0] == "src":
                src.on_next(step[1])
            elif step[0] == "fire":
                if step[1] < len(throttles):
                    throttles[step[1]].push(["N", 0] if step[2] == "N" else (["C"] if step[2] == "C" else ["E", 14]))
            else:
                src.push(step)
        got = [e[1:] for e in norm(out)]
        if got != exp:
            sig = "fed-back notification lost or misplaced" if fed else "emissions differ"
            return result(f"throttle_with_mapper with feedback: got {got}, expected {exp}", sig, got, exp)
        return result(got=got, expected=exp, nontrivial=fed > 0 and len(exp) >= 2, kinds=["fed_back"] * fed)


# ---------------------------------------------------------------------------------------------
# C15-G2 / C16-G2 / C17-G2: what the mapper returns fires inside subscribe(), or is a real timer()

KIND_ERR = 14


def make_obs(kind, reg):
    """the observable a mapper returns, by kind (JSON list); hand-held ones are appended to reg"""
    import reactivex as rx
    from reactivex.disposable import Disposable
    from reactivex.subject import BehaviorSubject, ReplaySubject, Subject
    k = kind[0]
    if k == "hand":
        h = Hot()
        reg.append(h)
        return h.observable
    reg.append(None)
    if k == "sync":                         # delivers kind[1] inside subscribe(), before subscribe() returns
        evs = list(kind[1])

        def subscribe(observer, scheduler=None):
            for e in evs:
                if e == "N":
                    observer.on_next(0)
                elif e == "C":
                    observer.on_completed()
                else:
                    observer.on_error(UserError(KIND_ERR))
            return Disposable()
        return rx.Observable(subscribe)
    if k == "empty":
        return rx.empty()
    if k == "of":
        return rx.of(*range(7, 7 + kind[1]))
    if k == "never":
        return rx.never()
    if k == "throw":
        return rx.throw(UserError(KIND_ERR))
    if k == "done_subject":
        sj = Subject()
        sj.on_completed()
        return sj
    if k == "failed_subject":
        sj = Subject()
        sj.on_error(UserError(KIND_ERR))
        return sj
    if k == "behavior":
        return BehaviorSubject(0)
    if k == "replay":
        sj = ReplaySubject()
        for i in range(kind[1]):
            sj.on_next(i)
        return sj
    if k == "timer":
        return rx.timer(float(kind[1]))     # no scheduler argument: must inherit the one given to subscribe()
    raise ValueError(kind)


def first_signal(kind, mode):
    """-> None (never by itself / hand-held) | (type of the first signal, delay, deferred): deferred = delivered by
    a scheduled action at that instant rather than inside subscribe()"""
    k = kind[0]
    via_sched = mode == "virtual"           # empty/of/throw run on the scheduler given to subscribe()
    if k in ("hand", "never"):
        return None
    if k == "sync":
        return (kind[1][0], 0, False) if kind[1] else None
    if k == "empty":
        return ("C", 0, via_sched)
    if k == "of":
        return ("N" if kind[1] else "C", 0, via_sched)
    if k == "throw":
        return ("E", 0, via_sched)
    if k == "done_subject":
        return ("C", 0, False)
    if k == "failed_subject":
        return ("E", 0, False)
    if k in ("behavior", "replay"):
        return ("N", 0, False)
    if k == "timer":
        return ("N", kind[1], True)
    raise ValueError(kind)


SYNC_KINDS = [["sync", ["N"]], ["sync", ["N", "C"]], ["sync", ["N", "N"]], ["sync", ["N", "N", "C"]],
              ["sync", ["C"]], ["sync", ["E"]], ["done_subject"], ["failed_subject"], ["behavior"], ["replay", 2]]
LIB_KINDS = [["empty"], ["of", 1], ["of", 2], ["throw"], ["never"]]


def gen_kinds(rng, mode, n=6):
    ks = []
    for _ in range(n):
        u = rng.random()
        if mode == "untimed":
            if u < 0.3:
                ks.append(["hand"])
            elif u < 0.7:
                ks.append(rng.choice(SYNC_KINDS))
            else:
                ks.append(rng.choice(LIB_KINDS))
        else:
            if u < 0.45:
                ks.append(["timer", rng.choice([0, 3, 5, 10])])
            elif u < 0.7:
                ks.append(rng.choice(LIB_KINDS))
            else:
                ks.append(rng.choice(SYNC_KINDS))
        if ks[-1][0] in ("throw", "failed_subject") or ks[-1] == ["sync", ["E"]]:
            if rng.random() < 0.6:
                ks[-1] = ["sync", ["N"]]            # keep erroring kinds rare: they end the run
    return ks


def gen_mapper_events(rng, mode, t0, with_other=False, with_first=False):
    """untimed: one instant per step (1, 2, ...); virtual: strictly increasing source instants after t0"""
    evs = []
    nsrc = rng.choice([1, 2, 3, 3, 4])
    vals = rng.sample(ELEMS, nsrc)
    if mode == "untimed":
        steps = [["src", ["N", v]] for v in vals]
        nfire = rng.choice([0, 1, 2, 3, 4])
        for _ in range(nfire):
            tgt = ["m", rng.randrange(0, 4)]
            if with_first and rng.random() < 0.25:
                tgt = "first"
            steps.insert(rng.randrange(0, len(steps) + 1),
                         [tgt, [rng.choice(["N", "N", "C", "E"] if rng.random() < 0.25 else ["N", "C"])]])
        u = rng.random()
        if u < 0.55:
            steps.insert(rng.randrange(max(len(steps) - 2, 0), len(steps) + 1), ["src", ["C"]])
        elif u < 0.65:
            steps.append(["src", ["E", 11]])
        if with_other:
            for _ in range(rng.choice([1, 2, 3])):
                steps.insert(rng.randrange(0, len(steps) + 1), ["other", ["N", rng.choice([70, 71, 72])]])
            if rng.random() < 0.6:
                steps.append(["other", rng.choice([["C"], ["C"], ["E", 12]])])
        for i, (tgt, ev) in enumerate(steps):
            ev = list(ev)
            if ev[0] == "E" and len(ev) == 1:
                ev = ["E", KIND_ERR]
            elif ev[0] == "N" and len(ev) == 1:
                ev = ["N", 0]
            evs.append([i + 1, tgt, ev])
    else:
        t = t0
        for v in vals:
            t += rng.choice([1, 2, 3, 4, 5, 7, 10, 12])
            evs.append([t, "src", ["N", v]])
        u = rng.random()
        t += rng.choice([1, 2, 3, 5, 7, 12])
        if u < 0.55:
            evs.append([t, "src", ["C"]])
        elif u < 0.65:
            evs.append([t, "src", ["E", 11]])
    return evs


class Tie(Exception):
    pass


def canon(out):
    """order within one instant is not compared: elements sorted, the terminal last"""
    return sorted(out, key=lambda e: (e[0], e[1] != "N", json.dumps(e[2:] if len(e) > 2 else None)))


def mapper_reference(p):
    """reference for the three *_with_mapper operators on a list of timed events (see first_signal): a direct
    reading of 'when its delay / throttle / timeout observable FIRST emits or completes'.  -> expected
    [[t, kind, payload]]; raises Tie when two things whose order the text leaves open share an instant"""
    import heapq
    op, mode, kinds = p["op"], p["mode"], p["kinds"]
    exp = []
    dyn = []                           # (time, seq, j, type)
    st = {"ncalls": 0, "done": False, "at_end": False, "cur": None, "pending": {}, "switched": False, "seq": 0}
    other = p.get("other")

    def kind_of(j):
        return kinds[j] if j < len(kinds) else ["never"]

    def stop(t, kind, payload=None):
        exp.append([t, kind] + ([payload] if kind == "E" else []))
        st["done"] = True

    def switch(t):
        st["switched"] = True
        st["cur"] = None
        if other is None:
            stop(t, "E", -12)
        elif other[0] == "of":
            for i in range(other[1]):
                exp.append([t, "N", 99 + i])
            stop(t, "C")

    def fire(j, t, typ):
        """the first signal of mapper-made observable j (or "first") arrives at t"""
        if st["done"]:
            return
        if op == "delay_with_mapper":
            if j not in st["pending"]:
                return
            if typ == "E":
                return stop(t, "E", KIND_ERR)
            exp.append([t, "N", st["pending"].pop(j)])
            if st["at_end"] and not st["pending"]:
                stop(t, "C")
        elif op == "throttle_with_mapper":
            if st["cur"] != j:
                return
            if typ == "E":
                return stop(t, "E", KIND_ERR)
            st["cur"] = None
            exp.append([t, "N", st["pending"].pop("x")])
        else:
            if st["cur"] != j or st["switched"]:
                return
            if typ == "E":
                return stop(t, "E", KIND_ERR)
            switch(t)

    def created(j, t):
        sig = first_signal(kind_of(j) if j != "first" else p["first"], mode)
        if sig is None:
            return
        typ, delay, deferred = sig
        if not deferred:
            fire(j, t, typ)
        else:
            st["seq"] += 1
            heapq.heappush(dyn, (t + delay, st["seq"], j, typ))

    if op == "timeout_with_mapper" and p.get("first") is not None:
        st["cur"] = "first"
        created("first", p["t0"])
    script = list(p["events"])
    while not st["done"] and (script or dyn):
        ts = script[0][0] if script else INF
        td = dyn[0][0] if dyn else INF
        if td <= ts:
            t, _, j, typ = dyn[0]
            live = (j in st["pending"]) if op == "delay_with_mapper" else (st["cur"] == j)
            if td == ts and live:
                # a scheduled firing and a scripted notification at one instant: open, unless nothing but
                # deliveries of delay_with_mapper are involved (their order within the instant is not compared)
                nxt = script[0]
                errs = nxt[2][0] == "E" or (nxt[1] == "src" and nxt[2][0] == "N" and
                                            (first_signal(kind_of(st["ncalls"]), mode) or ("N",))[0] == "E")
                if op != "delay_with_mapper" or typ == "E" or errs:
                    raise Tie()
            if op == "delay_with_mapper":
                same = [e for e in dyn if e[0] == td and e[2] in st["pending"]]
                if len(same) > 1 and any(e[3] == "E" for e in same):
                    raise Tie()             # an erroring and another delay observable due at one instant
            heapq.heappop(dyn)
            fire(j, t, typ)
            continue
        t, tgt, ev = script.pop(0)
        if tgt == "src":
            if st["switched"] or st["at_end"]:
                continue
            if ev[0] == "N":
                if op == "timeout_with_mapper":
                    exp.append([t, "N", ev[1]])
                j = st["ncalls"]
                st["ncalls"] += 1
                if op == "delay_with_mapper":
                    st["pending"][j] = ev[1]
                elif op == "throttle_with_mapper":
                    st["pending"] = {"x": ev[1]}
                    st["cur"] = j
                else:
                    st["cur"] = j
                created(j, t)
            elif ev[0] == "E":
                stop(t, "E", ev[1])
            else:
                if op == "delay_with_mapper":
                    st["at_end"] = True
                    if not st["pending"]:
                        stop(t, "C")
                elif op == "throttle_with_mapper":
                    if "x" in st["pending"]:
                        exp.append([t, "N", st["pending"].pop("x")])
                    stop(t, "C")
                else:
                    stop(t, "C")
        elif tgt == "other":
            if st["switched"] and other is not None and other[0] == "hand":
                if ev[0] == "N":
                    exp.append([t, "N", ev[1]])
                else:
                    stop(t, ev[0], ev[1] if ev[0] == "E" else None)
        else:                               # hand-held mapper-made observable ["m", j] / the first timeout
            j = "first" if tgt == "first" else tgt[1]
            k = p.get("first") if j == "first" else kind_of(j)
            if k is not None and k[0] == "hand":
                fire(j, t, ev[0])
    return exp


def mapper_run(p):
    from reactivex import operators as ops
    op, mode = p["op"], p["mode"]
    reg = []
    first_reg = []

    def mapper(x):
        j = len(reg)
        return make_obs(p["kinds"][j] if j < len(p["kinds"]) else ["never"], reg)
    other_hot = Hot()

    def build(src):
        if op == "delay_with_mapper":
            if p.get("sub_delay") is not None:
                return src.pipe(ops.delay_with_mapper(make_obs(p["sub_delay"], first_reg), mapper))
            return src.pipe(ops.delay_with_mapper(mapper))
        if op == "throttle_with_mapper":
            return src.pipe(ops.throttle_with_mapper(mapper))
        first = make_obs(p["first"], first_reg) if p.get("first") is not None else None
        other = p.get("other")
        oth = None if other is None else (other_hot.observable if other[0] == "hand" else
                                          __import__("reactivex").of(*range(99, 99 + other[1])))
        return src.pipe(ops.timeout_with_mapper(first, mapper, oth))
    if mode == "virtual":
        evs = [[t, 0, ev] for (t, tgt, ev) in p["events"] if tgt == "src"]
        got, _ = run_virtual(lambda hots, sch: build(hots[0].observable), evs, p["t0"])
        return got
    src = Hot()
    now = [0]
    out = []
    build(src.observable).subscribe(lambda v: out.append((now[0], "N", v)), lambda e: out.append((now[0], "E", e)),
                                    lambda: out.append((now[0], "C", None)))
    for (t, tgt, ev) in p["events"]:
        now[0] = t
        if tgt == "src":
            src.push(ev)
        elif tgt == "other":
            other_hot.push(ev)
        elif tgt == "first":
            if first_reg and first_reg[0] is not None:
                first_reg[0].push(ev)
        elif tgt[1] < len(reg) and reg[tgt[1]] is not None:
            reg[tgt[1]].push(ev if ev[0] != "E" else ["E", KIND_ERR])
    return norm(out)


def mapper_family(pid, name, op, doc):
    class Fam:
        __doc__ = doc

        @staticmethod
        def gen(rng):
            mode = "untimed" if rng.random() < 0.55 else "virtual"
            t0 = 0 if mode == "untimed" else rng.choice([0, 200])
            p = {"op": op, "mode": mode, "t0": t0, "kinds": gen_kinds(rng, mode)}
            if op == "timeout_with_mapper":
                u = rng.random()
                p["other"] = None if u < 0.4 else (["of", rng.choice([0, 1, 2])] if u < 0.7 or mode == "virtual"
                                                   else ["hand"])
                p["first"] = None if rng.random() < 0.4 else gen_kinds(rng, mode, 1)[0]
            if op == "delay_with_mapper" and rng.random() < 0.12:
                # a subscription delay that fires inside subscribe() (hand-held ones are in the port-level tables)
                p["sub_delay"] = rng.choice([["sync", ["N"]], ["sync", ["C"]], ["sync", ["N", "C"]], ["behavior"],
                                             ["done_subject"], ["empty"], ["of", 1]])
            p["events"] = gen_mapper_events(rng, mode, t0, with_other=p.get("other") == ["hand"],
                                            with_first=p.get("first") == ["hand"])
            return p

        @staticmethod
        def run(p):
            try:
                exp = mapper_reference(p)
            except Tie:
                return result(skipped=True)
            got = mapper_run(p)
            used = [json.dumps(k) for k in p["kinds"][:sum(1 for e in p["events"] if e[1] == "src" and e[2][0] == "N")]]
            kinds = [p["mode"]] + [("kind " + k) for k in used]
            g, e = (canon(got), canon(exp)) if op == "delay_with_mapper" else (got, exp)
            if p.get("sub_delay") is not None:
                # a subscription delay that fires inside subscribe(): the source is subscribed at once, so every
                # element comes after it and is delivered as without a subscription delay (/repo 31c2bae; before,
                # the source subscription was overwritten and nothing was ever delivered)
                kinds = kinds + ["subscription_delay firing inside subscribe()"]
                if g != e:
                    return result(f"delay_with_mapper with a subscription delay {p['sub_delay']} that fires inside "
                                  f"subscribe(): got {got}, expected {exp}",
                                  "synchronous subscription_delay: elements not delivered as after an immediate "
                                  "subscription", got, exp, kinds=kinds)
            if g != e:
                gn = [x[2] for x in got if x[1] == "N"]
                en = [x[2] for x in exp if x[1] == "N"]
                if op != "timeout_with_mapper" and len(gn) > len(en) and all(gn.count(v) >= en.count(v) for v in en) \
                        and set(map(json.dumps, gn)) == set(map(json.dumps, en)):
                    sig = "element delivered more than once"
                else:
                    sig = "emissions differ"
                return result(f"{op} ({p['mode']}): got {got}, expected {exp}", sig, got, exp, kinds=kinds)
            return result(got=got, expected=exp, nontrivial=len(exp) >= 2, kinds=kinds)
    family(pid, name)(Fam)
    return Fam


mapper_family("C15", "dwm_kinds", "delay_with_mapper",
              "delay_with_mapper whose mapper returns observables that fire INSIDE subscribe() (hand-written "
              "synchronous ones, empty()/of()/throw() without a scheduler, terminated / Behavior / Replay subjects), "
              "hand-held ones, or -- under TestScheduler -- real timer(x)/empty()/of() inheriting the scheduler given to "
              "subscribe().  Text: each element is delivered (once) when its delay observable first emits or completes.")
mapper_family("C16", "twm_kinds", "throttle_with_mapper",
              "throttle_with_mapper whose mapper returns observables that fire inside subscribe(), hand-held ones, or "
              "real timer(x) under TestScheduler.  Text: the pending element is emitted when its throttle observable "
              "fires; a newer element replaces it; completion flushes.")
mapper_family("C17", "tom_kinds", "timeout_with_mapper",
              "timeout_with_mapper whose first timeout / mapper-made timeouts fire inside subscribe(), are hand-held, or "
              "are real timer(x) under TestScheduler; fallback absent (Timeout error), of(...) or hand-held.  Reading "
              "(by analogy with timeout): switch exactly when the current timeout observable first emits or "
              "completes, never after the source terminated; a superseded timeout is void.")


# ---------------------------------------------------------------------------------------------
# C15-G1: feedback into delay (the running[0] / `ex = exception` branches of the drain action)

@family("C15", "fb_delay")
class FbDelay:
    """delay(d) under TestScheduler; the subscriber pushes an element / completion / error back into the source
    from inside the delivery of an element (so it arrives while delay's drain loop is on the stack).  Text: every
    element and the completion exactly d later, in order; an error immediately, dropping pending elements."""

    @staticmethod
    def gen(rng):
        d = rng.choice([0, 5, 10])
        t0 = rng.choice([0, 200])
        evs = gen_arrivals(rng, t0, [0, 0, 1, 2, 3, 5, 7, 10, 12, 25], ELEMS)
        fb = gen_fb(rng, [e[2][1] for e in evs if e[2][0] == "N"])
        return {"d": d, "t0": t0, "arg": rng.choice(["float", "float", "timedelta", "absolute"]), "events": evs,
                "feedback": fb}

    @staticmethod
    def reference(p):
        """-> (list of acceptable outputs, number of pushes) ; raises Tie"""
        d = p["d"]
        fb = fb_list(p["feedback"])
        exp = []
        queue = []                     # (due, ev), first in first out (one d for all)
        script = list(p["events"])
        stopped = False                # the source has terminated: it forwards nothing more
        fed = 0
        while script or queue:
            ts = script[0][0] if script else INF
            td = queue[0][0] if queue else INF
            if td <= ts:
                due, ev = queue[0]
                key = json.dumps(ev[1]) if ev[0] == "N" else None
                if td == ts and not stopped and (any(e[0] == td and e[2][0] == "E" for e in script) or key in fb):
                    raise Tie()        # an error / a competing arrival at the very instant of a delivery: open
                queue.pop(0)
                if ev[0] == "C":
                    exp.append([due, "C"])
                    return [exp], fed
                exp.append([due, "N", ev[1]])
                back = fb.pop(key, None)
                if back is not None and not stopped:
                    fed += 1
                    if back[0] == "E":
                        # immediately; what was still pending is dropped -- elements due at this very instant
                        # (burst companions of the one being delivered) may also have been handed over first
                        also = [[t, "N", e[1]] for (t, e) in queue if t == due and e[0] == "N"]
                        alts = [exp + also[:k] + [[due, "E", back[1]]] for k in range(len(also) + 1)]
                        return alts, fed
                    if back[0] == "C":
                        stopped = True
                    queue.append((due + d, back))
            else:
                _, _, ev = script.pop(0)
                if stopped:
                    continue
                if ev[0] == "E":
                    exp.append([ts, "E", ev[1]])
                    return [exp], fed
                if ev[0] == "C":
                    stopped = True
                queue.append((ts + d, ev))
        return [exp], fed

    @staticmethod
    def run(p):
        import datetime as dt
        from reactivex import operators as ops
        from reactivex.internal.constants import UTC_ZERO
        try:
            alts, fed = FbDelay.reference(p)
        except Tie:
            return result(skipped=True)
        d = p["d"]
        arg = {"float": float(d), "timedelta": dt.timedelta(seconds=d),
               "absolute": UTC_ZERO + dt.timedelta(seconds=p["t0"] + d)}[p["arg"]]
        got, _ = run_virtual(lambda hots, sch: hots[0].observable.pipe(ops.delay(arg)), p["events"], p["t0"],
                             feedback=fb_list(p["feedback"]))
        if got not in alts:
            sig = "fed-back notification lost or misplaced" if fed else "emissions differ"
            return result(f"delay({d}) with feedback: got {got}, expected {alts[0]}"
                          + (f" (or one of {len(alts)} same-instant variants)" if len(alts) > 1 else ""), sig, got, alts[0])
        return result(got=got, expected=alts[0], nontrivial=fed > 0 and len(got) >= 2, kinds=["fed_back"] * fed)


# ---------------------------------------------------------------------------------------------
# C16-G5: feedback into sample(period) ; C16-G4: throttle_first with a non-positive window

@family("C16", "fb_sample_period")
class FbSamplePeriod:
    """sample(period) under TestScheduler (disposed at a horizon); the subscriber pushes an element / an error
    back into the source from inside the delivery.  Text: each sampler tick emits the latest not-yet-sampled
    element; a fed-back element is simply the newest element after that tick."""

    @staticmethod
    def gen(rng):
        period = rng.choice([5, 10])
        t0 = rng.choice([0, 200])
        evs = gen_arrivals(rng, t0, [1, 2, 3, 4, 6, 7, 12, 13], ELEMS, p_c=0.3, p_e=0.1)
        vals = [e[2][1] for e in evs if e[2][0] == "N"]
        fb = [f for f in gen_fb(rng, vals) if f[1][0] != "C"]
        keys = {json.dumps(v) for v in vals}
        for f in fb:                                   # keep chains connected after dropping the completions
            if json.dumps(f[0]) in keys and f[1][0] == "N":
                keys.add(json.dumps(f[1][1]))
        fb = [f for f in fb if json.dumps(f[0]) in keys]
        last = max([e[0] for e in evs] + [t0])
        return {"period": period, "t0": t0, "events": evs, "feedback": fb,
                "dispose_at": last + 3 * period + 1}

    @staticmethod
    def reference(p):
        per, t0 = p["period"], p["t0"]
        fb = fb_list(p["feedback"])
        exp, fed = [], 0
        latest, has, at_end = None, False, False
        script = list(p["events"])
        tick = t0 + per
        while tick < p["dispose_at"] or (script and script[0][0] < p["dispose_at"]):
            ts = script[0][0] if script else INF
            if ts == tick:
                raise Tie()
            if ts < tick:
                _, _, ev = script.pop(0)
                if ev[0] == "N":
                    latest, has = ev[1], True
                elif ev[0] == "E":
                    exp.append([ts, "E", ev[1]])
                    return exp, fed
                else:
                    at_end = True
                continue
            if tick >= p["dispose_at"]:
                break
            if has:
                has = False
                exp.append([tick, "N", latest])
                back = fb.pop(json.dumps(latest), None)
                if back is not None and not at_end:
                    fed += 1
                    if back[0] == "N":
                        latest, has = back[1], True
                    else:
                        exp.append([tick, "E", back[1]])
                        return exp, fed
            if at_end:
                exp.append([tick, "C"])
                return exp, fed
            tick += per
        return exp, fed

    @staticmethod
    def run(p):
        from reactivex import operators as ops
        try:
            exp, fed = FbSamplePeriod.reference(p)
        except Tie:
            return result(skipped=True)
        got, _ = run_virtual(lambda hots, sch: hots[0].observable.pipe(ops.sample(float(p["period"]))), p["events"],
                             p["t0"], feedback=fb_list(p["feedback"]), dispose_at=p["dispose_at"])
        if got != exp:
            sig = "fed-back notification lost or misplaced" if fed else "emissions differ"
            return result(f"sample({p['period']}) with feedback: got {got}, expected {exp}", sig, got, exp)
        return result(got=got, expected=exp, nontrivial=fed > 0 and len(exp) >= 2, kinds=["fed_back"] * fed)


@family("C16", "throttle_first_nonpositive")
class ThrottleFirstNonPositive:
    """throttle_first with a zero / negative window.  The text ("only when at least the window duration has
    passed since the last emitted one") is silent about argument validation, so every consistent outcome is
    accepted: the subscription is refused (subscribe() raises or on_error is delivered) and NOTHING is emitted, or
    every element passes (zero time has always passed).  Anything in between is a violation."""

    @staticmethod
    def gen(rng):
        t0 = rng.choice([0, 200])
        return {"window": rng.choice([["float", 0], ["int", 0], ["float", -5], ["timedelta", 0], ["timedelta", -5]]),
                "scheduler_at": rng.choice(["operator", "subscribe"]), "t0": t0,
                "events": gen_arrivals(rng, t0, [0, 1, 5, 12], ELEMS, p_c=0.6, p_e=0.2)}

    @staticmethod
    def run(p):
        import datetime as dt
        from reactivex import operators as ops
        kind, w = p["window"]
        arg = {"float": float(w), "int": int(w), "timedelta": dt.timedelta(seconds=w)}[kind]
        raised = []

        def build(hots, sch):
            op = ops.throttle_first(arg, scheduler=sch) if p["scheduler_at"] == "operator" else ops.throttle_first(arg)
            inner = hots[0].observable.pipe(op)
            import reactivex

            def subscribe(observer, scheduler=None):
                try:
                    return inner.subscribe(observer, scheduler=scheduler)
                except Exception as e:          # refused inside subscribe()
                    raised.append(repr(e))
                    from reactivex.disposable import Disposable
                    return Disposable()
            return reactivex.Observable(subscribe)
        got, _ = run_virtual(build, p["events"], p["t0"])
        mirror = [[t, ev[0]] + list(ev[1:]) for (t, k, ev) in p["events"]]
        for i, e in enumerate(mirror):
            if e[1] in "EC":
                mirror = mirror[:i + 1]
                break
        if raised and got == []:
            outcome = "subscribe() raised"
        elif not raised and len(got) == 1 and got[0][1] == "E" and got[0][0] == p["t0"]:
            outcome = "on_error at subscription"
        elif not raised and got == mirror:
            outcome = "every element passes"
        else:
            return result(f"throttle_first({arg!r}): raised={raised}, emitted {got}; neither refused with nothing "
                          f"emitted nor every element passed ({mirror})", "inconsistent outcome", got, mirror)
        return result(got=got, expected=outcome, nontrivial=False, kinds=[outcome])


# ---------------------------------------------------------------------------------------------
# C17-G5: feedback into timeout

@family("C17", "fb_timeout")
class FbTimeout:
    """timeout(d) under TestScheduler; the subscriber pushes an element / completion / error back into the source
    from inside the delivery of an element (a nested on_next re-arms the timer twice).  Text: switch to the
    fallback (or fail) exactly when the time since subscription or the last element reaches the due time, never
    after the source terminated; a fed-back element arrives at the instant of the one being delivered."""

    @staticmethod
    def gen(rng):
        d = rng.choice([5, 10])
        t0 = rng.choice([0, 200])
        evs = gen_arrivals(rng, t0, [0, 1, 2, 4, 6, 7, 12, 25], ELEMS)
        fb = gen_fb(rng, [e[2][1] for e in evs if e[2][0] == "N"])
        return {"d": d, "t0": t0, "arg": rng.choice(["float", "timedelta"]), "other": rng.choice([None, None, 0, 2]),
                "events": evs, "feedback": fb}

    @staticmethod
    def reference(p):
        d, t0 = p["d"], p["t0"]
        fb = fb_list(p["feedback"])
        arrivals, fed = [], 0                 # source notifications in arrival order, pushes spliced in
        for (t, _, ev) in p["events"]:
            todo = [ev]
            while todo:
                e = todo.pop(0)
                arrivals.append((t, e))
                if e[0] != "N":
                    break
                back = fb.pop(json.dumps(e[1]), None)
                if back is not None:
                    fed += 1
                    todo.append(back)
            if arrivals and arrivals[-1][1][0] != "N":
                break
        exp, last = [], t0
        for (t, e) in arrivals + [(INF, None)]:
            if t - last == d:
                raise Tie()
            if t - last > d:                  # the due time is reached first
                at = last + d
                if p["other"] is None:
                    exp.append([at, "E", -12])
                else:
                    exp += [[at, "N", 99 + i] for i in range(p["other"])] + [[at, "C"]]
                return exp, fed, len(exp)
            if e[0] == "N":
                exp.append([t, "N", e[1]])
                last = t
            else:
                exp.append([t, e[0]] + list(e[1:]))
                return exp, fed, len(exp)
        return exp, fed, len(exp)

    @staticmethod
    def run(p):
        import datetime as dt
        import reactivex as rx
        from reactivex import operators as ops
        try:
            exp, fed, _ = FbTimeout.reference(p)
        except Tie:
            return result(skipped=True)
        arg = float(p["d"]) if p["arg"] == "float" else dt.timedelta(seconds=p["d"])
        other = None if p["other"] is None else rx.of(*range(99, 99 + p["other"]))
        # feedback entries whose trigger is never delivered stay unused; those that the reference consumed are
        # the ones the real run consumes (same delivery order)
        got, _ = run_virtual(lambda hots, sch: hots[0].observable.pipe(ops.timeout(arg, other) if other is not None
                                                                       else ops.timeout(arg)),
                             p["events"], p["t0"], feedback=fb_list(p["feedback"]))
        if got != exp:
            sig = "fed-back notification lost or misplaced" if fed else "emissions differ"
            return result(f"timeout({p['d']}) with feedback: got {got}, expected {exp}", sig, got, exp)
        return result(got=got, expected=exp, nontrivial=fed > 0 and len(exp) >= 2, kinds=["fed_back"] * fed)


# ---------------------------------------------------------------------------------------------
# C17-G3: cold sources that emit at the subscription instant (inside subscribe(), or by an action scheduled on
# the operator's own scheduler)

COLD_OPS = ["take_with_time", "skip_with_time", "take_until_with_time", "skip_until_with_time",
            "take_last_with_time", "skip_last_with_time", "timeout"]


@family("C17", "cold_sources")
class ColdSources:
    """time-window operators over a COLD source that delivers everything at the subscription instant t0 --
    inside subscribe() or by an action on the operator's own TestScheduler (of(), throw()) -- so that timer-first
    versus source-first set-up matters.  Window d > 0: every notification is strictly before the boundary (take:
    mirrored; skip: only the terminal; take_last: everything at completion; skip_last: nothing; timeout: mirrored).
    d <= 0 (also an absolute time in the past): everything is AT the boundary, which the text leaves open: any
    prefix (take, timeout) / suffix (skip) / all-or-nothing (take_last, skip_last) is accepted."""

    @staticmethod
    def gen(rng):
        op = rng.choice(COLD_OPS)
        absolute = op in ("take_until_with_time", "skip_until_with_time") or (op == "timeout" and rng.random() < 0.4)
        d = rng.choice([0, 0, 5, 10] + ([-5] if absolute else []))
        vals = rng.sample(ELEMS, rng.choice([0, 1, 2, 3]))
        term = rng.choice(["C", "C", "C", "E"])
        how = rng.choice(["sync", "sched", "lib"])
        if how == "lib" and term == "E" and vals:
            how = "sched"                        # of() cannot fail; throw() has no elements
        return {"op": op, "d": d, "absolute": absolute, "t0": rng.choice([0, 200]), "vals": vals, "term": term,
                "how": how, "other": rng.choice([None, 0, 2]) if op == "timeout" else None,
                "scheduler_at": rng.choice(["operator", "subscribe"])}

    @staticmethod
    def acceptable(p):
        t0, E, term, d = p["t0"], p["vals"], p["term"], p["d"]
        el = lambda vs: [[t0, "N", v] for v in vs]
        tm = [[t0, "E", 11]] if term == "E" else [[t0, "C"]]
        op = p["op"]
        if op == "timeout":
            sw = [[t0, "E", -12]] if p["other"] is None else el(range(99, 99 + p["other"])) + [[t0, "C"]]
        if d > 0:
            if op.startswith("take_last"):
                return [el(E) + tm if term == "C" else tm]
            if op.startswith("skip_last"):
                return [tm]
            if op.startswith("skip"):
                return [tm]
            return [el(E) + tm]
        prefixes = [E[:k] for k in range(len(E) + 1)]
        if op in ("take_with_time", "take_until_with_time"):
            return [el(P) + [[t0, "C"]] for P in prefixes] + [el(E) + tm]
        if op in ("skip_with_time", "skip_until_with_time"):
            return [el(E[k:]) + tm for k in range(len(E) + 1)]
        if op in ("take_last_with_time", "skip_last_with_time"):
            return [tm, el(E) + tm]
        return [el(P) + sw for P in prefixes] + [el(E) + tm]

    @staticmethod
    def run(p):
        import datetime as dt
        import reactivex as rx
        from reactivex import operators as ops
        from reactivex.disposable import Disposable
        from reactivex.internal.constants import UTC_ZERO
        vals, term = p["vals"], p["term"]

        def deliver(observer):
            for v in vals:
                observer.on_next(v)
            if term == "E":
                observer.on_error(UserError(11))
            else:
                observer.on_completed()

        def make_source():
            if p["how"] == "lib":
                return rx.throw(UserError(11)) if term == "E" else rx.of(*vals)
            if p["how"] == "sync":
                def subscribe(observer, scheduler=None):
                    deliver(observer)
                    return Disposable()
            else:
                def subscribe(observer, scheduler=None):
                    return scheduler.schedule(lambda s, st=None: deliver(observer))
            return rx.Observable(subscribe)

        def build(hots, sch):
            d = p["d"]
            arg = (UTC_ZERO + dt.timedelta(seconds=p["t0"] + d)) if p["absolute"] else float(d)
            kw = {"scheduler": sch} if p["scheduler_at"] == "operator" else {}
            f = getattr(ops, p["op"])
            if p["op"] == "timeout":
                other = None if p["other"] is None else rx.of(*range(99, 99 + p["other"]))
                return make_source().pipe(f(arg, other, **kw))
            return make_source().pipe(f(arg, **kw))
        got, _ = run_virtual(build, [], p["t0"])
        acc = ColdSources.acceptable(p)
        kinds = [p["op"], "window>0" if p["d"] > 0 else "at the boundary", "source " + p["how"]]
        if got not in acc:
            return result(f"{p['op']}({p['d']}{' absolute' if p['absolute'] else ''}) over a cold source delivering "
                          f"{vals}+{term} at the subscription instant: got {got}, acceptable {acc}",
                          f"{p['op']}: cold source at the subscription instant", got, acc, kinds=kinds)
        return result(got=got, expected=acc, nontrivial=len(got) >= 2, kinds=kinds)


# ---------------------------------------------------------------------------------------------
# running and replaying

def run_families(chk, pid, counts):
    """counts: {family: (cases in quick, cases in thorough)}"""
    total_nt = 0
    cov = chk.cov.setdefault("oracle_only_families", {})
    for fam, (nq, nth) in counts.items():
        F = FAMILIES[fam]
        assert F["pid"] == pid, (fam, pid)
        n = nq if chk.tier == "quick" else nth
        nontrivial, skipped, kinds, worst = set(), 0, {}, {}
        for _ in range(n):
            seed = chk.rng.getrandbits(48)
            params = F["gen"](random.Random(seed))
            r = F["run"](params)
            chk.cov["evaluations"] += 1
            if r["skipped"]:
                skipped += 1
                continue
            for k in r["kinds"]:
                kinds[k] = kinds.get(k, 0) + 1
            if r["verdict"]:
                size = len(json.dumps(params))
                if r["sig"] not in worst or size < worst[r["sig"]][0]:
                    worst[r["sig"]] = (size, params, r)
            elif r["nontrivial"]:
                nontrivial.add(json.dumps(params, sort_keys=True))
        for sig, (size, params, r) in worst.items():
            chk.violation(f"{pid}|{fam}|{sig}",
                          {"family": fam, "params": params, "what": r["verdict"], "got": r["got"],
                           "expected": r["expected"], "scenario": F["doc"],
                           "how": "harness/timed_extra.py: FAMILIES[family]['run'](params) drives the real operator "
                                  "and compares with the reference written from the property text; the replay "
                                  "command re-runs it"}, size=size)
        cov[fam] = {"cases": n, "skipped_boundary_ties": skipped, "nontrivial_distinct": len(nontrivial),
                    "kinds": dict(sorted(kinds.items()))}
        total_nt += len(nontrivial)
    chk.cov["distinct_nontrivial"] = chk.cov.get("distinct_nontrivial", 0) + total_nt
    return total_nt


def replay_family(pid, path):
    rep = json.load(open(path))
    F = FAMILIES[rep["family"]]
    r = F["run"](rep["params"])
    print(f"family {rep['family']}: {F['doc']}")
    print(f"  params: {json.dumps(rep['params'])}")
    print(f"  got:      {r['got']}")
    print(f"  expected: {r['expected']}")
    print(f"  oracle: {r['verdict'] or ('skipped (boundary tie)' if r['skipped'] else 'ok')}")
    if r["verdict"]:
        print(f"VIOLATION property={pid} replay={path}")
        return 1
    print(f"[{pid}] replay: the recorded scenario satisfies the oracle on the current tree")
    return 0


def is_family_replay(path):
    try:
        return "family" in json.load(open(path))
    except Exception:
        return False
