"""Case generation, oracles and the K1/K3 loops shared by props/C25.py, C26.py, C27.py.

The oracles are direct Python predicates of the property statements; they look
only at what the implementation did (spy logs, return values, and the object's
public getters) and never consult the Coq models."""
from __future__ import annotations

import itertools
import json
import os
import sys
import time
from collections import Counter

import dispdrv as D
import k3
import lib

ITEM_OPS = ("add", "remove", "contains", "set")

# lib.Check() removes the replay files of the property before replay() runs (run_check.py constructs the
# Check first); keep the content of the file named on the command line so that the replay still works
_REPLAY_CACHE = {}
if "--replay" in sys.argv[:-1]:
    _p = sys.argv[sys.argv.index("--replay") + 1]
    try:
        _REPLAY_CACHE[_p] = open(_p).read()
    except OSError:
        pass


# --------------------------------------------------------------------------
# K1: histories
# --------------------------------------------------------------------------

def alphabet(kind, n_items=3, n_deps=3, queries=True):
    fam = D.FAMILY[kind]
    ops = []
    for name in D.OPS[fam]:
        if name in ITEM_OPS:
            ops += [(name, i) for i in range(n_items)]
        elif name == "disp_dep":
            ops += [(name, k) for k in range(n_deps)]
        else:
            ops.append((name,))
    if not queries:
        ops = [o for o in ops if o[0] not in ("contains", "len", "to_list", "is_disposed", "get")]
    return ops


def valid(kind, h):
    """refcount: a dependent can only be disposed once it exists (the harness holds the handles)"""
    if kind != "refcount":
        return True
    n = 0
    for o in h:
        if o[0] == "getdep":
            n += 1
        elif o[0] == "disp_dep" and o[1] >= n:
            return False
    return True


def inits(kind, rng=None):
    if kind == "composite":
        return [("args", []), ("args", [0, 1]), ("list", [1, 2]), ("args", [2, 2])]
    if kind == "scheduled":
        return [0, 3]
    return [None]


def gen_histories(kind, tier, rng):
    """exhaustive short histories + seeded random longer ones -> list of (init, history)"""
    out = []
    small = alphabet(kind, n_items=2, n_deps=2, queries=False) + \
        [o for o in alphabet(kind, n_items=1, n_deps=0) if o[0] in ("is_disposed", "get", "to_list")]
    big = alphabet(kind, n_items=D.N_ITEMS, n_deps=4)
    nsmall = len(small)
    # exhaustive depth chosen so that |alphabet|^L stays small
    budget = 2500 if tier == "quick" else 40000
    L = 1
    while nsmall ** (L + 1) <= budget and L < 9:
        L += 1
    i0 = inits(kind)[0]
    for n in range(0, L + 1):
        for h in itertools.product(small, repeat=n):
            if valid(kind, h):
                out.append((i0, list(h)))
    exhaustive_depth = L
    nrand = 600 if tier == "quick" else 8000
    for _ in range(nrand):
        n = rng.randrange(1, 14)
        h = []
        for _ in range(n):
            # bias towards the mutating calls
            o = rng.choice(big)
            h.append(o)
        if kind == "refcount":
            hh, k = [], 0
            for o in h:
                if o[0] == "getdep":
                    k += 1
                if o[0] == "disp_dep" and o[1] >= k:
                    continue
                hh.append(o)
            h = hh
        out.append((rng.choice(inits(kind)), h))
    return out, exhaustive_depth, len(small)


# --------------------------------------------------------------------------
# K1: oracles
# --------------------------------------------------------------------------

def oracle_seq(kind, init, h, outs, snaps):
    """-> list of (tag, message).  snaps[0] is the state after construction, snaps[k+1] after call k."""
    bad = []

    def fail(tag, k, msg):
        bad.append((tag, f"call #{k} {h[k] if 0 <= k < len(h) else ''}: {msg}"))
    for k, out in enumerate(outs):
        for o in out:
            if o[0] == "exc":
                fail("unexpected-exception", k, o[1])
    if kind in ("disposable", "boolean"):
        runs, disposed = 0, False
        for k, (op, out) in enumerate(zip(h, outs)):
            runs += sum(1 for o in out if o[0] == "run")
            if op[0] == "dispose":
                if kind == "disposable" and not disposed and ("run",) not in out:
                    fail("action-not-run", k, "first dispose() did not run the action")
                disposed = True
                if kind == "boolean" and out:
                    fail("boolean-side-effect", k, f"BooleanDisposable.dispose did more than flip the flag: {out}")
            if op[0] == "is_disposed" and out != [("bool", disposed)]:
                fail("is_disposed-wrong", k, f"reported {out}, dispose() returned before: {disposed}")
            if runs > 1:
                fail("action-ran-twice", k, f"action ran {runs} times")
        return bad
    if kind == "scheduled":
        w = init if init is not None else 0
        queue, ran, disp = 0, 0, Counter()
        for k, (op, out) in enumerate(zip(h, outs)):
            for o in out:
                if o[0] == "disp":
                    disp[o[1]] += 1
            if op[0] == "dispose":
                queue += 1
                if out != [("sched",)]:
                    fail("dispose-not-scheduled", k, f"dispose() must only schedule: {out}")
            elif op[0] == "run_one" and queue > 0:
                queue -= 1
                ran += 1
            elif op[0] == "is_disposed" and out != [("bool", ran > 0)]:
                fail("is_disposed-wrong", k, f"reported {out} after {ran} queued actions ran")
            want = 1 if ran > 0 else 0
            if disp[w] != want or any(v for i, v in disp.items() if i != w):
                fail("scheduled-dispose-count", k,
                     f"wrapped item disposed {disp[w]} times after {ran} queued actions ran; others {dict(disp)}")
        return bad
    if kind in ("composite", "serial", "single", "multiple"):
        handed, disp, dropped = Counter(), Counter(), Counter()
        if kind == "composite":
            handed.update((init or ("args", []))[1])
        for k, (op, out) in enumerate(zip(h, outs)):
            before, after = snaps[k], snaps[k + 1]
            raised = ("raise",) in out
            for o in out:
                if o[0] == "disp":
                    disp[o[1]] += 1
            if op[0] in ("add", "set"):
                i = op[1]
                if kind == "single":
                    must = (not before["is_disposed"]) and bool(before["held"])
                    if must and not raised:
                        fail("second-assignment-accepted", k,
                             f"assignment to a non-disposed SingleAssignmentDisposable holding {before['held']} was not rejected")
                    if raised and not must:
                        fail("assignment-rejected-wrongly", k, "raised although nothing was assigned / already disposed")
                if not raised:
                    handed[i] += 1
                    if kind == "multiple" and not before["is_disposed"]:
                        dropped.update(before["held"])
                    if before["is_disposed"] and out.count(("disp", i)) != 1:
                        fail("late-item-not-disposed", k,
                             f"item {i} handed to a disposed container got {out.count(('disp', i))} dispose() calls at once")
            if op[0] == "remove":
                i = op[1]
                if i in before["held"] and not before["is_disposed"]:
                    if out.count(("disp", i)) != 1 or ("bool", True) not in out:
                        fail("remove-did-not-dispose", k, f"remove of held item {i}: {out}")
                elif any(o[0] == "disp" for o in out) or ("bool", False) not in out:
                    fail("remove-of-absent-item", k, f"{out}")
            if raised and after["held"] != before["held"]:
                fail("rejected-assignment-changed-state", k, f"{before['held']} -> {after['held']}")
            held = Counter(after["held"])
            if after["is_disposed"] and after["held"]:
                fail("disposed-container-holds", k, f"still holds {after['held']}")
            if kind == "multiple" and not after["is_disposed"] and sum(disp.values()):
                fail("disposed-while-live", k, f"a live MultipleAssignmentDisposable disposed {dict(disp)}")
            for i in set(handed) | set(disp):
                if disp[i] + held[i] + dropped[i] != handed[i]:
                    what = "disposed-while-held" if held[i] and disp[i] + dropped[i] + held[i] > handed[i] else \
                        ("disposed-more-than-once" if disp[i] + held[i] + dropped[i] > handed[i] else "not-disposed")
                    fail(what, k, f"item {i}: handed over {handed[i]}x, dispose() calls {disp[i]}, still held "
                                  f"{held[i]}" + (f", let go by replacement {dropped[i]}" if kind == "multiple" else ""))
        return bad
    if kind == "refcount":
        handles = []          # per handle: [live (requested before release), disposed]
        primary, u = False, 0
        for k, (op, out) in enumerate(zip(h, outs)):
            unow = sum(1 for o in out if o == ("disp", 0))
            others = [o for o in out if o[0] == "disp" and o[1] != 0]
            if others:
                fail("foreign-dispose", k, f"{others}")
            cond_before = primary and all(d for (lv, d) in handles if lv)
            if op[0] == "getdep":
                handles.append([u == 0, False])
            elif op[0] == "disp_dep" and op[1] < len(handles):
                handles[op[1]][1] = True
            elif op[0] == "dispose":
                primary = True
            cond = primary and all(d for (lv, d) in handles if lv)
            u += unow
            if u > 1:
                fail("underlying-disposed-twice", k, f"{u} dispose() calls on the underlying item")
            if unow and not cond:
                fail("released-too-early", k, f"primary disposed: {primary}, dependents (live, disposed): {handles}")
            if cond and u != 1:
                fail("not-released", k, f"primary and all dependents disposed but underlying got {u} dispose() calls")
            if unow and cond_before:
                fail("released-late", k, "condition held before this call")
            if op[0] == "is_disposed" and out != [("bool", u == 1)]:
                fail("is_disposed-wrong", k, f"{out} with {u} dispose() calls on the underlying item")
        return bad
    raise ValueError(kind)


def nontrivial_seq(kind, h, outs):
    """a history is non-trivial if something observable happened (a dispose() call, the action, a
    rejection) and it contains at least two mutating calls"""
    mut = sum(1 for o in h if o[0] in ("add", "remove", "set", "dispose", "clear", "run_one", "getdep", "disp_dep"))
    eff = any(o[0] in ("disp", "run", "raise") for out in outs for o in out)
    return mut >= 2 and eff


def run_k1(chk, kinds, tier, stats):
    """exhaustive-small + random histories on the real classes; correspondence with the sequential
    models; oracle.  Returns nothing; fills chk and stats."""
    from concurrent.futures import ThreadPoolExecutor
    per_kind = {}
    for kind in kinds:
        hs, depth, nalpha = gen_histories(kind, tier, chk.rng)
        cases, seen = [], set()
        for (init, h) in hs:
            falsy = (0,)
            snaps = []
            outs = D.run_seq(kind, init, h, falsy=falsy, snaps=snaps)
            chk.cov["evaluations"] += 1
            cases.append((init, h, outs))
            if nontrivial_seq(kind, h, outs):
                seen.add((json.dumps(init), json.dumps(h)))
            stats["k1_len"][len(h)] = stats["k1_len"].get(len(h), 0) + 1
            for o in h:
                stats["ops"][f"{kind}.{o[0]}"] = stats["ops"].get(f"{kind}.{o[0]}", 0) + 1
            for tag, msg in oracle_seq(kind, init, h, outs, snaps):
                chk.violation(f"{kind}|seq|{tag}|{json.dumps(h)}",
                              {"mode": "sequential", "kind": kind, "init": init, "history": h,
                               "implementation": outs, "oracle": tag, "what": msg}, size=len(h))
        per_kind[kind] = (cases, depth, nalpha)
        stats["k1_nontrivial"] |= {(kind,) + x for x in seen}
        stats["k1_exhaustive"][kind] = f"all histories of length <= {depth} over {nalpha} calls"

    def corr(kind):
        cases = per_kind[kind][0]
        return kind, D.seq_correspondence(chk.pid, kind, cases)
    with ThreadPoolExecutor(max_workers=len(kinds)) as ex:
        for kind, (badidx, logs) in ex.map(corr, kinds):
            cases = per_kind[kind][0]
            chk.cov["traces_validated_against_impl"] += len(cases)
            chk.cov["disagreements_checked"] += len(cases)
            if badidx:
                firsts = [cases[i] for i in badidx if i >= 0][:3]
                detail = {"kind": kind, "n_disagreements": len(badidx), "logs": logs[:1],
                          "first (init, history, implementation outputs)": firsts}
                if firsts:
                    detail["model_says"] = D.seq_model_show(chk.pid, kind, firsts[0][0], firsts[0][1])
                chk.tie_broken(f"correspondence K1: sequential model of {kind} vs implementation", detail)
    chk.add_samples([{"mode": "sequential", "kind": k, "init": c[0], "history": c[1], "observed": c[2]}
                     for k in kinds for c in per_kind[k][0][-2:-1]], limit=8)


# --------------------------------------------------------------------------
# K1r: re-entrant histories (oracle only -- the models do not cover re-entrancy)
# --------------------------------------------------------------------------

def run_reentrant(chk, kinds, tier, stats):
    """Items whose first dispose() calls back into the container (or whose action calls dispose()
    again).  Only the direct oracle is evaluated: conservation after every top-level call."""
    n = 400 if tier == "quick" else 5000
    rng = chk.rng
    done = 0
    for kind in kinds:
        if kind not in ("disposable", "composite", "serial", "refcount"):
            continue
        mut = [o for o in alphabet(kind, n_items=4, n_deps=3, queries=False)]
        for _ in range(n):
            h = [rng.choice(mut) for _ in range(rng.randrange(1, 7))]
            if kind == "disposable":
                scripts = {"action": [rng.choice(mut) for _ in range(rng.randrange(1, 3))]}
            elif kind == "refcount":
                scripts = {0: [rng.choice(mut) for _ in range(rng.randrange(1, 3))]}
            else:
                scripts = {i: [rng.choice(mut) for _ in range(rng.randrange(1, 3))]
                           for i in range(4) if rng.random() < 0.5}
            init = rng.choice(inits(kind))
            snaps, begun = [], []
            outs = D.run_seq(kind, init, h, falsy=(0,), snaps=snaps, scripts=scripts, begun=begun)
            chk.cov["evaluations"] += 1
            done += 1
            bad = []
            flat = [o for out in outs for o in out]
            if any(o[0] == "exc" for o in flat):
                bad.append(("unexpected-exception", str([o for o in flat if o[0] == "exc"])))
            if kind == "disposable":
                runs = sum(1 for o in flat if o[0] == "run")
                want = 1 if any(op[0] == "dispose" for op in h) else 0
                if runs != want:
                    bad.append(("action-count", f"action ran {runs} times"))
            elif kind == "refcount":
                u = sum(1 for o in flat if o == ("disp", 0))
                if u > 1:
                    bad.append(("underlying-disposed-twice", f"{u}"))
                if u and ("dispose",) not in [op for (_, op) in begun]:
                    bad.append(("released-too-early", "no dispose() on the primary"))
            else:
                handed = Counter((init or ("args", []))[1]) if kind == "composite" else Counter()
                handed.update(op[1] for (_, op) in begun if op[0] in ("add", "set"))
                disp = Counter(o[1] for o in flat if o[0] == "disp")
                held = Counter(snaps[-1]["held"])
                if snaps[-1]["is_disposed"] and snaps[-1]["held"]:
                    bad.append(("disposed-container-holds", f"{snaps[-1]['held']}"))
                for i in set(handed) | set(disp):
                    if disp[i] + held[i] != handed[i]:
                        bad.append(("reentrant-conservation", f"item {i}: handed over {handed[i]}x, dispose() calls "
                                                              f"{disp[i]}, held {held[i]}"))
            for tag, msg in bad:
                chk.violation(f"{kind}|reentrant|{tag}|{json.dumps([h, {str(k): v for k, v in scripts.items()}])}",
                              {"mode": "reentrant", "kind": kind, "init": init, "history": h,
                               "scripts": {str(k): v for k, v in scripts.items()}, "implementation": outs,
                               "oracle": tag, "what": msg}, size=50 + len(h))
            if len(begun) > len(h):
                stats["reentrant_nontrivial"].add((kind, json.dumps([init, h, sorted((str(k), v) for k, v in scripts.items())])))
    stats["reentrant_runs"] = done


# --------------------------------------------------------------------------
# K3: scenarios (setup, thread programs)
# --------------------------------------------------------------------------

FIXED = {
    "disposable": [([], [[("dispose",)], [("dispose",)]]),
                   ([], [[("dispose",), ("is_disposed",)], [("dispose",)], [("dispose",)]]),
                   ([], [[("dispose",), ("dispose",)], [("is_disposed",), ("dispose",)]])],
    "boolean": [([], [[("dispose",)], [("dispose",), ("is_disposed",)]]),
                ([], [[("dispose",)], [("is_disposed",)], [("dispose",)]])],
    "scheduled": [([], [[("dispose",)], [("run_one",)]]),
                  ([], [[("dispose",), ("dispose",)], [("run_one",)], [("run_one",)]]),
                  ([("dispose",), ("dispose",)], [[("run_one",), ("is_disposed",)], [("run_one",)]]),
                  ([("dispose",)], [[("run_one",)], [("dispose",), ("run_one",)], [("is_disposed",)]])],
    "composite": [([("add", 0), ("add", 1)], [[("remove", 0)], [("dispose",)]]),
                  ([("add", 0)], [[("add", 1)], [("dispose",)]]),
                  ([("add", 0), ("add", 1)], [[("clear",)], [("add", 2)], [("dispose",)]]),
                  ([("add", 0)], [[("dispose",)], [("dispose",)], [("remove", 0)]]),
                  ([("add", 0), ("add", 1)], [[("remove", 0), ("add", 0)], [("clear",)]]),
                  ([("add", 1)], [[("remove", 1)], [("remove", 1)], [("dispose",)]])],
    "serial": [([("set", 0)], [[("set", 1)], [("dispose",)]]),
               ([], [[("set", 1)], [("set", 2)], [("dispose",)]]),
               ([("set", 0)], [[("set", 1), ("set", 2)], [("dispose",), ("set", 3)]])],
    "single": [([], [[("set", 1)], [("dispose",)]]),
               ([], [[("set", 1)], [("set", 2)]]),
               ([], [[("set", 0)], [("set", 1)], [("dispose",)]]),
               ([], [[("set", 1)], [("dispose",)], [("dispose",), ("set", 2)]])],
    "multiple": [([("set", 0)], [[("set", 1)], [("dispose",)]]),
                 ([], [[("set", 1)], [("set", 2)], [("dispose",)]]),
                 ([("set", 0)], [[("set", 1), ("set", 2)], [("dispose",), ("set", 3)]])],
    "refcount": [([("getdep",)], [[("disp_dep", 0)], [("dispose",)]]),
                 ([("getdep",)], [[("disp_dep", 0)], [("disp_dep", 0)], [("dispose",)]]),
                 ([("getdep",), ("getdep",)], [[("disp_dep", 0)], [("disp_dep", 1)], [("dispose",)]]),
                 ([("getdep",)], [[("dispose",)], [("disp_dep", 0), ("getdep",)], [("getdep",), ("disp_dep", 1)]]),
                 ([], [[("getdep",), ("disp_dep", 0)], [("dispose",), ("is_disposed",)]]),
                 # the SAME dependent disposed by several threads at once: it must count once
                 ([("getdep",), ("getdep",)], [[("disp_dep", 0)], [("disp_dep", 0)], [("dispose",)]]),
                 ([("getdep",), ("getdep",), ("dispose",)], [[("disp_dep", 0)], [("disp_dep", 0)], [("disp_dep", 1)]]),
                 ([("getdep",)], [[("disp_dep", 0)], [("disp_dep", 0)], [("disp_dep", 0), ("dispose",)]]),
                 ([("getdep",)], [[("disp_dep", 0), ("disp_dep", 0)], [("disp_dep", 0), ("dispose",)]]),
                 ([("getdep",), ("getdep",)], [[("disp_dep", 0), ("disp_dep", 1)], [("disp_dep", 1), ("disp_dep", 0)],
                                               [("dispose",)]])],
}


def gen_scenarios(kind, tier, rng):
    scs = list(FIXED[kind])
    n = 4 if tier == "quick" else 30
    mut = [o for o in alphabet(kind, n_items=3, n_deps=2)]
    for _ in range(n):
        nth = rng.choice([2, 2, 3])
        setup = [rng.choice(mut) for _ in range(rng.randrange(0, 3))]
        progs = [[rng.choice(mut) for _ in range(rng.choice([1, 1, 2]))] for _ in range(nth)]
        scs.append((setup, progs))
    if kind == "refcount":
        # threads racing on the SAME dependents: g dependents exist (primary already disposed or not), every
        # thread disposes 1-2 of them (so that with 2-3 threads and g <= 2 some dependent is disposed by two
        # threads, or twice by one) or disposes the primary
        for _ in range(n if tier == "quick" else n // 2):
            g = rng.choice([1, 1, 2])
            setup = [("getdep",)] * g + ([("dispose",)] if rng.random() < 0.4 else [])
            calls = [("disp_dep", k) for k in range(g)] * 2 + [("dispose",)]
            progs = [[rng.choice(calls) for _ in range(rng.choice([1, 1, 2]))] for _ in range(rng.choice([2, 3, 3]))]
            scs.append((setup, progs))
    return scs


def oracle_conc(kind, setup, progs, log, world, flags):
    """all threads have finished.  -> list of (tag, message)"""
    bad = []
    allops = list(setup) + [o for p in progs for o in p]
    disp = Counter(e[2] for e in log if e[1] == "disp")
    for e in log:
        if e[1] == "exc":
            bad.append(("unexpected-exception", str(e)))
    for f in flags:
        bad.append(f)
    if kind in ("disposable", "boolean"):
        runs = sum(1 for e in log if e[1] == "run")
        any_dispose = any(o[0] == "dispose" for o in allops)
        if kind == "boolean" and (runs or disp):
            bad.append(("boolean-side-effect", f"{log}"))
        if kind == "disposable":
            if runs > 1:
                bad.append(("action-ran-twice", f"action ran {runs} times"))
            if runs != (1 if any_dispose else 0):
                bad.append(("action-count", f"action ran {runs} times, dispose() called: {any_dispose}"))
        if bool(world.obj.is_disposed) != any_dispose:
            bad.append(("is_disposed-wrong", f"final is_disposed {world.obj.is_disposed}"))
        # a query that started after some dispose() had returned must say True
        ends = [ln for (t, o, ln) in world.env.ended if o[0] == "dispose"]
        first_end = min(ends) if ends else None
        for idx, e in enumerate(log):
            if e[1] == "bool" and first_end is not None and idx >= first_end and e[2] is not True:
                # the read happened after the return only if the query BEGAN after it; conservative:
                # the entry was logged after the return and the flag is sticky, so it must be True
                bad.append(("is_disposed-false-after-dispose-returned", f"log index {idx}: {e}"))
        return bad
    if kind == "scheduled":
        w = 0
        ran = sum(1 for e in log if e[1] == "run")
        if disp[w] != (1 if ran else 0) or any(v for i, v in disp.items() if i != w):
            bad.append(("scheduled-dispose-count", f"{ran} queued actions invoked, dispose() calls {dict(disp)}"))
        if bool(world.obj.is_disposed) != (ran > 0):
            bad.append(("is_disposed-wrong", f"{world.obj.is_disposed} after {ran} actions"))
        return bad
    if kind in ("composite", "serial", "single", "multiple"):
        snap = world.snapshot()
        held = Counter(snap["held"])
        handed = Counter(o[1] for o in allops if o[0] in ("add", "set"))
        rej = Counter(e[2] for e in log if e[1] == "rej")
        if kind != "single" and rej:
            bad.append(("unexpected-rejection", f"{dict(rej)}"))
        if snap["is_disposed"] and snap["held"]:
            bad.append(("disposed-container-holds", f"{snap['held']}"))
        for i in set(handed) | set(disp):
            total = disp[i] + held[i] + rej[i]
            if total > handed[i]:
                bad.append(("disposed-more-than-once", f"item {i}: handed over {handed[i]}x, dispose() calls {disp[i]}, "
                                                       f"held {held[i]}, rejected {rej[i]}"))
            elif total < handed[i] and kind != "multiple":
                bad.append(("not-disposed", f"item {i}: handed over {handed[i]}x, dispose() calls {disp[i]}, "
                                            f"held {held[i]}, rejected {rej[i]}"))
        if kind == "multiple" and not snap["is_disposed"] and disp:
            bad.append(("disposed-while-live", f"{dict(disp)}"))
        if kind == "single":
            # without any dispose(): exactly one assignment wins, all others are rejected
            nsets = sum(handed.values())
            if not any(o[0] == "dispose" for o in allops) and nsets >= 1 and sum(rej.values()) != nsets - 1:
                bad.append(("second-assignment-accepted", f"{nsets} assignments, {sum(rej.values())} rejected"))
        return bad
    if kind == "refcount":
        u = disp[0]
        if u > 1:
            bad.append(("underlying-disposed-twice", f"{u} dispose() calls"))
        if any(v for i, v in disp.items() if i != 0):
            bad.append(("foreign-dispose", f"{dict(disp)}"))
        primary = any(o[0] == "dispose" for o in allops)
        if u and not primary:
            bad.append(("released-too-early", "no dispose() on the primary"))
        if bool(world.obj.is_disposed) != (u == 1):
            bad.append(("is_disposed-wrong", f"{world.obj.is_disposed} with {u} dispose() calls"))
        # all calls have returned: released exactly once iff dispose() was called on the primary and on every
        # dependent handed out (the inert handles given out after the release are not dependents)
        by = refcount_disposers(world)
        deps = [k for k, h in enumerate(world.handles) if world.is_dependent(h)]
        pending = [k for k in deps if k not in by]
        if u and pending:
            bad.append(("released-too-early", f"underlying disposed although dependent(s) {pending} (of {len(world.handles)} "
                                              f"handed out) were never disposed; dependents disposed by threads {by}"))
        twice = {k: n for k, n in enumerate(D.release_profile(world)) if n > 1}
        if twice:
            bad.append(("dependent-released-twice", f"parent.release() calls per dependent {twice} (a dependent disposed "
                                                    f"twice must release once); dependent -> disposing threads {by}"))
        if primary and not pending and u != 1:
            bad.append(("not-released", f"dispose() was called on the primary and on every dependent handed out "
                                        f"(dependent -> disposing threads {by}) but the underlying got {u} dispose() calls"))
        return bad
    raise ValueError(kind)


def refcount_disposers(world):
    """{k: [ids of the threads that called dispose() on the k-th handle handed out]}"""
    by = {}
    for (tid, k) in world.env.dep_begun:
        by.setdefault(k, []).append(tid)
    return by


def install_probes(kind, world, progs_all):
    """side conditions checked at the very moment a spy is disposed"""
    handed = Counter(o[1] for o in progs_all if o[0] in ("add", "set"))
    env = world.env
    if kind in ("composite", "serial", "single", "multiple"):
        def probe(spy):
            if handed[spy.ident] != 1:
                return None
            o = world.obj
            heldnow = (spy in o.to_list()) if kind == "composite" else (o.disposable is spy)
            if heldnow and not o.is_disposed:
                return ("disposed-while-held", f"item {spy.ident} received dispose() while the live container held it")
            return None
        for it in world.items:
            it.probe = probe
    elif kind == "refcount":
        def probe(spy):
            begun = [op for (_, op) in env.begun]
            if ("dispose",) not in begun:
                return ("released-too-early", "underlying disposed before dispose() was called on the primary")
            by = refcount_disposers(world)
            pending = [k for k, h in enumerate(world.handles) if world.is_dependent(h) and k not in by]
            if pending:
                return ("released-too-early", f"underlying disposed while dependent(s) {pending} handed out before were "
                                              f"not yet disposed; dependents disposed by threads so far {by}")
            return None
        world.items[0].probe = probe


def conc_extra(kind, world):
    """what else a replay file says about a concurrent run"""
    if kind != "refcount":
        return {}
    return {"dependents_handed_out": len(world.handles),
            "dependent_disposed_by_threads": {str(k): v for k, v in sorted(refcount_disposers(world).items())},
            "release_calls_per_dependent": D.release_profile(world)}


def nontrivial_conc(trace):
    return k3.preemptions(trace) >= 1


def run_k3(chk, kinds, tier, stats, bound=None):
    bound = bound if bound is not None else (2 if tier == "quick" else 3)
    fine_limit = 60 if tier == "quick" else 600
    nrandom = 20 if tier == "quick" else 200
    ok, st = k3.self_test(2)
    stats["k3_self_test"] = {"ok": ok, **{k: {"schedules": v["schedules"], "runs_seen": v["runs_seen"]} for k, v in st.items()}}
    if not ok:
        chk.tie_broken("k3 self-test: the controller did not expose the toy race / reported one on the locked toy", st)
    targets, badshape, _ = D.check_shapes()
    if badshape:
        chk.tie_broken("atomicity structure of the source differs from the modelled one (AST pass)", badshape)
    per_kind = {k: [] for k in kinds}
    rel_cases = []
    t0 = time.time()
    with D.Rebound():
        for kind in kinds:
            for (setup, progs) in gen_scenarios(kind, tier, chk.rng):
                if not valid(kind, setup):
                    continue
                allops = list(setup) + [o for p in progs for o in p]
                for mode in ("coarse", "fine"):
                    fine = mode == "fine"
                    runs = []

                    def run_once(chooser, fine=fine):
                        w = D.World(kind, None, falsy=(0,))
                        install_probes(kind, w, allops)
                        c = k3.Controller(D.targets(), fine=fine)
                        w.env.ctl = c

                        def mk(prog):
                            def body():
                                for op in prog:
                                    w.call(op)
                            return body
                        c.spawn(mk(setup))
                        for p in progs:
                            c.spawn(mk(p))
                        c.run(chooser, setup=0)
                        w.env.ctl = None
                        return c.trace, (c, w)
                    it = k3.explore(run_once, bound, limit=(fine_limit if fine else None))
                    extra = [k3.random_chooser(chk.rng) for _ in range(nrandom if fine else nrandom // 2)]
                    results = list(it)
                    for ch in extra:
                        tr, cw = run_once(ch)
                        results.append(([x for x, _ in tr], cw))
                    for sched, (c, w) in results:
                        chk.cov["evaluations"] += 1
                        stats["k3_runs"][mode] = stats["k3_runs"].get(mode, 0) + 1
                        stats["k3_steps"] += len(sched)
                        log = list(c.log)
                        if kind == "refcount" and any(len(set(v)) >= 2 for v in refcount_disposers(w).values()):
                            key = "k3_runs_same_dependent_disposed_by_2plus_threads"
                            stats[key] = stats.get(key, 0) + 1
                            if max(len(set(v)) for v in refcount_disposers(w).values()) >= 3:
                                stats[key + "_3"] = stats.get(key + "_3", 0) + 1
                        if nontrivial_conc(c.trace):
                            stats["k3_nontrivial"].add((kind, mode, json.dumps([setup, progs]), tuple(sched)))
                        for tag, msg in oracle_conc(kind, setup, progs, log, w, w.env.flags):
                            chk.violation(f"{kind}|conc|{tag}|{json.dumps([setup, progs])}",
                                          {"mode": "concurrent", "granularity": mode, "kind": kind, "setup": setup,
                                           "programs": progs, "schedule": sched, "implementation_log": log,
                                           "oracle": tag, "what": msg, **conc_extra(kind, w)},
                                          # failures of the resource's fate are reported before the mechanism-level
                                          # "release() twice for one dependent" (same runs, often harmless in the end)
                                          size=(1000 if tag == "dependent-released-twice" else 100) + len(sched))
                        if not fine:
                            per_kind[kind].append((setup, progs, c.setup_steps, sched, log))
                            if kind == "refcount":
                                rel_cases.append((setup, progs, c.setup_steps, sched, D.release_profile(w)))
                    stats["k3_scenarios"] = stats.get("k3_scenarios", 0) + (1 if not fine else 0)
    stats["k3_impl_s"] = round(time.time() - t0, 2)
    from concurrent.futures import ThreadPoolExecutor

    def corr(kind):
        return kind, D.conc_correspondence(chk.pid, kind, per_kind[kind])
    with ThreadPoolExecutor(max_workers=len(kinds) + 1) as ex:
        rel_future = ex.submit(D.release_correspondence, chk.pid, rel_cases) if rel_cases else None
        for kind, (badidx, logs) in ex.map(corr, kinds):
            cases = per_kind[kind]
            chk.cov["traces_validated_against_impl"] += len(cases)
            chk.cov["disagreements_checked"] += len(cases)
            if badidx:
                firsts = [cases[i] for i in badidx if i >= 0][:3]
                detail = {"kind": kind, "n_disagreements": len(badidx), "logs": logs[:1],
                          "first (setup, programs, setup steps, schedule, implementation log)": firsts}
                if firsts:
                    detail["model_says"] = D.conc_model_show(chk.pid, kind, *firsts[0][:4])
                chk.tie_broken(f"correspondence K3: transition system of {kind} vs implementation under the same schedule",
                               detail)
    if rel_future is not None:
        badidx, logs = rel_future.result()
        chk.cov["traces_validated_against_impl"] += len(rel_cases)
        chk.cov["disagreements_checked"] += len(rel_cases)
        stats["k3_release_profiles_compared"] = len(rel_cases)
        if badidx:
            firsts = [rel_cases[i] for i in badidx if i >= 0][:3]
            chk.tie_broken("correspondence K3: release() calls per dependent (Core/RefCountOnce.v rc_release_profile) vs "
                           "implementation under the same schedule",
                           {"n_disagreements": len(badidx), "logs": logs[:1],
                            "first (setup, programs, setup steps, schedule, release() calls per dependent)": firsts})
    chk.add_samples([{"mode": "concurrent", "kind": k, "setup": c[0], "programs": c[1], "schedule": c[3],
                      "observed_log": c[4]} for k in kinds for c in per_kind[k][1:2]], limit=8)
    return bound


# --------------------------------------------------------------------------
# the whole check / replay
# --------------------------------------------------------------------------

def run_check(chk, kinds, what, extra_assumptions=(), regressions=None):
    proved = chk.build_and_prove()
    tier = chk.tier if proved and not chk.broken else "thorough"
    if tier != chk.tier:
        chk.cov["search"] = "a theorem no longer checks: histories, scenarios and preemption bound enlarged to thorough"
    stats = {"k1_len": {}, "ops": {}, "k1_nontrivial": set(), "k1_exhaustive": {}, "k3_runs": {}, "k3_steps": 0,
             "k3_nontrivial": set()}
    stats["reentrant_nontrivial"] = set()
    run_k1(chk, kinds, tier, stats)
    run_reentrant(chk, kinds, tier, stats)
    bound = run_k3(chk, kinds, tier, stats)
    if regressions is not None:
        stats["fixed_defect_witnesses"] = regressions(chk)
    chk.cov["distinct_nontrivial"] = (len(stats["k1_nontrivial"]) + len(stats["k3_nontrivial"])
                                      + len(stats["reentrant_nontrivial"]))
    chk.cov["rule"] = (
        f"{what}.  K1 (one thread): per class, EXHAUSTIVE short histories ({stats['k1_exhaustive']}) plus seeded random "
        "histories of length 1..13 over 5 items (item 0 is falsy like an empty CompositeDisposable), run on the real "
        "class with spy items; non-trivial = at least two mutating calls and at least one observable effect, counted as "
        "distinct (class, init, history).  Re-entrant histories (an item's first dispose() / the action calls back into the "
        "object; Disposable, Composite, Serial, RefCount): ORACLE ONLY, the models and theorems do not cover them; "
        "counted when a nested call really happened.  K3 (threads): fixed racing scenarios plus seeded random ones (2-3 threads, 1-2 "
        f"calls each, optional sequential setup; RefCount: plus a family in which 2-3 threads each dispose 1-2 of the 1-2 "
        "existing dependents or the primary, so that the SAME dependent is disposed by several threads), ALL schedules with at most {bound} preemptions in the model's "
        "granularity (coarse: every scheduled step is one action of Core/DispConc.v; compared step-for-step with the "
        "Coq transition system under the same schedule) and, for the oracle only, at line granularity with yields "
        "inside locked blocks (bounded enumeration capped per scenario + random schedules); non-trivial = a schedule "
        "with at least one preemption, counted as distinct (class, granularity, scenario, schedule).")
    chk.cov["input_distribution"] = {
        "k1_history_length": {str(k): v for k, v in sorted(stats["k1_len"].items())},
        "calls": dict(sorted(stats["ops"].items())),
        "k1_distinct_nontrivial": len(stats["k1_nontrivial"]),
        "reentrant_runs_oracle_only": stats.get("reentrant_runs", 0),
        "reentrant_distinct_with_nested_calls": len(stats["reentrant_nontrivial"]),
        "k3_runs": stats["k3_runs"], "k3_scenarios": stats.get("k3_scenarios", 0),
        "k3_distinct_nontrivial": len(stats["k3_nontrivial"]),
        "k3_scheduled_steps_total": stats["k3_steps"], "k3_preemption_bound": bound,
        "k3_self_test": stats["k3_self_test"], "k3_impl_seconds": stats.get("k3_impl_s"),
    }
    if "refcount" in kinds:
        key = "k3_runs_same_dependent_disposed_by_2plus_threads"
        chk.cov["input_distribution"][key] = stats.get(key, 0)
        chk.cov["input_distribution"]["k3_runs_same_dependent_disposed_by_3_threads"] = stats.get(key + "_3", 0)
        chk.cov["input_distribution"]["k3_release_profiles_compared"] = stats.get("k3_release_profiles_compared", 0)
    if "fixed_defect_witnesses" in stats:
        chk.cov["fixed_defect_witnesses"] = stats["fixed_defect_witnesses"]
    return chk.finish(
        trusted_extra=[
            "harness/k3.py thread controller (baton, controlled RLock, line tracing) and its AST pass shape_of: the "
            "atomicity structure (locked blocks / unlocked accesses to attributes written outside __init__ / calls "
            "out) of every modelled method is recomputed from the source on each run and compared with the structure "
            "the Coq transition systems assume; self-tested on a racy and a locked toy class on each run",
            "models Core/Disposables.v and Core/DispConc.v are hand-written from the code and tied to it by the K1/K3 "
            "correspondence of this run (not extracted)",
        ] + ([
            "Core/RefCountOnce.v: ghost counter of the steps that go on to call release() for a handle, tied to the "
            "real class by comparing it with the calls seen by an instance-level spy on RefCountDisposable.release "
            "(attributed to the handle whose dispose() the calling thread began last) under the same schedules",
        ] if "refcount" in kinds else []),
        assumptions=[
            "CPython executes the bytecodes of different threads as an interleaving (GIL) and attribute loads/stores "
            "are atomic; a `with self.lock:` block is atomic with respect to every other access of the same object "
            "made under the same lock; each locked block writes each shared attribute at most once and every unlocked "
            "access touches a single attribute (checked by the AST pass), so an unlocked read interleaved with a locked "
            "block sees the state before or after the block's write",
            "theorems and correspondence: dispose() of an item does not call back into the container (re-entrant "
            "histories are exercised against the oracle only)",
            "an item that is handed over several times is counted per occurrence",
        ] + list(extra_assumptions))


def replay(chk, path):
    if not os.path.exists(path) and path in _REPLAY_CACHE:
        with open(path, "w") as f:
            f.write(_REPLAY_CACHE[path])
    d = json.load(open(path))
    if d.get("mode") == "sequential":
        snaps = []
        outs = D.run_seq(d["kind"], tuple(d["init"]) if isinstance(d["init"], list) else d["init"],
                         [tuple(o) for o in d["history"]], falsy=(0,), snaps=snaps)
        init = tuple(d["init"]) if isinstance(d["init"], list) else d["init"]
        h = [tuple(o) for o in d["history"]]
        bad = oracle_seq(d["kind"], init, h, outs, snaps)
        print("history", h)
        print("implementation", outs)
        print("oracle", bad or "ok")
        return 1 if bad else 0
    if d.get("mode") == "reentrant":
        init = tuple(d["init"]) if isinstance(d["init"], list) else d["init"]
        scripts = {(int(k) if k.isdigit() else k): [tuple(o) for o in v] for k, v in d["scripts"].items()}
        snaps, begun = [], []
        outs = D.run_seq(d["kind"], init, [tuple(o) for o in d["history"]], falsy=(0,), snaps=snaps,
                         scripts=scripts, begun=begun)
        print("history", d["history"], "scripts", scripts)
        print("implementation", outs, "final public state", snaps[-1])
        print("recorded failure:", d.get("what"), "-- compare by eye (oracle-only mode)")
        return 1 if outs == [[tuple(o) for o in out] for out in d["implementation"]] else 0
    if d.get("mode") == "concurrent":
        kind = d["kind"]
        setup = [tuple(o) for o in d["setup"]]
        progs = [[tuple(o) for o in p] for p in d["programs"]]
        with D.Rebound():
            w = D.World(kind, None, falsy=(0,))
            install_probes(kind, w, setup + [o for p in progs for o in p])
            c = k3.Controller(D.targets(), fine=d.get("granularity") == "fine")
            w.env.ctl = c

            def mk(prog):
                def body():
                    for op in prog:
                        w.call(op)
                return body
            c.spawn(mk(setup))
            for p in progs:
                c.spawn(mk(p))
            c.run(k3.follow(d["schedule"], lenient=True), setup=0)
            w.env.ctl = None
        bad = oracle_conc(kind, setup, progs, list(c.log), w, w.env.flags)
        print("setup", setup, "programs", progs, "schedule", d["schedule"])
        print("implementation log", c.log)
        for k, v in conc_extra(kind, w).items():
            print(k, v)
        print("oracle", bad or "ok")
        return 1 if bad else 0
    print(json.dumps(d, indent=1))
    return 1
