"""Independent oracles for C10-C13: direct readings of the property statements
on the implementation's boundary log (never consult the Coq model)."""
from k2 import err_id


class Live:
    """multiset of subscribed sources (a source may be subscribed again -- repeat/retry --
    before its previous subscription is detached); behaves like a set for membership"""

    def __init__(self, d=None):
        self.d = dict(d or {})

    def add(self, k):
        self.d[k] = self.d.get(k, 0) + 1

    def discard(self, k):
        if self.d.get(k, 0) > 0:
            self.d[k] -= 1
            if self.d[k] == 0:
                del self.d[k]

    def __contains__(self, k):
        return k in self.d

    def __iter__(self):
        return iter(self.d)

    def __len__(self):
        return len(self.d)

    def __bool__(self):
        return bool(self.d)

    def __sub__(self, other):
        return set(self.d) - set(other)

    def __rsub__(self, other):
        return set(other) - set(self.d)

    def __le__(self, other):
        return set(self.d) <= set(other)

    def __or__(self, other):
        return set(self.d) | set(other)

    def __ror__(self, other):
        return set(other) | set(self.d)

    def __repr__(self):
        return repr(sorted(self.d))


def timeline(res):
    """-> list of steps: dict(tag, inp, live_before:set, emits:[(kind,val)], subs:[k], unsubs:[k]);
    step 0 is subscribe()."""
    by = {}
    for (tag, kind, a, b) in res["log"]:
        by.setdefault(tag, []).append((kind, a, b))
    steps = []
    live = Live()
    n = len(res["inputs"])
    for tag in range(0, n + 1):
        inp = res["inputs"][tag - 1][1] if tag > 0 else None
        st = dict(tag=tag, inp=inp, live_before=Live(live.d), emits=[], subs=[], unsubs=[])
        for (kind, a, b) in by.get(tag, []):
            if kind == "emit":
                st["emits"].append((a, b))
            elif kind == "sub":
                st["subs"].append(a)
                live.add(a)
            elif kind == "unsub":
                st["unsubs"].append(a)
                live.discard(a)
        st["live_after"] = Live(live.d)
        steps.append(st)
    return steps


def emitted(steps):
    out = []
    for st in steps:
        for (a, b) in st["emits"]:
            out.append((st["tag"], a, b))
    return out


def grammar_ok(em):
    kinds = "".join(a for (_, a, _) in em)
    import re
    return re.match(r"^N*[EC]?$", kinds) is not None


def accepted(steps, stop_at_terminal=True):
    """source notifications delivered while their source was subscribed and before the
    subscriber's terminal / dispose: [(tag, k, ev)]"""
    acc = []
    done = False
    for st in steps:
        if done:
            break
        i = st["inp"]
        if i and i[0] == "src" and i[1] in st["live_before"]:
            acc.append((st["tag"], i[1], i[2]))
        if i and i[0] == "dispose":
            done = True
        if any(a in "EC" for a, _ in st["emits"]):
            done = True
    return acc


def common(res, steps):
    em = emitted(steps)
    if not grammar_ok(em):
        return f"grammar violated: {''.join(a for _, a, _ in em)}"
    # release: after the terminal (or dispose) nothing is subscribed
    for st in steps:
        term = any(a in "EC" for a, _ in st["emits"]) or (st["inp"] and st["inp"][0] == "dispose")
        if term and st["live_after"]:
            return f"sources {sorted(st['live_after'])} still subscribed after termination/dispose at input {st['tag']}"
        if term:
            # and silence afterwards
            later = [s for s in steps if s["tag"] > st["tag"] and (s["emits"] or s["subs"])]
            if later:
                return f"activity after termination/dispose: input {later[0]['tag']}"
            break
    return None


def vals(em):
    return [b for (_, a, b) in em if a == "N"]


def term(em):
    t = [(tag, a, b) for (tag, a, b) in em if a in "EC"]
    return t[0] if t else None


def oracle_c10(name, inst, res):
    steps = timeline(res)
    v = common(res, steps)
    if v:
        return v
    em = emitted(steps)
    acc = accepted(steps)
    spec = inst["spec"]
    # one source at a time
    for st in steps:
        if len(st["live_after"]) > 1 and not (name == "catch_handler"):
            return f"{len(st['live_after'])} sources subscribed at once after input {st['tag']}"
    # output = concatenation of the consumed sources' elements, each at its own instant
    exp = [(tag, ev[1]) for (tag, k, ev) in acc if ev[0] == "N"]
    got = [(tag, b) for (tag, a, b) in em if a == "N"]
    if exp != got:
        return f"elements differ: expected {exp} got {got}"
    # the next source is subscribed only at the instant the previous one terminated in the continuing way
    cont = {"concat": "C", "repeat": "C", "while_do": "C", "do_while": "C", "catch": "E", "retry": "E",
            "catch_handler": "E", "on_error_resume_next": "CE", "for_in": "C"}[name]

    def continuing(st):
        """the step's input is a termination, of the kind the operator continues on, of a subscribed source"""
        i = st["inp"]
        return bool(i and i[0] == "src" and i[2][0] in cont and i[1] in st["live_before"])
    nsubs = 0
    for st in steps:
        for k in st["subs"]:
            nsubs += 1
            if st["tag"] == 0:
                continue
            i = st["inp"]
            if not continuing(st):
                return f"source {k} subscribed at input {st['tag']} which is not a continuing termination ({i})"
    # the sources are consumed IN ORDER, starting with the first one, at the subscription instant
    order = [(st["tag"], k) for st in steps for k in st["subs"]]
    if name in ("concat", "catch", "on_error_resume_next", "for_in"):
        if [k for _, k in order] != list(range(len(order))):
            return f"sources subscribed in the order {[k for _, k in order]} (expected 0, 1, 2, ...)"
        first_ok = spec[1] >= 1 and not (name == "for_in" and spec[2][0][0] == "raise")
        if first_ok and (not order or order[0][0] != 0):
            return f"{name} over {spec[1]} source(s): the first source was not subscribed at the subscription instant"
        if len(order) > spec[1]:
            return f"{name} over {spec[1]} source(s) made {len(order)} subscriptions"
    # a LAZY iterable of sources (generator / for_in's mapper) is advanced once at subscription and once per
    # continuing termination, never ahead of time; effect j = the iterable producing source j (or finding itself
    # exhausted, j = number of sources)
    eff = [(tag, a) for (tag, kind, a, b) in res["log"] if kind == "effect"]
    if inst.get("lazy"):
        if [j for _, j in eff] != list(range(len(eff))):
            return f"the lazy iterable was advanced in the order {[j for _, j in eff]}"
        subs_at = {k: tag for tag, k in order}
        for (tag, j) in eff:
            if j == 0 and tag != 0:
                return f"the first source was produced at input {tag}, not at the subscription instant"
            if j > 0 and not (tag < len(steps) and continuing(steps[tag])):
                return (f"source {j} was requested from the lazy iterable at input {tag}, which is not a "
                        f"continuing termination of the current source")
            if j in subs_at and subs_at[j] != tag:
                return f"source {j} was produced at input {tag} but subscribed at input {subs_at[j]}"
        for k, tag in subs_at.items():
            if (tag, k) not in eff:
                return f"source {k} subscribed at input {tag} without being produced then"
        if inst.get("argerr"):
            return inst["argerr"][0]
    # on_error_resume_next with factory arguments: factory k is called when its turn comes, with the error the
    # previous source ended with (the very object), or None after a completion / for the first source
    if inst.get("factories"):
        flog = inst["factory_log"]
        subs_at = {k: tag for tag, k in order}
        called = [k for (_, k, _) in flog]
        if len(set(called)) != len(called):
            return f"a source factory was called twice: {called}"
        for k, tag in subs_at.items():
            if inst["factories"][k] and k not in called:
                return f"source {k} subscribed although its factory was never called"
        for (tag, k, ex) in flog:
            if subs_at.get(k) != tag:
                return f"factory {k} called at input {tag}, its source subscribed at {subs_at.get(k)}"
            if k == 0:
                want = None
                if tag != 0:
                    return f"factory 0 called at input {tag}"
            else:
                st = steps[tag]
                if not continuing(st):
                    return f"factory {k} called at input {tag}, which is not a termination of the previous source"
                if st["inp"][1] != k - 1:
                    return f"factory {k} called when source {st['inp'][1]} terminated"
                want = st["inp"][2][1] if st["inp"][2][0] == "E" else None
            if ex is not want:
                return f"factory {k} received {ex!r}, expected {want!r}"
    # catch(handler): the handler is called once, with the source's error and the source observable
    if name == "catch_handler":
        hlog = inst.get("handler_log", [])
        errs0 = [(tag, ev[1]) for (tag, k, ev) in acc if k == 0 and ev[0] == "E"]
        if len(hlog) != len(errs0[:1]):
            return f"catch(handler): handler called {len(hlog)} times for {len(errs0[:1])} source error(s)"
        if hlog:
            tag, e, same = hlog[0]
            if tag != errs0[0][0] or e is not errs0[0][1]:
                return f"catch(handler): handler called at input {tag} with {e!r}, expected {errs0[0]}"
            if not same:
                return "catch(handler): the handler's second argument is not the source observable"
    elif name in ("repeat", "retry", "while_do", "do_while"):
        if any(k != 0 for _, k in order):
            return f"{name} subscribed sources {[k for _, k in order]}"
        if name in ("repeat", "retry") and (spec[1] is None or spec[1] >= 1) and (not order or order[0][0] != 0):
            return f"{name}({spec[1]}): the source was not subscribed at the subscription instant"
    elif name == "catch_handler" and (not order or order[0] != (0, 0)):
        return "catch(handler): the source was not subscribed at the subscription instant"
    t = term(em)
    # counts
    if name == "repeat" and spec[1] is not None:
        completions = sum(1 for (_, k, ev) in acc if ev[0] == "C")
        if nsubs > max(spec[1], 0):
            return f"repeat({spec[1]}) subscribed {nsubs} times"
        if t and t[1] == "C" and spec[1] > 0 and (nsubs != spec[1] or completions != spec[1]):
            return f"repeat({spec[1]}) completed after {nsubs} subscriptions / {completions} completions"
    if name == "retry" and spec[1] is not None and nsubs > max(spec[1], 0):
        return f"retry({spec[1]}) subscribed {nsubs} times"
    # terminal kind
    if t:
        last = acc[-1] if acc else None
        if name in ("concat", "repeat") and t[1] == "E" and not (last and last[2][0] == "E" and last[0] == t[0]):
            return "error terminal without a source error at that instant"
        if name == "for_in" and t[1] == "E" and not (last and last[2][0] == "E" and last[0] == t[0]):
            raised = eff and eff[-1][0] == t[0] and eff[-1][1] < spec[1] and spec[2][eff[-1][1]][0] == "raise"
            if not raised:
                return "error terminal without a source error or a raising mapper call at that instant"
        if name in ("concat", "for_in") and t[1] == "C":
            completions = sum(1 for (_, k, ev) in acc if ev[0] == "C")
            if completions != spec[1] or nsubs != spec[1]:
                return f"{name} over {spec[1]} source(s) completed after {nsubs} subscriptions / {completions} completions"
        if name in ("catch", "retry") and t[1] == "C" and nsubs > 0 and not (last and last[2][0] == "C" and last[0] == t[0]):
            return "completion without a source completion at that instant"
    return None


def oracle_c11(name, inst, res):
    steps = timeline(res)
    v = common(res, steps)
    if v:
        return v
    em = emitted(steps)
    acc = accepted(steps)
    static = name == "merge"
    inner = (lambda k: True) if static else (lambda k: k >= 1)
    exp = [(tag, ev[1]) for (tag, k, ev) in acc if ev[0] == "N" and inner(k)]
    got = [(tag, b) for (tag, a, b) in em if a == "N"]
    if exp != got:
        return f"merged elements differ: expected {exp} got {got}"
    at_start = sorted(k for st in steps if st["tag"] == 0 for k in st["subs"])
    if static and at_start != list(range(inst["spec"][1])):
        return f"merge over {inst['spec'][1]} sources subscribed {at_start} at the subscription instant"
    if not static and at_start[:1] != [0]:
        return f"{name}: the outer source was not subscribed at the subscription instant (subscribed: {at_start})"
    t = term(em)
    if t and t[1] == "C":
        # outer completed and every subscribed inner completed
        completed = {k for (_, k, ev) in acc if ev[0] == "C"}
        subscribed = {k for st in steps for k in st["subs"]}
        if subscribed - completed:
            return f"completed while {sorted(subscribed - completed)} had not completed"
    errs = [(tag, ev) for (tag, k, ev) in acc if ev[0] == "E"]
    if errs and not (t and t[1] == "E" and t[0] == errs[0][0]):
        return "did not terminate on the first error"
    spec = inst["spec"]
    mc = 1 if name == "concat_map" else (spec[2] if name == "merge_mc" else None)
    if mc:
        order = []
        for st in steps:
            if len({k for k in st["live_after"] if k >= 1}) > mc:
                return f"more than {mc} inner sequences subscribed after input {st['tag']}"
            order += [k for k in st["subs"] if k >= 1]
        if order != sorted(order):
            return f"queued inners started out of arrival order: {order}"
    return None


def oracle_c12(name, inst, res):
    steps = timeline(res)
    v = common(res, steps)
    if v:
        return v
    em = emitted(steps)
    at_start = sorted(k for st in steps if st["tag"] == 0 for k in st["subs"])
    if at_start[:1] != [0]:
        return f"{name}: the outer source was not subscribed at the subscription instant (subscribed: {at_start})"
    latest = 0
    exp = []
    outer_done = False
    inner_done = True
    for st in steps:
        i = st["inp"]
        if len({k for k in st["live_after"] if k >= 1}) > 1:
            return f"two inner sequences subscribed after input {st['tag']}"
        if not i or i[0] != "src" or i[1] not in st["live_before"]:
            continue
        if i[1] == 0 and i[2][0] == "N":
            if st["subs"]:
                new = [k for k in st["subs"] if k >= 1]
                if new:
                    if latest and latest in st["live_before"] and latest not in st["unsubs"]:
                        return f"previous inner {latest} not unsubscribed when inner {new[0]} arrived"
                    latest = new[0]
        elif i[1] >= 1 and i[2][0] == "N":
            if i[1] == latest:
                exp.append((st["tag"], i[2][1]))
        if any(a in "EC" for a, _ in st["emits"]):
            break
    got = [(tag, b) for (tag, a, b) in em if a == "N"]
    if exp != got:
        return f"forwarded elements differ: expected {exp} got {got}"
    t = term(em)
    if t and t[1] == "C":
        acc = accepted(steps)
        if not any(k == 0 and ev[0] == "C" for (_, k, ev) in acc):
            return "completed before the outer completed"
        if latest and not any(k == latest and ev[0] == "C" for (_, k, ev) in acc):
            return "completed before the latest inner completed"
    return None


def oracle_c13(name, inst, res):
    steps = timeline(res)
    v = common(res, steps)
    if v:
        return v
    em = emitted(steps)
    acc = accepted(steps)
    spec = inst["spec"]
    n = spec[1]
    at_start = sorted(k for st in steps if st["tag"] == 0 for k in st["subs"])
    nstatic = n + 1 if name == "with_latest_from" else n
    if at_start != list(range(nstatic)) and not any(a in "EC" for (tag, a, b) in em if tag == 0):
        return f"{name} over {nstatic} sources subscribed {at_start} at the subscription instant"
    got = [(tag, tuple(b) if isinstance(b, (tuple, list)) else b) for (tag, a, b) in em if a == "N"]
    if name == "zip":
        seqs = {k: [] for k in range(n)}
        exp = []
        for (tag, k, ev) in acc:
            if ev[0] == "N":
                seqs[k].append(ev[1])
                m = min(len(s) for s in seqs.values())
                if m > len(exp):
                    exp.append((tag, tuple(seqs[j][len(exp)] for j in range(n))))
        if exp != got:
            return f"zip tuples differ: expected {exp} got {got}"
        # "completes when a completed source has no buffered element left": at the first such moment, not before
        buf = {k: 0 for k in range(n)}
        done = set()
        want = None
        for (tag, k, ev) in acc:
            if ev[0] == "N":
                buf[k] += 1
                if all(buf.values()):
                    for j in buf:
                        buf[j] -= 1
            elif ev[0] == "C":
                done.add(k)
            else:
                break                                   # an error: the statement's completion rule ends here
            if any(buf[j] == 0 for j in done):
                want = tag
                break
        t = term(em)
        if want is not None and not (t and t[0] == want and t[1] == "C"):
            return (f"zip: a completed source had no buffered element left at input {want} but the output "
                    f"{'got ' + repr(t[1]) + ' at input ' + str(t[0]) if t else 'did not complete'}")
        if want is None and t and t[1] == "C":
            return f"zip completed at input {t[0]} although no completed source had run out of buffered elements"
    elif name == "combine_latest":
        latest = {}
        exp = []
        for (tag, k, ev) in acc:
            if ev[0] == "N":
                latest[k] = ev[1]
                if len(latest) == n:
                    exp.append((tag, tuple(latest[j] for j in range(n))))
        if exp != got:
            return f"combine_latest tuples differ: expected {exp} got {got}"
        # completion (the statement only implies it): a tuple is due "on each element once all sources have emitted",
        # so the output may complete only when no element can produce a tuple any more -- every source completed, or
        # (may, not must) some completed source never emitted
        t = term(em)
        if t and t[1] == "C":
            done = {k for (tag, k, ev) in acc if ev[0] == "C" and tag <= t[0]}
            silent = [k for k in done if k not in latest]
            if len(done) < n and not silent:
                return (f"combine_latest completed at input {t[0]} while sources {sorted(set(range(n)) - done)} can "
                        f"still deliver elements that call for a tuple")
    elif name == "with_latest_from":
        latest = {}
        exp = []
        for (tag, k, ev) in acc:
            if ev[0] == "N":
                if k == 0:
                    if len(latest) == n:
                        exp.append((tag, (ev[1],) + tuple(latest[j] for j in range(1, n + 1))))
                else:
                    latest[k] = ev[1]
        if exp != got:
            return f"with_latest_from tuples differ: expected {exp} got {got}"
    elif name == "fork_join":
        last, done = {}, set()
        exp = []
        for (tag, k, ev) in acc:
            if ev[0] == "N":
                last[k] = ev[1]
            elif ev[0] == "C":
                done.add(k)
                if k not in last:
                    break
                if len(done) == n:
                    exp.append((tag, tuple(last[j] for j in range(n))))
        if exp != got:
            return f"fork_join result differs: expected {exp} got {got}"
        # "completes at once when one completes empty"; otherwise completion may only follow the tuple
        last2, want, errored = set(), None, False
        for (tag, k, ev) in acc:
            if ev[0] == "N":
                last2.add(k)
            elif ev[0] == "C":
                if k not in last2:
                    want = tag
                    break
            else:
                errored = True
                break
        t = term(em)
        if want is not None and not (t and t[0] == want and t[1] == "C"):
            return (f"fork_join: a source completed empty at input {want} but the output "
                    f"{'got ' + repr(t[1]) + ' at input ' + str(t[0]) if t else 'did not complete'}")
        if want is None and t and t[1] == "C" and not (exp and exp[0][0] == t[0]):
            return f"fork_join completed at input {t[0]} without a tuple or a source completing empty"
    elif name == "amb":
        first = acc[0] if acc else None
        if first:
            w = first[1]
            exp = [(tag, ev[1]) for (tag, k, ev) in acc if k == w and ev[0] == "N"]
            if exp != got:
                return f"amb does not mirror the first source to notify ({w}): expected {exp} got {got}"
            st = steps[first[0]]
            others = set(range(n)) - {w}
            if not others <= set(st["unsubs"]) | (set(range(n)) - st["live_before"]):
                return f"amb did not unsubscribe the losers at the winner's first notification: {st['unsubs']}"
            wt = [(tag, ev) for (tag, k, ev) in acc if k == w and ev[0] in "EC"]
            t = term(em)
            if wt and not (t and t[0] == wt[0][0] and t[1] == wt[0][1][0]):
                return "amb does not mirror the winner's termination"
        elif got:
            return "amb emitted without input"
    return None

