"""replay_clock -- ORACLE-ONLY family shared by C22 and C24: WHOSE CLOCK measures the age of a replayed value.

Statement (C22): a new ReplaySubject subscriber first receives the retained values -- the last buffer_size
values whose age at subscription is within the window -- then the terminal notification if one occurred, then
every later notification.  (C24): a subscriber of replay() receives the replayed values plus what the shared
subject receives from its subscription onwards.  The age of a value is measured on the clock that time-stamped
it: the SUBJECT's scheduler S1 (constructor / operator argument).  A scheduler S2 handed over at subscribe time
(`subscribe(obs, scheduler=S2)`; ConnectableObservable, ref_count and multicast forward it to the subject) is not
mentioned by the statement: it must not change what this subscriber, or any later one, is replayed.

Scenario (JSON-able dict, self-contained):
  form         'subject'              ReplaySubject(buffer_size, window, S1), notifications pushed into it
               'replay_connect'       src.pipe(ops.replay(buffer_size=, window=, scheduler=S1)) + connect()/dispose
               'replay_ref_count'     ... .pipe(ops.replay(...), ops.ref_count())                  (share-like)
               'multicast_ref_count'  src.pipe(ops.multicast(subject=ReplaySubject(..., S1)), ops.ref_count())
               'multicast_connect'    src.pipe(ops.multicast(subject=ReplaySubject(..., S1))) + connect()
               'replay_auto_connect'  src.pipe(ops.replay(...)).auto_connect(1)
  s1           {'kind': 'vt' VirtualTimeScheduler | 'hist' HistoricalScheduler | 'test' TestScheduler, 'start': ticks}
               or {'kind': 'rt'}: no scheduler argument (the default CurrentThreadScheduler, wall clock; only
               window None / 10**6 s there)
  program      top-level operations, S1 drained after each one (so every expectation is exact):
               ['adv', d]  S1.sleep(d) | ['next', v] | ['done'] | ['err', code] | ['unsub', o]
               ['connect'] | ['disconnect'] (connect forms) |
               ['sub', o, s2]   s2 = None (no scheduler) | 'same' (S1 itself) |
                                {'kind': 'vt'|'hist'|'test', 'offset': k}  a FRESH virtual-time scheduler whose clock
                                reads S1.now + k seconds at that moment (k > 0 ahead, k < 0 behind) |
                                {'kind': 'wall', 'cls': 'immediate'|'current'}  a real-time scheduler.
In the operator forms the source is a hand-driven tap that records which pushes reached a live source
subscription: that record IS `what the shared subject receives` (the connection logic itself is judged by the
other families of C24, not here).

Oracle (never looks at S2): for subscriber o subscribed at S1-instant T (read from S1.now just before the call)
with the subject's input before it = values (t_i, v_i) [+ terminal]: cand = the last buffer_size values;
must = those with T - t_i < window, may = those with T - t_i <= window (age == window: either outcome
accepted); o must have received  may[k:] ++ [terminal if the subject had ended] ++ every later effective
notification up to its unsubscription, for some k <= len(may) - len(must) -- exactly that, nothing else."""
import json
from datetime import timedelta

FORMS = {"C22": ["subject"],
         "C24": ["replay_connect", "replay_ref_count", "multicast_ref_count", "multicast_connect",
                 "replay_auto_connect"]}
CONNECT_FORMS = ("replay_connect", "multicast_connect")
BIG = 10 ** 6


class ClockUserError(Exception):
    pass


# ------------------------------------------------------------------------------------------------ driver
def _mk_virtual(kind, seconds):
    """A fresh virtual-time scheduler whose clock reads UTC_ZERO + seconds."""
    from reactivex.internal.constants import UTC_ZERO
    from reactivex.scheduler import HistoricalScheduler, VirtualTimeScheduler
    from reactivex.testing import TestScheduler
    if kind == "vt":
        return VirtualTimeScheduler(float(seconds))
    if kind == "hist":
        return HistoricalScheduler(UTC_ZERO + timedelta(seconds=seconds))
    if kind == "test":
        s = TestScheduler()
        if seconds > 0:
            s.advance_to(float(seconds))
        return s
    raise AssertionError(kind)


def _drain(s1, kind):
    from reactivex.scheduler import VirtualTimeScheduler
    if kind == "rt":
        return
    VirtualTimeScheduler.start(s1)      # TestScheduler.start is the marble runner: use the plain drain


class _Tap:
    """Hand-driven hot source; records which pushes reach a live source subscription."""

    def __init__(self):
        self.ents = []
        self.subscriptions = 0

    def subscribe(self, observer, scheduler=None):
        from reactivex.disposable import Disposable
        ent = {"obs": observer, "alive": True}
        self.ents.append(ent)
        self.subscriptions += 1

        def disp():
            ent["alive"] = False
        return Disposable(disp)

    def push(self, note):
        n = 0
        for ent in list(self.ents):
            if not ent["alive"]:
                continue
            n += 1
            _deliver(ent["obs"], note)
            if note[0] != "N":
                ent["alive"] = False
        return n


def _deliver(obs, note):
    if note[0] == "N":
        obs.on_next(note[1])
    elif note[0] == "E":
        obs.on_error(note[1])
    else:
        obs.on_completed()


def _secs(s1, zero):
    return (s1.now - zero).total_seconds()


def run_scenario(sc):
    """-> record {'input': [[seq, t, note]], 'subs': {o: {...}}, 'got': {o: [note]}, ...}; notes are
    ['N', v] | ['E', code] | ['C'].  May raise whatever escapes from the library (see safe_run)."""
    import reactivex
    from reactivex import Observable
    from reactivex import operators as ops
    from reactivex.internal.constants import UTC_ZERO
    from reactivex.scheduler import CurrentThreadScheduler, ImmediateScheduler
    from reactivex.subject import ReplaySubject
    form, bs, w = sc["form"], sc["buffer_size"], sc["window"]
    k1 = sc["s1"]["kind"]
    s1 = None if k1 == "rt" else _mk_virtual(k1, sc["s1"].get("start", 0))
    clock = s1 if s1 is not None else CurrentThreadScheduler.singleton()
    tap = _Tap()
    if form == "subject":
        subject = ReplaySubject(bs, w, s1)
        shared = subject
    else:
        src = Observable(tap.subscribe)
        if form.startswith("replay"):
            connectable = src.pipe(ops.replay(buffer_size=bs, window=w, scheduler=s1))
        else:
            connectable = src.pipe(ops.multicast(subject=ReplaySubject(bs, w, s1)))
        if form.endswith("ref_count"):
            shared = connectable.pipe(ops.ref_count())
        elif form.endswith("auto_connect"):
            shared = connectable.auto_connect(1)
        else:
            shared = connectable
    rec = {"input": [], "subs": {}, "got": {}, "source_subscriptions": 0}
    errors, keep = {}, []
    seq = [0]
    handles, conn = {}, [None]
    ended = [False]

    def tick():
        seq[0] += 1
        return seq[0]

    def observer_for(o):
        got = rec["got"].setdefault(o, [])

        def on_error(e):
            code = errors.get(id(e))
            got.append(["E", code if code is not None else repr(e)])
        return reactivex.Observer(lambda v: got.append(["N", v]), on_error, lambda: got.append(["C"]))

    for op in sc["program"]:
        kind = op[0]
        if kind == "adv":
            if s1 is not None and op[1] > 0:
                s1.sleep(op[1])
        elif kind in ("next", "done", "err"):
            if kind == "next":
                note, jn = ("N", op[1]), ["N", op[1]]
            elif kind == "done":
                note, jn = ("C",), ["C"]
            else:
                e = ClockUserError(op[1])
                errors[id(e)] = op[1]
                keep.append(e)
                note, jn = ("E", e), ["E", op[1]]
            t = _secs(clock, UTC_ZERO)
            s = tick()
            if form == "subject":
                n = 1
                _deliver(subject, note)
            else:
                n = tap.push(note)
            for _ in range(n):
                if not ended[0]:
                    rec["input"].append([s, t, jn])
                    if jn[0] != "N":
                        ended[0] = True
        elif kind == "sub":
            o, spec = op[1], op[2]
            if str(o) in rec["subs"]:
                continue
            t = _secs(clock, UTC_ZERO)
            if spec is None:
                s2, t2 = None, None
            elif spec == "same":
                s2, t2 = s1, t
            elif spec["kind"] == "wall":
                s2 = ImmediateScheduler() if spec["cls"] == "immediate" else CurrentThreadScheduler()
                t2 = _secs(s2, UTC_ZERO)
            else:
                s2 = _mk_virtual(spec["kind"], t + spec["offset"])
                t2 = _secs(s2, UTC_ZERO)
            S = {"seq": tick(), "t": t, "t2": t2, "spec": spec, "unsub": None}
            rec["subs"][str(o)] = S
            ob = observer_for(str(o))
            handles[o] = shared.subscribe(ob) if s2 is None else shared.subscribe(ob, scheduler=s2)
        elif kind == "unsub":
            S = rec["subs"].get(str(op[1]))
            if S is None or S["unsub"] is not None:
                continue
            S["unsub"] = tick()
            handles[op[1]].dispose()
        elif kind == "connect":
            if form in CONNECT_FORMS:
                conn[0] = shared.connect()
        elif kind == "disconnect":
            if form in CONNECT_FORMS and conn[0] is not None:
                conn[0].dispose()
                conn[0] = None
        else:
            raise AssertionError(op)
        _drain(s1, k1)
    rec["source_subscriptions"] = tap.subscriptions
    return rec


def safe_run(sc):
    """Never lets anything escape: -> record, or {'crash': text}."""
    import lib

    def go():
        try:
            return run_scenario(sc)
        except Exception as e:   # noqa: BLE001  (RecursionError included)
            return {"crash": f"{type(e).__name__}: {e}"[:300]}
    try:
        st, r = lib.with_timeout(5, go)
    except KeyboardInterrupt:
        raise
    except BaseException as e:   # noqa: BLE001
        return {"crash": f"{type(e).__name__}: {e}"[:300]}
    if st != "ok":
        return {"crash": "timeout: the scenario did not finish within 5 s"}
    return r


# ------------------------------------------------------------------------------------------------ oracle
def _rel(S):
    spec = S["spec"]
    if spec is None:
        return "none"
    if spec == "same":
        return "same"
    if spec["kind"] == "wall":
        return "wall"
    return "ahead" if spec["offset"] > 0 else "behind" if spec["offset"] < 0 else "equal"


def _retained(vals, bs, w, T):
    """(must, may) from the statement; vals = [(t, v)] in order."""
    cand = vals if bs is None else (vals[-bs:] if bs > 0 else [])
    if w is None:
        return [v for _, v in cand], [v for _, v in cand]
    return [v for t, v in cand if T - t < w], [v for t, v in cand if T - t <= w]


def entitlement(sc, rec, o):
    S = rec["subs"][o]
    before = [e for e in rec["input"] if e[0] < S["seq"]]
    vals = [(e[1], e[2][1]) for e in before if e[2][0] == "N"]
    term = [e[2] for e in before if e[2][0] != "N"][:1]
    must, may = _retained(vals, sc["buffer_size"], sc["window"], S["t"])
    later = [e[2] for e in rec["input"] if e[0] > S["seq"] and (S["unsub"] is None or e[0] < S["unsub"])]
    return must, may, term + later, vals


def oracle(sc, rec):
    """-> [(signature tail, detail)]"""
    if "crash" in rec:
        return [("escaped|" + rec["crash"].split(":")[0], {"escaped_from_the_library": rec["crash"]})]
    bad = []
    foreign_before = []
    for o, S in sorted(rec["subs"].items(), key=lambda kv: kv[1]["seq"]):
        must, may, tail, vals = entitlement(sc, rec, o)
        got = rec["got"].get(o, [])
        slack = len(may) - len(must)
        accepted = [[["N", v] for v in may[k:]] + tail for k in range(slack + 1)]
        if got not in accepted:
            nt = len(tail)
            head = got[:len(got) - nt] if nt else got
            if (got[len(got) - nt:] if nt else []) == tail and all(n[0] == "N" for n in head):
                hv = [n[1] for n in head]
                if len(hv) < len(must) and hv == must[len(must) - len(hv):]:
                    kind = "retained-values-not-replayed"
                elif len(hv) > len(may) and hv[len(hv) - len(may):] == may:
                    kind = "values-no-longer-retained-replayed"
                else:
                    kind = "replayed-values-differ"
            else:
                kind = "sequence-differs"
            rel = _rel(S)
            if rel in ("none", "same", "equal") and foreign_before:
                rel += "-after-a-subscriber-with-a-foreign-scheduler"
            bad.append((f"{kind}|subscriber-scheduler={rel}",
                        {"subscriber": o, "subscribed_at_S1_seconds": S["t"],
                         "subscriber_scheduler": S["spec"], "its_clock_read_seconds": S["t2"],
                         "values_before_subscription (S1 seconds, value)": vals,
                         "must_replay": must, "may_replay": may, "then": tail, "received": got,
                         "earlier_subscribers_with_a_foreign_scheduler": list(foreign_before)}))
        if _rel(S) in ("ahead", "behind", "wall"):
            foreign_before.append(o)
    return bad


def discriminating(sc, rec):
    """Coverage: number of subscriptions where judging ages on the SUBSCRIBER's scheduler clock would give
    another retained set than the subject's clock does (the confusion this family is about)."""
    n = 0
    if "crash" in rec or sc["window"] is None:
        return 0
    for o, S in rec["subs"].items():
        if S["t2"] is None or S["spec"] == "same":
            continue
        must, may, _, vals = entitlement(sc, rec, o)
        m2, y2 = _retained(vals, sc["buffer_size"], sc["window"], S["t2"])
        if not (len(must) <= len(y2) <= len(may)):     # all of them are suffixes of the same candidates
            n += 1
    return n


# ------------------------------------------------------------------------------------------------ generators
def _offsets(w):
    w = 5 if w is None or w >= BIG else w
    return [1, 2, w, w + 1, 2 * w + 1, 1000, 10 ** 5, -1, -2, -w, -(w + 1), -(2 * w + 1), -1000, -(10 ** 5)]


def grid(form, tier):
    """Deterministic small scope: two values with ages d1+d2 and d2, a subscriber with every kind of
    subscribe-time scheduler, one later value, a plain late subscriber, the end, a third subscriber."""
    out = []
    prefix = [["connect"]] if form in CONNECT_FORMS else []
    pre_sub = [["sub", 9, None]] if form.endswith("ref_count") or form.endswith("auto_connect") else []
    for bs in (None, 1, 2):
        for w in (2, 5):
            ds = (0, 1, w, w + 1) if tier != "quick" else (0, w, w + 1)
            specs = [None, "same", {"kind": "wall", "cls": "immediate"}, {"kind": "wall", "cls": "current"}]
            for i, k in enumerate((1, w + 1, 10 ** 4, -1, -(w + 1), -(10 ** 4))):
                specs.append({"kind": ("vt", "hist", "test")[i % 3], "offset": k})
            for si, spec in enumerate(specs):
                for d1 in ds:
                    for d2 in ds:
                        s1 = {"kind": ("vt", "hist", "test")[(si + d1 + d2) % 3], "start": 50000}
                        prog = prefix + pre_sub + [["next", 0], ["adv", d1], ["next", 1], ["adv", d2],
                                                   ["sub", 0, spec], ["adv", 1], ["next", 2], ["sub", 1, None],
                                                   ["done"] if (d1 + d2) % 2 else ["err", 11], ["sub", 2, spec]]
                        out.append({"form": form, "buffer_size": bs, "window": w, "s1": s1, "program": prog})
    # the default (wall-clock) scheduler for the subject, virtual-time schedulers far away for the subscribers
    for bs in (None, 1, 2):
        for w in (None, BIG):
            for k in (-(10 ** 9), 10 ** 9, 4 * 10 ** 9):
                for kk in ("vt", "hist"):
                    spec = {"kind": kk, "offset": k}
                    prog = prefix + pre_sub + [["next", 0], ["next", 1], ["sub", 0, spec], ["next", 2],
                                               ["sub", 1, None], ["done"], ["sub", 2, spec]]
                    out.append({"form": form, "buffer_size": bs, "window": w, "s1": {"kind": "rt"},
                                "program": prog})
    return out


def rand_scenario(rng, form):
    k1 = rng.choice(["vt", "vt", "hist", "hist", "test", "test", "rt"])
    bs = rng.choice([None, None, 0, 1, 2, 3, 5])
    if k1 == "rt":
        w = rng.choice([None, BIG])
        s1 = {"kind": "rt"}
    else:
        w = rng.choice([None, 1, 2, 3, 5, 5, 10, 100])
        s1 = {"kind": k1, "start": rng.choice([0, 7, 1000, 50000])}
    offs = _offsets(w) if k1 != "rt" else [-(10 ** 9), 10 ** 9, 4 * 10 ** 9, 5, -5]
    advs = [0, 1, 1, 2, 3] + ([w - 1, w, w, w + 1, w + 1, 2 * w] if w not in (None, BIG) else [5])
    prog, nobs, val = [], 0, 0
    if form in CONNECT_FORMS and rng.random() < 0.85:
        prog.append(["connect"])
    if (form.endswith("ref_count") or form.endswith("auto_connect")) and rng.random() < 0.7:
        prog.append(["sub", 9, None])
    for _ in range(rng.randint(4, 12)):
        r = rng.random()
        if r < 0.33:
            prog.append(["next", val])
            val += 1
        elif r < 0.55:
            prog.append(["adv", rng.choice(advs)])
        elif r < 0.83 and nobs < 5:
            q = rng.random()
            if q < 0.15:
                spec = None
            elif q < 0.22:
                spec = "same"
            elif q < 0.32:
                spec = {"kind": "wall", "cls": rng.choice(["immediate", "current"])}
            else:
                spec = {"kind": rng.choice(["vt", "hist", "test"]), "offset": rng.choice(offs)}
            prog.append(["sub", nobs, spec])
            nobs += 1
        elif r < 0.90:
            prog.append(["unsub", rng.choice([9] + list(range(max(1, nobs))))])
        elif r < 0.95:
            prog.append(["done"] if rng.random() < 0.5 else ["err", rng.choice([11, 12])])
        elif form in CONNECT_FORMS:
            prog.append(rng.choice([["connect"], ["disconnect"]]))
        else:
            prog.append(["adv", rng.choice(advs)])
    return {"form": form, "buffer_size": bs, "window": w, "s1": s1, "program": prog}


def shrink(sc, sig):
    def fails(s):
        return any(x == sig for x, _ in oracle(s, safe_run(s)))
    cur = sc
    changed = True
    while changed:
        changed = False
        for i in range(len(cur["program"])):
            cand = dict(cur, program=cur["program"][:i] + cur["program"][i + 1:])
            if fails(cand):
                cur, changed = cand, True
                break
    return cur


# ------------------------------------------------------------------------------------------------ check
def run_family(chk, pid):
    """Runs the family for property `pid`, files violations, records coverage under chk.cov['replay_clock']."""
    import time
    t0 = time.time()
    forms = FORMS[pid]
    tier = chk.tier if not chk.broken else "thorough"
    nrand = (1500 if tier == "quick" else 15000) // len(forms)
    cases = []
    for f in forms:
        cases += [("grid", s) for s in grid(f, tier)]
        cases += [("random", rand_scenario(chk.rng, f)) for _ in range(nrand)]
    H = {"scenarios": 0, "by_origin": {}, "by_form": {}, "subject_scheduler": {}, "subscriber_scheduler": {},
         "subscriptions": 0, "discriminating_subscriptions": 0, "scenarios_with_a_discriminating_subscription": 0,
         "plain_subscriber_after_a_foreign_one": 0, "age_equals_window_subscriptions": 0,
         "replayed_values": 0, "subscriber_after_the_end": 0}
    seen, distinct = set(), set()
    timeouts = 0
    for origin, sc in cases:
        if timeouts >= 4:           # a library that hangs: a few witnesses are enough, do not spend 5 s per scenario
            H["abandoned_after_timeouts"] = H.get("abandoned_after_timeouts", 0) + 1
            continue
        rec = safe_run(sc)
        timeouts += 1 if str(rec.get("crash", "")).startswith("timeout") else 0
        chk.cov["evaluations"] += 1
        H["scenarios"] += 1
        H["by_origin"][origin] = H["by_origin"].get(origin, 0) + 1
        H["by_form"][sc["form"]] = H["by_form"].get(sc["form"], 0) + 1
        H["subject_scheduler"][sc["s1"]["kind"]] = H["subject_scheduler"].get(sc["s1"]["kind"], 0) + 1
        if "crash" not in rec:
            foreign = False
            for o, S in sorted(rec["subs"].items(), key=lambda kv: kv[1]["seq"]):
                r = _rel(S)
                H["subscriber_scheduler"][r] = H["subscriber_scheduler"].get(r, 0) + 1
                H["subscriptions"] += 1
                must, may, tail, _ = entitlement(sc, rec, o)
                H["age_equals_window_subscriptions"] += 1 if len(may) != len(must) else 0
                H["replayed_values"] += len(must)
                H["subscriber_after_the_end"] += 1 if any(e[0] < S["seq"] and e[2][0] != "N"
                                                          for e in rec["input"]) else 0
                if r in ("none", "same") and foreign:
                    H["plain_subscriber_after_a_foreign_one"] += 1
                foreign = foreign or r in ("ahead", "behind", "wall")
            nd = discriminating(sc, rec)
            H["discriminating_subscriptions"] += nd
            if nd:
                H["scenarios_with_a_discriminating_subscription"] += 1
                distinct.add(json.dumps(sc, sort_keys=True))
        for sig, detail in oracle(sc, rec):
            full = f"replay_clock|{sc['form']}|{sig}"
            if full in seen:
                continue
            seen.add(full)
            sm = sc if sig.startswith("escaped|timeout") else shrink(sc, sig)
            r2 = safe_run(sm)
            d2 = [d for s, d in oracle(sm, r2) if s == sig]
            chk.violation(full, {"family": "replay_clock", "scenario": sm,
                                 "oracle": d2[0] if d2 else detail, "implementation_record": r2,
                                 "expected": "harness/replay_clock.py docstring: the retained values are judged on "
                                             "the SUBJECT's scheduler clock, whatever scheduler the subscriber "
                                             "passed to subscribe()"},
                          size=len(sm["program"]))
    H["distinct_discriminating_scenarios"] = len(distinct)
    H["wall_s"] = round(time.time() - t0, 2)
    chk.cov["replay_clock"] = H
    chk.cov["rule"] = chk.cov.get("rule", "") + (
        "  ORACLE-ONLY family replay_clock (harness/replay_clock.py): the subject / replay operator is built on "
        "scheduler S1 (VirtualTimeScheduler, HistoricalScheduler, TestScheduler, or the default wall-clock one) and "
        "subscribers pass NO scheduler, S1 itself, a fresh virtual-time scheduler whose clock is ahead of or behind "
        "S1's (by 1 .. 10**5 s, around the window), or a real-time scheduler to subscribe(); forms: "
        + ", ".join(forms) + "; deterministic grid (buffer_size None/1/2 x window 2/5 x value ages 0/window/window+1 x "
        "10 subscriber schedulers, + the wall-clock subject with far-away virtual subscribers) + seeded random "
        "programs of 4..12 operations (next/adv/sub/unsub/done/err/connect/disconnect); the exact per-subscriber "
        "sequence is recomputed from the statement with ages on S1's clock only (age == window: both outcomes "
        "accepted); coverage.replay_clock.discriminating_subscriptions counts the subscriptions where the "
        "subscriber's clock would have given another retained set.")
    return H


TRUSTED = ("replay_clock family: driver harness/replay_clock.py (S1 drained with VirtualTimeScheduler.start after "
           "every top-level operation; instants read from S1.now; in operator forms the hand-driven source tap's "
           "record of pushes that reached a live source subscription is taken as `what the shared subject receives`)")
ASSUME = ("replay_clock family: single thread, observers do not raise and do not call back; a subscribe-time "
          "scheduler is never expected to be used at all by the subject (the statement is silent about it), only "
          "that it does not change what is replayed")


def replay(chk, path, d=None, pid="C22"):
    d = d or json.load(open(path))
    sc = d["scenario"]
    rec = safe_run(sc)
    bad = oracle(sc, rec)
    print("scenario", json.dumps(sc))
    print("implementation record", json.dumps(rec, default=repr))
    for s, dd in bad:
        print("ORACLE FAILS", s, json.dumps(dd, default=repr))
    if bad:
        print(f"VIOLATION property={pid} replay={path}")
    return 1 if bad else 0
