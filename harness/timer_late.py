"""C35 (f) -- reactivex.timer(duetime, period) whose ticks run LATE (oracle only).

The periodic timer with duetime != period (reactivex/observable/timer.py,
observable_timer_duetime_and_period) is a self-rescheduling absolute-time chain with a
catch-up rule for a tick that runs after its due time.  This family makes ticks run late by
chosen amounts -- 0, less than a period, EXACTLY one period, more, several periods, each
-/+ a small eps -- in three ways:

  (a) an absolute (datetime) start time in the past by k*period +/- eps,
  (b) a negative relative due time (float / int / timedelta),
  (c) another action on the same scheduler that sleeps (scheduler.sleep) past one or more
      ticks, or the OBSERVER sleeping past the next tick(s),

on VirtualTimeScheduler / TestScheduler / HistoricalScheduler, float / int / timedelta
periods, the scheduler handed to the factory or to subscribe, subscribed directly or from
inside a scheduled action, with and without take(n), driven by start() (ended by a
scheduled dispose or take), one advance_to, or several advance_by steps.

All times of a case are integer microseconds.  The oracle (`oracle`) is written from the
property text only; it never looks at timer.py's arithmetic.  What it demands, with D = the
timer's due time (absolute, or subscription instant + relative due time), p = max(0,
period), e_k = the instant value k is delivered, and `busy` = the OBSERVED intervals during
which the scheduler was inside a sleeping action / observer:

  R1  the values are 0, 1, 2, ... in this order, no gaps;
  R2  never early: e_0 >= max(D, subscription instant);
  R3  (p > 0) "once per period": e_{k+1} > e_k -- two values are never delivered at one
      instant -- and e_{k+1} >= lb_k + p, where lb_k is a LOWER bound of tick k's due time
      that holds for every catch-up policy whose consecutive due times are >= p apart
      (lb_0 = D; lb_{k+1} = max(lb_k + p, e_k + 1us); lb_k := e_k when tick k demonstrably
      ran at its due time, i.e. nothing else was observed at the instant e_k, so it was the
      tick's own due time that moved the clock there);
  R4  "repeatedly, once per period": while the subscription is alive the next tick is due
      at most one period after the previous delivery, so value k+1 IS delivered, at the
      latest at hi(e_k + p) (value 0: hi(max(D, subscription instant))), where hi(x) = the
      latest instant an item due at x can run given the observed busy intervals (x itself
      when the scheduler is free; ties with another item due at x are left open);
  R5  no value after the subscription was disposed / after on_completed.

R3 + R4 pin an on-time tick's successor to exactly one period later, leave the choice open
inside [lb_k + p, e_k + p] after a late tick (the library picks the lower end when the tick
is less than a period late and e_k + p otherwise; a grid-keeping "skip the missed ticks"
policy is accepted as well), and reject scheduling the next tick at the current instant.
Period <= 0 (the library clamps to 0: everything at one instant) is only judged by R1, R2, R5.

Coverage only: the number of ticks that coincide with the library's present policy
(`ref` in the result of `oracle`).
"""
import json
from datetime import timedelta

import lib
import vt

U = vt.US
DRIVER = "timer-late"


# ---------------------------------------------------------------------------------------
# driver
# ---------------------------------------------------------------------------------------

def _mk_time(form, us, w):
    if form == "abs_dt":
        return w.utc0 + timedelta(microseconds=us)
    if form in ("rel_td", "td"):
        return timedelta(microseconds=us)
    if form in ("rel_float", "float"):
        return us / U
    if form in ("rel_int", "int"):
        assert us % U == 0, (form, us)
        return us // U
    raise ValueError(form)


def run_case(case, timeout=10.0):
    """-> {"log": [...], "error": str | None}.  log entries (in program order):
    ["sub", clk] ["emit", v, clk] ["osleep", start, end] ["sleeper", i, start, end] ["dispose", clk]
    ["adv", clk_at_call, target] ["completed", clk] ["error", repr, clk]"""
    lib.import_repo()
    import reactivex
    from reactivex import operators as ops
    w = vt.World(case["world"], case["c0"], bool(case.get("iwp")))
    s = w.s
    log = []
    box = {}
    c0 = case["c0"]

    def now():
        return w.us(s.clock)

    obs_sleeps = case.get("obs_sleeps")
    seen = [0]

    def on_next(v):
        log.append(["emit", v, now()])
        i = seen[0]
        seen[0] += 1
        if obs_sleeps and obs_sleeps[i % len(obs_sleeps)]:
            a = now()
            s.sleep(w.rel_(obs_sleeps[i % len(obs_sleeps)]))      # the observer takes virtual time
            log.append(["osleep", a, now()])

    def on_error(e):
        log.append(["error", repr(e), now()])

    def on_completed():
        log.append(["completed", now()])

    due = _mk_time(case["due"]["form"], case["due"]["us"], w)
    period = _mk_time(case["period"]["form"], case["period"]["us"], w)

    def do_sub(*_):
        if case.get("via") == "factory":
            src = reactivex.timer(due, period, scheduler=s)
        else:
            src = reactivex.timer(due, period)
        if case.get("take") is not None:
            src = src.pipe(ops.take(case["take"]))
        log.append(["sub", now()])
        if case.get("via") == "factory":
            box["sub"] = src.subscribe(on_next, on_error, on_completed)
        else:
            box["sub"] = src.subscribe(on_next, on_error, on_completed, scheduler=s)

    def mk_sleeper(i, dur):
        def act(sc, st):
            a = now()
            if dur > 0:
                s.sleep(w.rel_(dur))
            log.append(["sleeper", i, a, now()])
        return act

    def do_dispose(*_):
        if "sub" in box:
            box["sub"].dispose()
            log.append(["dispose", now()])

    def body():
        sleepers = case.get("sleepers") or []
        if case.get("sleepers_first", True):
            for i, (at, dur) in enumerate(sleepers):
                s.schedule_absolute(w.abs_(at), mk_sleeper(i, dur))
        if case.get("sub_at", 0) > 0:
            s.schedule_absolute(w.abs_(c0 + case["sub_at"]), do_sub)
        else:
            do_sub()
        if not case.get("sleepers_first", True):
            for i, (at, dur) in enumerate(sleepers):
                s.schedule_absolute(w.abs_(at), mk_sleeper(i, dur))
        if case.get("dispose_at") is not None:
            s.schedule_absolute(w.abs_(case["dispose_at"]), do_dispose)
        drive = case["drive"]
        if drive[0] == "start":
            log.append(["adv", now(), None])
            s.start()
        elif drive[0] == "advto":
            log.append(["adv", now(), drive[1]])
            s.advance_to(w.abs_(drive[1]))
        else:
            for step in drive[1]:
                log.append(["adv", now(), now() + step])
                s.advance_by(w.rel_(step))
        log.append(["end", now()])

    err = None
    try:
        status, _ = lib.with_timeout(timeout, body)
        if status == "timeout":
            err = "hang: no return within the watchdog"
    except Exception as e:           # noqa: BLE001 -- anything escaping the scheduler is reported
        err = f"{type(e).__name__}: {e}"
    try:
        if "sub" in box:
            box["sub"].dispose()
    except Exception:                # noqa: BLE001
        pass
    return {"log": log, "error": err}


# ---------------------------------------------------------------------------------------
# oracle (the statement; see the module docstring)
# ---------------------------------------------------------------------------------------

def _hi(x, busy):
    """latest instant an item due at x can run: pushed to the end of every busy interval it falls into
    (or starts together with: tie left open)"""
    y, again = x, True
    while again:
        again = False
        for (a, b) in busy:
            if a <= y < b:
                y, again = b, True
    return y


def _lo(x, busy):
    y, again = x, True
    while again:
        again = False
        for (a, b) in busy:
            if a < y < b:
                y, again = b, True
    return y


def oracle(case, res):
    """-> (violations [(signature, message)], stats dict)"""
    log = res["log"]
    bad = []
    st = {"ticks": 0, "late_ticks": 0, "late_exactly_one_period": 0, "late_less": 0, "late_more": 0,
          "late_several": 0, "ref_policy_ticks": 0, "not_ref_policy_ticks": 0, "sharpened": 0}
    p = max(0, case["period"]["us"])
    if res.get("error"):
        bad.append(("timer-late|exception-or-hang", res["error"]))
        return bad, st
    subs = [e for e in log if e[0] == "sub"]
    emits = [(i, e[1], e[2]) for i, e in enumerate(log) if e[0] == "emit"]
    if any(e[0] == "error" for e in log):
        bad.append(("timer-late|exception-or-hang", f"on_error: {[e for e in log if e[0] == 'error'][0]}"))
        return bad, st
    if not subs:
        if emits:
            bad.append(("timer-late|emission-after-dispose", "values without a subscription"))
        return bad, st
    c_s = subs[0][1]
    D = case["due"]["us"] if case["due"]["form"] == "abs_dt" else c_s + case["due"]["us"]
    busy = [(e[2], e[3]) for e in log if e[0] == "sleeper" and e[3] > e[2]]
    busy += [(e[1], e[2]) for e in log if e[0] == "osleep" and e[2] > e[1]]
    # every instant at which something other than a tick was observed (who moved the clock there?)
    others = {c_s}
    for e in log:
        if e[0] == "sleeper":
            others.update((e[2], e[3]))
        elif e[0] == "osleep":
            others.add(e[2])
        elif e[0] in ("dispose", "completed", "end"):
            others.add(e[1])
        elif e[0] == "adv":
            others.add(e[1])
            if e[2] is not None:
                others.add(e[2])
    stop_idx = min([i for i, e in enumerate(log) if e[0] in ("dispose", "completed")], default=None)
    # R5
    if stop_idx is not None:
        for (i, v, clk) in emits:
            if i > stop_idx:
                bad.append(("timer-late|emission-after-dispose",
                            f"value {v} at {clk} after {log[stop_idx]}"))
                return bad, st
    # R1
    vals = [v for (_, v, _) in emits]
    if vals != list(range(len(vals))):
        bad.append(("timer-late|values-not-0-1-2", f"values {vals[:8]}"))
        return bad, st
    first_due = max(D, c_s)
    lb = D
    ref_due = D
    prev = None
    for k, (_, v, e) in enumerate(emits):
        st["ticks"] += 1
        # ---- lower bounds
        if k == 0:
            if e < first_due:
                bad.append(("timer-late|tick-early", f"value 0 at {e}, before its due time {D} / the "
                            f"subscription at {c_s}"))
                return bad, st
        elif p > 0:
            if e <= prev:
                bad.append(("timer-late|two-values-at-one-instant",
                            f"values {k - 1} and {k} both delivered at {e} (period {p} us > 0): not once per period"))
                return bad, st
            if e < lb:
                bad.append(("timer-late|tick-early",
                            f"value {k} at {e}: value {k - 1} was due no earlier than {lb - p} (delivered at {prev}), "
                            f"so value {k} is due no earlier than {lb}"))
                return bad, st
        elif e < first_due:
            bad.append(("timer-late|tick-early", f"value {k} at {e} before the due time {first_due}"))
            return bad, st
        # ---- upper bound
        if p > 0 or k == 0:
            latest_due = first_due if k == 0 else prev + p
            h = _hi(latest_due, busy)
            if e > h:
                bad.append(("timer-late|tick-missing-or-later-than-a-period",
                            f"value {k} at {e}: " + (f"due at {latest_due}" if k == 0 else
                                                     f"value {k - 1} was delivered at {prev}, so it is due by {latest_due}")
                            + f" and the scheduler was free to run it by {h}"))
                return bad, st
        # ---- coverage: lateness w.r.t. the library's present policy, agreement with it
        if p > 0:
            x = max(ref_due, c_s)
            if _lo(x, busy) <= e <= _hi(x, busy):
                st["ref_policy_ticks"] += 1
                late = e - ref_due
                if late > 0:
                    st["late_ticks"] += 1
                    st["late_exactly_one_period"] += late == p
                    st["late_less"] += late < p
                    st["late_more"] += p < late < 2 * p
                    st["late_several"] += late >= 2 * p
            else:
                st["not_ref_policy_ticks"] += 1
            ref_due = ref_due + p if ref_due + p > e else e + p
        # ---- next lower bound
        own = e not in others and all(e2 != e for j, (_, _, e2) in enumerate(emits) if j != k)
        if own:
            lb = e
            st["sharpened"] += 1
        lb = max(lb + p, e + 1) if p > 0 else lb
        prev = e
    # ---- existence of the next value (R4)
    n = len(emits)
    if case.get("take") is not None and n >= case["take"]:
        return bad, st
    if p == 0 and n > 0 and case.get("take") is None:
        return bad, st
    latest_due = first_due if n == 0 else prev + p
    h = _hi(latest_due, busy)
    disposed = [e for e in log if e[0] in ("dispose", "completed")]
    if disposed and disposed[0][1] <= h:
        return bad, st                     # stopped before (or at the instant: tie open) the value had to come
    advs = [e for e in log if e[0] == "adv"]
    if any(a[2] is None for a in advs):
        horizon = None                     # start(): runs until nothing is left
    else:
        horizon = max([a[2] for a in advs], default=None)
        if horizon is None:
            return bad, st
    if horizon is None or latest_due <= horizon:
        bad.append(("timer-late|tick-missing-or-later-than-a-period",
                    f"value {n} never delivered: " + (f"due at {latest_due}" if n == 0 else
                                                      f"value {n - 1} was delivered at {prev}, so it is due by {latest_due}")
                    + f", the scheduler ran "
                    + ("until its queue was empty" if horizon is None else f"everything due up to {horizon}")
                    + " and the subscription was not disposed before"))
    return bad, st


def size_of(case):
    return (len(case.get("sleepers") or []) * 300 + (200 if case.get("obs_sleeps") else 0)
            + (100 if case.get("sub_at") else 0) + len(json.dumps(case)))


# ---------------------------------------------------------------------------------------
# generators
# ---------------------------------------------------------------------------------------

PERIODS = [1 * U, 5 * U, 50 * U, 250_000, 1000, 10 * U, 3 * U + 1]
C0S = [0, 100 * U, 1000 * U + 250_000, 86400 * U]


def late_amounts(p, eps):
    out = []
    for k in (0, 1, 2, 3, 5):
        for dl in (-eps, 0, eps):
            out.append(k * p + dl)
    out += [p // 2, p + p // 2, 2 * p + p // 3, -(p // 2), -3 * p]
    return out


def _whole(*xs):
    return all(x % U == 0 for x in xs)


def _finish(case, rng, D_eff, p):
    """choose via / forms / take / drive / dispose for a case whose first tick is expected at about D_eff"""
    c0 = case["c0"]
    case["via"] = rng.choice(["subscribe", "factory"])
    pu = case["period"]["us"]
    forms = ["float", "td"] + (["int"] if _whole(pu) else [])
    case["period"]["form"] = rng.choice(forms)
    if case["due"]["form"] == "rel":
        du = case["due"]["us"]
        forms = ["rel_float", "rel_td"] + (["rel_int"] if _whole(du) else [])
        case["due"]["form"] = rng.choice(forms)
    if case["world"] != "hist" and rng.random() < 0.5:
        case["iwp"] = True                     # int (not float) clock values / delays wherever they are whole seconds
    n = rng.choice([3, 4, 5, 6])
    pp = max(p, 0) or U
    T = max(D_eff, c0 + case.get("sub_at", 0)) + n * pp + rng.choice([0, 0, pp // 2, pp // 3, 1])
    T += sum(d for (_, d) in case.get("sleepers") or [])
    take = rng.choice([None, None, n - 1, 2])
    if p <= 0:
        take = rng.choice([1, 2, 4])
    case["take"] = take
    x = rng.random()
    if x < 0.35:
        case["drive"] = ["start"]
        if take is None or rng.random() < 0.3:
            case["dispose_at"] = T
    elif x < 0.7:
        case["drive"] = ["advto", T]
        if rng.random() < 0.25:
            case["dispose_at"] = T - rng.choice([pp, pp // 2, pp + pp // 3])
    else:
        steps, done = [], c0
        while done < T:
            stp = min(T - done, rng.choice([pp // 2 or 1, pp, pp + 1, 2 * pp, 3 * pp + pp // 2]))
            if len(steps) >= 24 or (not steps and T - done > 40 * pp):
                stp = max(1, T - done - (10 * pp if not steps and T - done > 10 * pp else 0))   # one long stride
            steps.append(stp)
            done += stp
        case["drive"] = ["advby", steps]
    return case


def case_past(rng, world, p, L, how, eps_tag=""):
    """the first tick is late by L because the due time is in the past: absolute datetime (how='abs') or a
    negative relative due time (how='rel')"""
    c0 = rng.choice(C0S)
    sub_at = rng.choice([0, 0, 200 * U, 7 * U + 500_000])
    c_s = c0 + sub_at
    case = {"family": f"{how}-past{eps_tag}", "world": world, "c0": c0, "sub_at": sub_at,
            "period": {"us": p}}
    if how == "abs":
        case["due"] = {"form": "abs_dt", "us": c_s - L}
    else:
        case["due"] = {"form": "rel", "us": -L}
    if p > 0 and rng.random() < 0.25:
        case["obs_sleeps"] = [rng.choice([0, p // 2, p, 2 * p, 2 * p + 1]) for _ in range(3)]
    return _finish(case, rng, c_s - L, p)


def case_sleep(rng, world, p, L, j, a):
    """tick j (counted on the undisturbed grid) is late by L because another action, started `a` before it is
    due, sleeps until then"""
    c0 = rng.choice(C0S)
    sub_at = rng.choice([0, 0, 200 * U])
    c_s = c0 + sub_at
    d = rng.choice([0, p // 2, p, 2 * p, 3 * p + 1, 100 * U])
    case = {"family": "sleeper", "world": world, "c0": c0, "sub_at": sub_at, "period": {"us": p}}
    D = c_s + d
    if rng.random() < 0.3:
        case["due"] = {"form": "abs_dt", "us": D}
    else:
        case["due"] = {"form": "rel", "us": d}
    at = max(c0, D + j * p - a)
    dur = max(0, D + j * p + L - at)
    sleepers = [[at, dur]]
    if rng.random() < 0.35:                  # a second one later on
        j2 = j + rng.choice([1, 2, 3])
        L2 = rng.choice([p, p - 1, p + 1, 2 * p, p // 2, 3 * p])
        at2 = D + j * p + L + (j2 - j) * p - rng.choice([1, p // 2, 0])
        sleepers.append([max(c0, at2), L2 + rng.choice([0, 1, p // 2])])
    case["sleepers"] = sleepers
    case["sleepers_first"] = rng.random() < 0.7
    return _finish(case, rng, D, p)


def case_observer(rng, world, p, sleeps):
    """the observer sleeps past the next tick(s)"""
    c0 = rng.choice(C0S)
    sub_at = rng.choice([0, 0, 200 * U])
    d = rng.choice([0, p // 2, 2 * p, 3 * p + 1])
    case = {"family": "observer", "world": world, "c0": c0, "sub_at": sub_at, "period": {"us": p},
            "obs_sleeps": sleeps}
    if rng.random() < 0.3:
        case["due"] = {"form": "abs_dt", "us": c0 + sub_at + d}
    else:
        case["due"] = {"form": "rel", "us": d}
    return _finish(case, rng, c0 + sub_at + d, p)


def systematic_cases(rng, tier):
    out = []
    for world in vt.WORLDS:
        for p in PERIODS:
            for eps in (1, 1000, p // 4):
                for L in late_amounts(p, eps):
                    out.append(case_past(rng, world, p, L, "abs"))
                    out.append(case_past(rng, world, p, L, "rel"))
                    for j in ((0, 2) if tier == "quick" else (0, 1, 2)):
                        if L > 0:
                            out.append(case_sleep(rng, world, p, L, j, rng.choice([1, p // 2, p, 0, 2 * p])))
            for S in (p // 2, p, p + 1, 2 * p - 1, 2 * p, 2 * p + 1, 3 * p, 3 * p + p // 2, 6 * p):
                out.append(case_observer(rng, world, p, [S, 0, 0]))
                out.append(case_observer(rng, world, p, [0, S, rng.choice([0, S, p])]))
        # period <= 0: clamped to 0 by the library, everything at one instant (take(n) ends it)
        for pz in (0, -1 * U):
            out.append(case_past(rng, world, pz, rng.choice([0, 3 * U, -2 * U]), rng.choice(["abs", "rel"])))
    return out


def random_case(rng):
    world = rng.choice(vt.WORLDS)
    p = rng.choice(PERIODS)
    eps = rng.choice([1, 1, 1000, p // 4])
    L = rng.choice(late_amounts(p, eps))
    x = rng.random()
    if x < 0.3:
        c = case_past(rng, world, p, L, "abs")
    elif x < 0.6:
        c = case_past(rng, world, p, L, "rel")
    elif x < 0.85:
        c = case_sleep(rng, world, p, abs(L) or p, rng.choice([0, 1, 2, 3]), rng.choice([1, p // 2, p, 0, 2 * p]))
    else:
        c = case_observer(rng, world, p, [rng.choice([0, p // 2, p, p + 1, 2 * p - 1, 2 * p, 2 * p + 1, 3 * p, 4 * p])
                                          for _ in range(rng.choice([1, 2, 3]))])
    c["family"] = "random-" + c["family"]
    return c
